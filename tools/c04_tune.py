#!/usr/bin/env python3
"""Finds, per generated round-trip harness, an input length at which the decoder
can succeed at all: runs ./check C04 (evidence to a scratch dir), doubles the
length of every harness whose "decoded" marker was unreachable (24 -> 48 -> 96
-> 192 -> 384), regenerates, and repeats. Writes tools/c04_lengths.json and
tools/c04_skip.json (types that do not decode within 384 bytes)."""
import json, subprocess, os, re
L = {}
p = '/verif/tools/c04_lengths.json'
if os.path.exists(p): L = json.load(open(p))
skip = {}
for it in range(5):
    subprocess.run(['python3', '/verif/tools/gen_roundtrip.py'], check=True, stdout=subprocess.DEVNULL)
    env = dict(os.environ, SYMGO_REPO='/repo', SYMGO_OUT='/tmp/c04_tune_out')
    subprocess.run(['./check', 'C04', 'quick', '--harness', 'ZZ_C04_auto_', '--no-replay'], cwd='/verif', env=env, stdout=open('/tmp/c04_tune_%d.log' % it, 'w'), stderr=subprocess.STDOUT)
    e = json.load(open('/tmp/c04_tune_out/evidence/C04.json'))['coverage']
    vac = [v.split('/')[0].replace('ZZ_C04_auto_', '') for v in e.get('vacuity_witnesses_missing', [])]
    print('iteration', it, 'vacuous', len(vac), flush=True)
    if not vac: break
    for t in vac:
        cur = L.get(t, 24)
        if cur >= 384:
            skip[t] = 'does not decode within 384 symbolic bytes'
        else:
            L[t] = max(cur, 24) * 2
    json.dump(L, open(p, 'w'), indent=1, sort_keys=True)
    json.dump(skip, open('/verif/tools/c04_skip.json', 'w'), indent=1, sort_keys=True)
    if all(t in skip for t in vac): break
