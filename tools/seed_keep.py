#!/usr/bin/env python3
"""usage: seed_keep.py PROP N 'detected|missed' 'which harness/assert caught it or why missed'
Copies /tmp/seed/PROP/{patch_N.diff,demo_N_test.go,notes_N.md} to /verif/seeded/PROP_N/ and writes meta.json."""
import sys, os, shutil, json, re
prop, n, status, detail = sys.argv[1:5]
src = f'/tmp/seed/{prop}'
dst = f'/verif/seeded/{prop}_{n}'
os.makedirs(dst, exist_ok=True)
shutil.copy(f'{src}/patch_{n}.diff', f'{dst}/patch.diff')
shutil.copy(f'{src}/demo_{n}_test.go', f'{dst}/demo_test.go.txt')
notes = open(f'{src}/notes_{n}.md').read() if os.path.exists(f'{src}/notes_{n}.md') else ''
open(f'{dst}/notes.md', 'w').write(notes)
demo = open(f'{src}/demo_{n}_test.go').read()
m = re.search(r'place in: *(\S+)', demo)
files = re.findall(r'^\+\+\+ b/(\S+)', open(f'{dst}/patch.diff').read(), re.M)
meta = {
  "property": prop,
  "seed": int(n),
  "files_changed": files,
  "demo_place_in": m.group(1) if m else None,
  "needs_to_manifest": (re.search(r'(?is)(manifest|needs|trigger)[^\n]*\n(.{0,600})', notes) or [None, None, ''])[2].strip()[:600] if notes else '',
  "author": "independent sub-agent given only the property text and a scratch worktree",
  "confirmed_by_me": "tools/seed_eval.sh: demo passes on pristine scratch worktree, fails with patch applied; tests of the changed packages still pass with the patch; go build ./... ok",
  "check_run": f"SYMGO_REPO=<scratch worktree with patch> ./check {prop} quick",
  "status": status,
  "detail": detail,
}
json.dump(meta, open(f'{dst}/meta.json', 'w'), indent=1)
print(dst, status)
