#!/bin/sh
# Runs every quick_cmd of MANIFEST.json once, sequentially, and validates evidence.
cd /verif
tier="${1:-quick}"
for p in $(jq -r '.checks[].property_id' MANIFEST.json); do
  cmd=$(jq -r ".checks[] | select(.property_id==\"$p\") | .${tier}_cmd" MANIFEST.json)
  t0=$(date +%s)
  sh -c "$cmd" > /tmp/runall_$p.txt 2>&1; rc=$?
  t1=$(date +%s)
  v=$(grep -c '^VIOLATION' /tmp/runall_$p.txt)
  k=$(grep -c '^KNOWN-FINDING' /tmp/runall_$p.txt)
  ev=$(python3-vt -c "
import json, jsonschema, sys
try:
    jsonschema.validate(json.load(open('/verif/evidence/$p.json')), json.load(open('/root/.vp/EVIDENCE.schema.json'))); print('evidence-ok')
except Exception as e: print('EVIDENCE-BAD', str(e)[:100])")
  echo "$p rc=$rc violations=$v known=$k $((t1-t0))s $ev"
done
