#!/usr/bin/env python3
"""Regenerates /verif/MANIFEST.json from the table below (claims are limited to
harnesses that ran clean on the unchanged tree)."""
import json

CLAIMED = {
 "C01": ("4 C01", "CheckTransactionOutput / CheckTransactionFee / getTransactionFee executed symbolically for transfer-shaped transactions with symbolic Fixed64 amounts: whenever the checks accept, outputs + fee <= inputs over the mathematical integers (no wrap-around).",
         "bounds: up to 3 inputs / 3 outputs, one asset; reference amounts arbitrary 64-bit; UTXO lookup replaced by harness-supplied references"),
 "C02": ("4 C02", "Decoders run on fully symbolic byte buffers with an allocation oracle (no make() sized by input above the 8 MiB message cap) and a no-panic oracle: payload.Confirm, payload.InactiveArbitrators, payload.VotesContent, p2p GetBlocks, common.ReadVarBytes.",
         "bounds: inputs of 12-96 bytes, var-bytes length fields <= 1 where stated in the harness; decoders that go through encoding/binary.Read (reflection: inv, addr) and all other payload types are outside the claim"),
 "C03": ("4 C03", "Script classifiers (IsStandard/IsMultiSig/IsSchnorr/GetCodeType) on symbolic code of every length 0..96, AuxPow.Check on structured proofs with symbolic size/nonce and enumerated branch lengths, GetExpectedIndex for every nonce/chain id/branch length <= 64: no panic reachable.",
         "bounds: code length <= 96 bytes; aux branch lengths {0,1,2,30,31,32,33,40}; RunPrograms, checkSchnorrSignatures and coinbase-context checks are not encoded"),
 "C09": ("A.2 / 4 C09", "BigToCompact then CompactToBig never yields a larger target, stays positive and loses < 2^-15 of it (math/big encoded as SMT Int); CheckProofOfWork accepts only if 0 < target <= limit and the parent hash (double-SHA256 as uninterpreted function, read little-endian) <= target, with the target recomputed by an independent reference decoder.",
         "bounds: targets < 2^40 for the encode direction (quick and thorough alike: wider runs did not finish in this session), exponents 0..39 x all 24 mantissa/sign bits for proof-of-work; the full codec cross-check (ZZ_C09_slow_compact) and the retarget step (ZZ_C09_slow_retarget) exist but are NOT registered because they did not run to completion within the session budget; CalcWork not encoded"),
 "C20": ("4 C20", "utils.History driven through commit x4 -> seek -> seek -> commit -> rollback -> commit with symbolic deltas and enumerated capacity / target heights; after each step the state equals the prefix sum of the height the history claims.",
         "bounds: 4+1 heights, capacity 2..5, 1-2 additive changes per height (3 in thorough); temporary (height 0) changes and non-commuting changes within one height are outside the claim"),
 "C25": ("4 C25", "GetArbitersMajorityCount / HasArbitersMajorityCount with a symbolic arbiter count (IEEE-754 semantics of the float ratio decided by cvc5): accepted <=> 3*signers > 2*n, both directions; ConfirmContextCheck with 5 votes of symbolic signer/accept flags accepts only with > 2/3 DISTINCT current arbiters.",
         "bounds: n <= 1024 (100000 thorough) for the ratio; 3..5 arbiters and 5 votes for the confirm check; signature verification (ConfirmSanityCheck) not encoded"),
 "C26": ("4 C26", "ChangeView / ChangeViewV1 evaluated once versus three times at arbitrary intermediate instants (millisecond-granular symbolic times): same offset and remainder, offsets monotone. One genuine defect (first-slot formula beyond a full round) is a recorded known finding.",
         "bounds: window 90 s / 60 s, 1..6 arbiters, tolerance enumerated (V0) or 1..10 s symbolic (V1); math.Pow evaluated on enumerated integer arguments; V2 schedule not encoded"),
 "C31": ("4 C31", "checkTransactionCrossChainUTXO decided for every transaction-type byte (all values GetTransaction accepts give the real transaction object), every payload-version byte, 0..3 referenced outputs with arbitrary prefix bytes and all uint32 heights with freeze <= restriction: verdict equals the policy table written from the statement with literal protocol values. enforceCrossChainUTXORestrictionHeights for every ASCII ActiveNet string of 0..8 bytes and arbitrary local heights: mainnet names give the two constants, every other name gives MaxUint32.",
         "bounds: <= 3 references; ActiveNet <= 8 ASCII bytes (non-ASCII names are unsupported by the ToLower model and excluded by assumption); the call site in DefaultChecker.ContextCheck (argument order) and the viper/JSON loading path of SetupConfig are not encoded"),
 "C32": ("4 C32", "checkFrozenAddresses on 0..2 frozen entries (resolved or unresolved hash, symbolic start height), 0..2 referenced and 0..2 created outputs with fully symbolic 21-byte program hashes: accepted <=> no active entry equals any touched hash, in either position. enforceFrozenAddresses: for every mainnet spelling the list becomes the single coordinated entry whatever the local list was.",
         "bounds: <= 2 entries / 2 references / 2 outputs; the coinbase exemption (ContextCheck is not run for coinbase) and address-string resolution in Sterilize (base58) are not encoded"),
 "C39": ("4 C39", "bloom.Filter with symbolic filter bytes, hash count, tweak and elements, MurmurHash3 executed for real: after Add(x); Add(y) both match and no bit is ever cleared; AddOutPoint/AddHash then match; MatchTxAndUpdate on a real TransferAsset transaction that pays to a watched program hash (any output position) or spends a watched outpoint (any input position) returns true and the paying outpoint matches afterwards; side-chain SPV filters (tweak MaxUint32) match watched hashes and watched transaction types.",
         "bounds: filter 1..4 bytes (1..2 for the transaction harness; 8/4 thorough), 1..3 hash functions, elements 0..5 bytes plus 21/32/34-byte hashes and outpoints, <= 2 outputs / 2 inputs; SHA-256 of a symbolic transaction is an uninterpreted function; multiplications/remainders are first abstracted as uninterpreted functions (sound for unsat) and every sat verdict is re-decided exactly; empty filters (division by zero) are a C03 question and excluded; false-positive rate and NewFilter sizing not encoded"),
 "C11": ("4 C11", "Configuration.GetBlockReward / newRewardPerBlock for all uint32 heights on the mainnet, testnet and regnet parameter sets (IEEE-754 semantics, math.Pow(2,k) encoded exactly through the exponent field): never negative, and non-increasing in height from NewELAIssuanceHeight on. BlockChain.checkCoinbaseTransactionContext in the DPoS-v2 era with symbolic height, fee total, 2..4 coinbase outputs of arbitrary value and address: accepted => exactly three outputs summing to subsidy + fees, CR share ceil(0.3 total), DPoS share ceil(0.35 total), CR/DPoS outputs at the configured addresses (destroy address in PoW mode). The same through checkTxsContext / GetBlockDPOSReward for a coinbase-only block.",
         "bounds: fees in [0, 2^53]; coinbase with >= 2 outputs (CoinBaseTransaction.CheckTransactionOutput rejects fewer); v2 heights >= CheckRewardHeight (true on all shipped networks; below it checkTxsContext deliberately ignores the verdict); symbolic halving interval/heights only in the thorough tier; eras before v2, pow.Service.AssignCoinbaseTxRewards and the agreement of tx.Fee() with GetTxFee are not encoded; decided by cvc5 (FP)"),
 "C17": ("4 C17", "Flat-file half of crash safety, on the real blockStore over an in-memory filer installed through the production seams openFileFunc/openWriteFileFunc/deleteFileFunc: commit 1 stores a block, commit 2 stores two more and stops at an arbitrary WriteAt (any of 8, with an arbitrary prefix of that write applied) or at the final Sync, with or without file rollover inside commit 2; the store is reopened from the surviving files, rolled back to the persisted cursor as reconcileDB does (handleRollback), and then: the cursor equals the persisted one, no file lies beyond it, the write file ends exactly there, the committed block reads back byte-for-byte with a valid checksum, a later commit succeeds and reads back. Same for a transient (non-fatal) write failure followed by the rollback closure of writePendingAndCommit.",
         "bounds: blocks of 0..3 symbolic bytes, 3 rollover configurations, 9 crash points x 5 partial lengths; CRC-32 over symbolic bytes is an uninterpreted function of the stream; the metadata side (leveldb batch atomicity, dbCache.flush/commitTx), scanBlockFiles on a real directory and reconcileDB's own comparison (inline in a function that needs a leveldb handle; replicated in the harness) are outside the claim, so 'metadata never a mixture' is not decided"),
 "C18": ("4 C18", "Two blocks of symbolic content (0..4 bytes) written back to back with and without file rollover through blockStore.writeBlock, indexed through the real bucket.Put of a transaction whose metadata lives in its pending-key treap, then transaction.FetchBlock returns exactly the stored bytes and FetchBlockRegion / FetchBlockRegions with arbitrary uint32 offset and length return exactly raw[off:off+len] when the region lies within the block and fail otherwise; same for a block still pending in the transaction.",
         "bounds: block length <= 4 bytes, 2 blocks; CRC-32 uninterpreted; StoreBlock's duplicate check and the commit path (leveldb) are not encoded: the harness records the pending block / index row the way StoreBlock / writePendingAndCommit do; reopen is covered by C17's harness"),
 "C19": ("4 C19", "database/internal/treap (in-package overlay harness): sequences of Put/Delete with arbitrary one-byte keys and values and arbitrary distinct node priorities (math/rand draws are symbolic) on Mutable; every retained version of Immutable after later updates; Iterator Seek/First/Last/Next/Prev: Len, Size, Has, Get, ForEach and iteration agree with a ghost ordered map.",
         "bounds: 3 operations (4 thorough) + one optional delete for the iterator harness; keys and values one byte; priorities pairwise distinct (a 63-bit tie has negligible probability and cannot be replayed natively); iterator limits (start/limit keys) and ForceReseek not encoded"),
 "C35": ("4 C35", "p2p.ReadMessage through the peer's real createMessage / CheckAndCreateMessage over a scripted in-memory net.Conn: 24 fully symbolic header bytes + 0..9 symbolic payload bytes, symbolic magic: a successful read implies magic equal, command NUL-padded and one of the base commands, declared length equal to the bytes consumed and within the command's MaxLength, checksum = first four bytes of double SHA-256 of the payload; no allocation above the 32 MiB message cap whatever the header declares. WriteMessage then ReadMessage returns an equal message for ping, pong, verack, version (all fields symbolic) and addr (one address).",
         "bounds: payload <= 9 bytes available on the connection; base peer commands only (version, verack, getaddr, addr, ping, pong): the elanet / dpos createMessage switches and their payload decoders are C02's subject; SHA-256 uninterpreted with collision-freedom; Header (de)serialization goes through the engine's fixed-layout model of encoding/binary; the block send cache is not encoded; clock = arbitrary instants"),
 "C36": ("4 C36", "httpjsonrpc.checkAuth with symbolic configured user/password (0..2 bytes each) and a symbolic Authorization header of the right length, one shorter or one longer, or absent: accepted <=> no credentials configured or header == 'Basic '+base64(user:pass) (base64 re-implemented in the harness; SHA-256 collision-free by assumption). Every handler that sets node settings, mines, submits transactions or uses wallet data (12 handlers, classes written from the statement) answers InvalidMethod before doing anything else whenever the configured service level (5 names + an unrecognised one) does not permit its class.",
         "bounds: credentials <= 2+2 bytes; clientAllowed (net.SplitHostPort / ParseIP / IsLoopback string parsing) is NOT encoded — the IP filter clause is outside the claim; the handler list is the one in the harness (a newly added privileged handler without a gate is not detected); decided by cvc5 for the auth harness"),
 "C24": ("4 C24", "Two evaluations of Arbiters.getCandidateIndexAtRandom on the same chain data (symbolic previous-block nonce, enumerated counts) must agree, where every draw from the process-global math/rand source is an arbitrary value (any other goroutine may draw or reseed between two accesses) and a locally seeded generator is a deterministic uninterpreted function of its seed. Two rankings by getSortedProducers of 3 producers with arbitrary votes (ties allowed) and distinct node keys, each under a solver-chosen iteration order of the producer map, must be identical and descending by votes.",
         "bounds: 3 producers; counts enumerated; native replay of a schedule / map-order violation is by repetition (goroutines hammering rand.Int for 5 s; up to 500 re-rankings) and therefore probabilistic; getRandomDposV2Producers, getSortedProducersDposV2 (float vote rights) and the statement's call-graph clause ('all consensus code paths') are not decided"),
 "C13": ("4 C13", "Per-transaction database processors (every type that defines GetSaveProcessor/GetRollbackProcessor: WithdrawFromSideChain V0/V1/V2, CRCProposal, CRCProposalReview, CRCProposalTracking) run against an in-memory database.Tx/Bucket with a symbolic pre-existing unrelated entry and fully symbolic 32-byte keys: connect stores every key; disconnect removes exactly those keys and leaves the unrelated entry; every payload version the save side handles has a rollback side.",
         "bounds: <= 2 side-chain hashes, 1..2-byte data values, one pre-existing entry; the block-level indexers (UnspentIndex, UtxoIndex, TxIndex, ReturnDepositIndex) and ffldb itself are not encoded — 'disconnect undoes connect' is decided for the per-transaction processors only"),
 "C12": ("4 C12", "Decision kernel of chain selection: BlockChain.connectBestChain / getReorganizeNodes on block trees built in the harness (fork 1..3 blocks below the tip, side branch of 1..3 blocks, arbitrary base height, arbitrary cumulative work on both tips as math/big values, arbitrary DPoS state) over a store seam that fails at its first access: a tip with equal or less work never replaces the best chain and never touches the store; a tip with strictly more work triggers a reorganisation unless irreversibility forbids it; the reorganisation starts at the current tip and works from exactly the old branch above the fork (tip first) and the new branch (fork first); the store failure is reported.",
         "bounds: trees of <= 4 main + 3 side nodes; cumulative work < 2^16; everything below the first store access (disconnectBlock / connectBlock, checkpoint rollback, failure atomicity of a partially executed reorganisation — suspected to leave a partial chain, not decided), orphan handling and block validity are outside the claim: the whole-node statement over delivered block sequences is NOT decided"),
 "C21": ("4 C21", "Self-contained scalar sub-state of the DPoS state: State.tryUpdateLastIrreversibleHeight with the real utils.History from an arbitrary pre-state of LastIrreversibleHeight, DPOSStartHeight, DPOSWorkHeight, consensus algorithm and RevertToPOWStartHeight: process(h); Commit(h); RollbackTo(h-1) restores all four fields; LastIrreversibleHeight never decreases across process(h) and the invariant LastIrreversibleHeight <= DPOSStartHeight <= h+1 is inductive.",
         "bounds: one block; all uint32 values; the ~70 History.Append sites of dpos/state that touch maps and producers (whose inverse property needs transaction-validity preconditions) are not encoded — the general statement over generated block histories is NOT decided"),
 "C30": ("4 C30", "State.IsIrreversible for arbitrary heights: whenever it lets a reorganisation of d blocks below a tip at height cur proceed (past CRCOnlyDPOSHeight), no detached height is at or below LastIrreversibleHeight. connectBestChain on the C12 block trees with a recording store seam: a reorganisation is attempted only if the lowest block it would detach lies above LastIrreversibleHeight. LastIrreversibleHeight itself never decreases (C21 harness).",
         "bounds: as C12 (trees of <= 7 nodes); heights at or below CRCOnlyDPOSHeight are exempt as in the code; BlockChain.ReorganizeChain (only caller is an unreachable branch of mempool.CheckConfirmedBlockOnFork) passes the new block's height to the guard and is not encoded"),
 "C15": ("4 C15", "Serialized-block send cache of p2p.WriteMessage: every sequence of 4 sends (5 thorough) of blocks from a pool of 3, each with or without confirm, over a recording net.Conn: the bytes on the wire after the header equal a fresh serialization of that block, and the eviction queue, the cache map and the number of cached serializations stay within BlocksCacheSize. Transaction-reference cache (UTXOCache.GetTxReference / InsertReference / CleanCache / CleanTxCache) over a fake IUTXOCacheStore with the limit shrunk to 2: two lookups with arbitrary inputs (known / unknown transaction, index in / out of range) and arbitrary cleans in between answer exactly as the store does and the cache stays within its bound.",
         "bounds: send sequences of length 4 (5), pool of 3 blocks; 2 reference lookups of 1..2 inputs over 2 stored transactions; this is exhaustive symbolic enumeration of operation sequences (almost all values are concrete); the indexed-transaction cache (indexers.TxCache) and the decoded-block cache of ChainStoreFFLDB.GetBlock sit on ffldb and are NOT encoded; staleness across a reorganisation is not modelled (reorganizeChain calls CleanCache first)"),
}

# thorough tier (deeper bounds + every unsat cross-checked with z3 5.1.0) is
# registered only where it ran clean on the unchanged tree in this session
THOROUGH_OK = {"C02", "C03", "C20", "C25"}

NA = {
 "C04": "not built in this session: transaction wire round-trip needs the full per-type payload decoders (reflection-free subset not yet harnessed)",
 "C05": "signature verification is elliptic-curve arithmetic (P-256 / Schnorr) over 256-bit symbolic-by-symbolic multiplications: out of reach of the available SMT back ends; only the program-hash matching kernel would be encodable and it is not built",
 "C06": "history property; the one-step kernel (CheckBlockSanity duplicate-input detection, conflict-manager slots) is not built in this session",
 "C07": "merkle root binding needs collision-freedom of SHA-256, which an uninterpreted function does not give (the solver may pick a colliding interpretation); structural checks not built",
 "C08": "same obstacle as C07 (hash injectivity) plus recursive tree traversal over symbolic sizes; not built",
 "C10": "commitment soundness needs hash injectivity (see C07); the crash-freedom half of AuxPow.Check is claimed under C03",
 "C14": "indexers read and write ffldb buckets: not encodable (see C13)",
 "C16": "ffldb over leveldb + treap with real file I/O: the code the property depends on cannot be encoded",
 "C22": "same as C21 for cr/state",
 "C23": "checkpoint Serialize/Deserialize round trip over maps of producers: encodable in principle, not built in this session",
 "C27": "reward distribution is float64 accumulation over vote maps: sum-of-floor queries are unknown >300 s in all three solvers (probed), so no sound bound can be stated",
 "C28": "history property over State; check-arithmetic kernel not built in this session",
 "C29": "history property over proposal manager; not built in this session",
 "C33": "Schnorr aggregate verification is elliptic-curve arithmetic (see C05); single-use half is a history property; not built",
 "C34": "mempool structures are map/slice heaps driven by histories; not built in this session",
 "C37": "ECDSA/Schnorr signing and base58: elliptic-curve and big-radix string arithmetic out of solver reach",
 "C38": "a property of which random source is CALLED (program structure), not of input/output values: no assertion over symbolic inputs expresses it",
 "C40": "data-race freedom under arbitrary schedules: the engine is sequential; concurrency is a stated weak target for this technique",
}

def main():
    checks = []
    for pid in sorted(CLAIMED):
        ref, text, note = CLAIMED[pid]
        checks.append({
            "property_id": pid,
            "quick_cmd": f"./check {pid} quick",
            **({"thorough_cmd": f"./check {pid} thorough"} if pid in THOROUGH_OK else {}),
            "evidence_file": f"/verif/evidence/{pid}.json",
            "replay_cmd_template": "bin/symgo replay " + pid + " {path}",
            "engine": "symgo",
            "level_claimed": {
                "category": "model_checking",
                "text": "Bounded symbolic execution of the real functions (go/ssa of /repo's working tree, regenerated every run) with SMT decision of every branch and assertion; unsat = holds for every value within the stated bounds, sat = concrete input replayed natively against the real build. " + text,
                "design_ref": "DESIGN.md section " + ref,
            },
            "level_note": note + "; trusted base: go/ssa construction, symgo's SSA semantics (validated by native replay of every counterexample), z3 4.8.12 / cvc5 1.0 verdicts (thorough tier cross-checks each unsat with z3 5.1.0)",
            "technique": "SSA symbolic execution + SMT (solver-based checking of the real code)",
        })
    m = {
        "version": 1,
        "setup_cmd": "cd /verif/engine && GOFLAGS=-mod=mod GOPROXY=off GOSUMDB=off GOTOOLCHAIN=local go build -o /verif/bin/symgo ./cmd/symgo",
        "hooks": {
            "guard": "verif",
            "enable": "no hooks are committed to /repo: harness files (//go:build verif) under /verif/harness are injected with packages.Config.Overlay (engine) and go test -tags verif -overlay (native replay)",
            "baseline_off_cmd": "cd /repo && go test -mod=mod -json -vet=off -count=1 -timeout 25m ./...",
            "source_commits": [],
            "add_only": True,
        },
        "engines": [{"name": "symgo", "path": "/verif/engine", "serves_properties": sorted(CLAIMED),
                     "kind_free_text": "SSA symbolic executor (go/ssa -> SMT-LIB2, z3/cvc5), bounded; counterexamples replayed natively"}],
        "checks": checks,
        "notes": "exit 3 = inconclusive (solver unknown / unsupported construct / unwinding assertion / vacuity witness missing); never reported as success. Genuine defects found and repaired are listed under 'fixed' in /verif/known_findings.json; unrepaired ones under 'findings'.",
        "not_applicable": [{"property_id": k, "reason": NA[k]} for k in sorted(NA)],
    }
    ids = set(CLAIMED) | set(NA)
    assert len(ids) == 40 and not (set(CLAIMED) & set(NA)), sorted(ids)
    json.dump(m, open("/verif/MANIFEST.json", "w"), indent=1)

main()
