#!/bin/bash
# usage: tools/seed_eval.sh <PROP> <seed-dir> <n> [check-args...]
# 1. confirms the seeded change in a scratch worktree (demo passes pristine, fails mutated)
# 2. applies it to /repo, runs ./check PROP quick, undoes it
# /repo itself is never modified: the check is pointed at the scratch worktree.
export GOFLAGS=-mod=mod GOPROXY=off GOSUMDB=off GOTOOLCHAIN=local
prop=$1; dir=$2; n=$3; shift 3
patch=$dir/patch_$n.diff; demo=$dir/demo_${n}_test.go
[ -f "$patch" ] || { echo "no patch $patch"; exit 2; }
place=$(grep -m1 -o 'place in: *[^ ]*' "$demo" | sed 's/place in: *//; s#/$##')
wt=/tmp/sv_${prop}_$n
git -C /repo worktree remove --force $wt 2>/dev/null
git -C /repo worktree add -q --detach $wt HEAD || exit 2
cp "$demo" $wt/$place/zz_seed_demo_test.go
tests=$(grep -o '^func Test[A-Za-z0-9_]*' "$demo" | sed 's/func //' | paste -sd'|')
suite=$(grep -o '^func ([a-z]* \*[A-Za-z]*) Test[A-Za-z0-9_]*' "$demo" | sed 's/.*) //' | paste -sd'|')
run_demo() {
  if [ -n "$tests" ]; then (cd $wt && timeout 600 go test -vet=off -count=1 -run "^($tests)\$" ./$place/ 2>&1 | tail -5); fi
  if [ -n "$suite" ]; then (cd $wt && timeout 600 go test -vet=off -count=1 ./$place/ -testify.m="^($suite)\$" 2>&1 | tail -5); fi
}
echo "== demo on pristine (expect ok)"; run_demo
git -C $wt apply "$patch" || { echo "PATCH DOES NOT APPLY"; git -C /repo worktree remove --force $wt; exit 2; }
echo "== demo on mutated (expect FAIL)"; run_demo
echo "== package tests on mutated (expect ok)"
rm -f $wt/$place/zz_seed_demo_test.go
pkgs=$(grep '^+++ b/' "$patch" | sed 's#+++ b/##' | xargs -n1 dirname | sort -u | sed 's#^#./#' | paste -sd' ')
(cd $wt && timeout 1200 go build ./... && timeout 1200 go test -vet=off -count=1 $pkgs 2>&1 | tail -6)
echo "== check $prop on the mutated scratch tree (SYMGO_REPO=$wt; /repo untouched)"
(cd /verif && SYMGO_REPO=$wt SYMGO_OUT=/tmp/sv_out_${prop}_$n ./check $prop quick "$@" 2>&1 | grep -E "^(VIOLATION|  harness|KNOWN|INCONCLUSIVE|UNREPRODUCED|symgo:)" | head -12)
git -C /repo worktree remove --force $wt
rm -rf /tmp/sv_out_${prop}_$n
