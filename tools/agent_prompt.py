#!/usr/bin/env python3
# prints the mutation-agent prompt for a property id (only the property text + worktree path)
import json,sys
pid=sys.argv[1]; wt=sys.argv[2] if len(sys.argv)>2 else f"/tmp/wt/{pid}"
n1=int(sys.argv[3]) if len(sys.argv)>3 else 1; n2=n1+1
for l in open('/verif/properties.jsonl'):
    p=json.loads(l)
    if p['id']==pid: break
print(f"""You are helping test a verification tool by writing a subtle bug ("seeded change") into a Go code base.

The code base is the Elastos ELA main-chain full node (Go). You have your own scratch git worktree of it at {wt} (already checked out). Work ONLY inside {wt}. Never touch /repo or /verif (do not read /verif either). Shell setup for every command: export GOFLAGS=-mod=mod GOPROXY=off GOSUMDB=off GOTOOLCHAIN=local  (there is no network).

Here is a semantic property that the unchanged code is supposed to satisfy:

  Title: {p['title']}
  Statement: {p['statement']}
  Quantified over: {p['quantifier']['text']}

Your task: produce TWO different, independent changes to the NON-test Go source of the node, each of which breaks this property, while (a) the repository still compiles (go build ./... and go vet are not required, but `go build ./...` must succeed) and (b) the existing tests of the packages you touched, and of packages that import them closely (at least: go test -vet=off -count=1 for the touched package and for ./blockchain/ ./core/... ./mempool/ if you touched core or blockchain code), still pass, unedited. Each change must need something specific to manifest: an unusual input, a boundary value, a particular sequence of operations, a particular height/era/configuration, or two cooperating sites that each look fine alone. Do NOT make changes that ordinary use or the existing tests would expose at once. Make the changes look like plausible maintenance edits (refactors, 'optimisations', off-by-one slips, dropped guards, wrong operator/variable), small (1-15 lines each).

Number your two changes {n1} and {n2}. Deliver into the directory /tmp/seed/{pid}/ (create it; it is outside the worktree), for each change N in {{{n1},{n2}}}:
  - /tmp/seed/{pid}/patch_N.diff : output of `git diff` for that change alone relative to the worktree HEAD (apply each change on a clean tree: use `git checkout -- .` between the two so the two patches are independent and each applies to HEAD by itself with `git apply`).
  - /tmp/seed/{pid}/demo_N_test.go : a demonstration Go test file (ordinary `func TestXxx(t *testing.T)` functions with names unique to you, e.g. TestSeed{pid}N...; package clause of the target package) that FAILS with the change applied and PASSES on the unchanged tree. Its FIRST line must be a comment of the exact form `// place in: <package dir relative to the repo root>/` (e.g. `// place in: blockchain/`) naming the directory the file is copied into to run it (as zz_seed_demo_test.go). It must not depend on other files you add. Show you ran it both ways.
  - /tmp/seed/{pid}/notes_N.md : what the change does; a section headed "## What is needed for it to manifest" describing the specific input/sequence/config; the commands you ran and their outcome.

Finish with the worktree back at a clean HEAD checkout (git checkout -- . and remove any untracked files you added). In your final message, list for each change: the file/function changed, one sentence on why it violates the property, and what is needed to trigger it. Keep the final message short.""")
