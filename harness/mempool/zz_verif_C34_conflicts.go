//go:build verif

package mempool

import (
	"errors"

	"github.com/elastos/Elastos.ELA/blockchain"
	"github.com/elastos/Elastos.ELA/common"
	"github.com/elastos/Elastos.ELA/common/config"
	"github.com/elastos/Elastos.ELA/core/transaction"
	common2 "github.com/elastos/Elastos.ELA/core/types/common"
	"github.com/elastos/Elastos.ELA/core/types/interfaces"
	"github.com/elastos/Elastos.ELA/core/types/outputpayload"
	"github.com/elastos/Elastos.ELA/core/types/payload"
	"github.com/elastos/Elastos.ELA/zzverif/nd"
)

// zzC34store: the referenced transactions (2 of them, 3 outputs each) live in
// a fake store behind the real UTXOCache, which the input-key function uses.
type zzC34store struct {
	txs map[common.Uint256]interfaces.Transaction
}

func (s *zzC34store) GetTransaction(id common.Uint256) (interfaces.Transaction, uint32, error) {
	if t, ok := s.txs[id]; ok {
		return t, 1, nil
	}
	return nil, 0, errors.New("not found")
}

var zzC34ids = []common.Uint256{{0xE1}, {0xE2}}

func zzC34ledger() func() {
	st := &zzC34store{txs: map[common.Uint256]interfaces.Transaction{}}
	for _, id := range zzC34ids {
		tx := transaction.CreateTransaction(common2.TxVersion09, common2.TransferAsset, 0, &payload.TransferAsset{}, nil, nil,
			[]*common2.Output{{Value: 1}, {Value: 2}, {Value: 3}}, 0, nil)
		st.txs[id] = tx
	}
	old := blockchain.DefaultLedger
	blockchain.DefaultLedger = &blockchain.Ledger{Blockchain: &blockchain.BlockChain{UTXOCache: blockchain.NewUTXOCache(st, &config.Configuration{})}}
	return func() { blockchain.DefaultLedger = old }
}

type zzC34spec struct {
	outpoints []common2.OutPoint
	side      []common.Uint256
}

// zzC34tx: a transfer or a side-chain withdrawal (payload version 0, 1 or 2).
// Its first input is one of 4 outpoints and its first side-chain hash one of 2
// (the collision candidates); with extra it also carries a second input and a
// second side-chain hash that nothing else uses.
func zzC34tx(tag string, extra bool) (interfaces.Transaction, zzC34spec) {
	var spec zzC34spec
	var ins []*common2.Input
	op := common2.OutPoint{TxID: zzC34ids[nd.Choose(tag+"_txid", 2)], Index: uint16(nd.Choose(tag+"_index", 2))}
	ins = append(ins, &common2.Input{Previous: op})
	spec.outpoints = append(spec.outpoints, op)
	if extra {
		op2 := common2.OutPoint{TxID: zzC34ids[1], Index: 2}
		ins = append(ins, &common2.Input{Previous: op2, Sequence: 1})
		spec.outpoints = append(spec.outpoints, op2)
	}
	kind := nd.Choose(tag+"_kind", 4) // 0 transfer, 1..3 withdrawal V0..V2
	if kind == 0 {
		tx := transaction.CreateTransaction(common2.TxVersion09, common2.TransferAsset, 0, &payload.TransferAsset{}, nil, ins,
			[]*common2.Output{{Value: 1, Payload: &outputpayload.DefaultOutput{}}}, 0, nil)
		return tx, spec
	}
	ver := byte(kind - 1)
	hs := []common.Uint256{{0x5D, byte(nd.Choose(tag+"_sideHash", 2))}}
	if extra {
		hs = append(hs, common.Uint256{0x5D, 9})
	}
	pl := &payload.WithdrawFromSideChain{}
	var outs []*common2.Output
	for _, h := range hs {
		spec.side = append(spec.side, h)
		if ver == 0 {
			pl.SideChainTransactionHashes = append(pl.SideChainTransactionHashes, h)
		} else {
			outs = append(outs, &common2.Output{Type: common2.OTWithdrawFromSideChain, Value: 1,
				Payload: &outputpayload.Withdraw{SideChainTransactionHash: h}})
		}
	}
	tx := transaction.CreateTransaction(common2.TxVersion09, common2.WithdrawFromSideChain, ver, pl, nil, ins, outs, 0, nil)
	return tx, spec
}

func zzC34clash(a, b zzC34spec) bool {
	for _, x := range a.outpoints {
		for _, y := range b.outpoints {
			if x == y {
				return true
			}
		}
	}
	for _, x := range a.side {
		for _, y := range b.side {
			if x == y {
				return true
			}
		}
	}
	return false
}

// ZZ_C34_conflicts: the real conflict manager (all slots, real key functions).
// Transaction A is pooled; B is offered. B is accepted iff it does not spend
// an outpoint A spends and does not claim a side-chain transaction hash A
// claims (for every withdrawal payload version). After A is removed, a
// transaction that collided only with A is accepted.
func ZZ_C34_conflicts() {
	defer zzC34ledger()()
	m := newConflictManager()
	a, sa := zzC34tx("a", false)
	nd.Assert(m.VerifyTx(a) == nil, "empty_pool_accepts")
	nd.Assert(m.AppendTx(a) == nil, "append_succeeds")
	b, sb := zzC34tx("b", true)
	ok := m.VerifyTx(b) == nil
	nd.Reach("decided")
	if zzC34clash(sa, sb) {
		nd.Reach("clash")
		nd.Assert(!ok, "transaction_claiming_a_pooled_outpoint_or_side_chain_hash_is_refused")
	} else {
		nd.Assert(ok, "unrelated_transaction_is_accepted")
	}
	nd.Assert(m.removeTx(a) == nil, "remove_succeeds")
	nd.Assert(m.Empty(), "index_is_empty_after_the_only_transaction_left")
	nd.Assert(m.VerifyTx(b) == nil, "after_removal_the_resources_are_free_again")
}
