//go:build verif

package mempool

import (
	"bytes"

	"github.com/elastos/Elastos.ELA/blockchain/indexers"
	"github.com/elastos/Elastos.ELA/common"
	"github.com/elastos/Elastos.ELA/core/transaction"
	"github.com/elastos/Elastos.ELA/core/types"
	common2 "github.com/elastos/Elastos.ELA/core/types/common"
	"github.com/elastos/Elastos.ELA/core/types/functions"
	"github.com/elastos/Elastos.ELA/core/types/interfaces"
	"github.com/elastos/Elastos.ELA/core/types/outputpayload"
	"github.com/elastos/Elastos.ELA/core/types/payload"
	"github.com/elastos/Elastos.ELA/zzverif/nd"
)

// ZZ_C13_txindex: transaction locations. (The harness lives here because the
// indexers package cannot import core/transaction.) Over an index that already
// holds an earlier block, a block with a coinbase and 1..2 transfers (each with
// a memo attribute of 0..2 bytes, so that the transactions have different
// lengths; contents concrete, so that ids are real hashes) is connected:
// every transaction of the block is then located in that block, at exactly
// the byte range at which the serialized block holds its serialization, and
// the block has the next id; after DisconnectBlock no transaction of the
// block is indexed, the block has no id, the current id and the three
// buckets are what they were, and the earlier block is still known.
func ZZ_C13_txindex() {
	functions.GetTransactionByBytes = transaction.GetTransactionByBytes
	cur := uint32(nd.Choose("currentBlockID", 3) + 1)
	idx, db, err := indexers.ZZNewTxIndex(cur)
	nd.Assert(err == nil, "create_succeeds")
	earlier := common.Uint256{0xB1, 0x0C}
	nd.Assert(indexers.ZZPutBlockID(db, &earlier, cur) == nil, "put_succeeds")
	t0, i0, h0 := indexers.ZZTxIndexSizes(db)

	mk := func(typ common2.TxType, tag byte) interfaces.Transaction {
		var attrs []*common2.Attribute
		if typ != common2.CoinBase {
			attrs = []*common2.Attribute{{Usage: common2.Memo, Data: []byte{0x6D, 0x6D}[:nd.Choose("memoLen", 3)]}}
		}
		var pld interfaces.Payload = &payload.TransferAsset{}
		if typ == common2.CoinBase {
			pld = &payload.CoinBase{Content: []byte{tag}}
		}
		return transaction.CreateTransaction(common2.TxVersion09, typ, 0, pld, attrs,
			[]*common2.Input{{Previous: common2.OutPoint{TxID: common.Uint256{0xA7, tag}}}},
			[]*common2.Output{{Value: common.Fixed64(1 + int64(tag)), ProgramHash: common.Uint168{0x21, tag}, Payload: &outputpayload.DefaultOutput{}}},
			0, nil)
	}
	block := &types.Block{Header: common2.Header{Version: 1, Height: 77, Nonce: 5}}
	block.Transactions = append(block.Transactions, mk(common2.CoinBase, 0))
	for i, zzn := 0, nd.Choose("transfers", 2)+1; i < zzn; i++ {
		block.Transactions = append(block.Transactions, mk(common2.TransferAsset, byte(i+1)))
	}
	raw := new(bytes.Buffer)
	nd.Assert(block.Serialize(raw) == nil, "block_serializes")
	bh := block.Hash()

	nd.NoPanic("connect", func() { err = idx.ConnectBlock(db, block) })
	nd.Assert(err == nil, "connect_succeeds")
	nd.Reach("connected")
	id, e := indexers.ZZBlockIDByHash(db, &bh)
	nd.Assert(e == nil && id == cur+1 && indexers.ZZTxIndexCurBlockID(idx) == cur+1, "connected_block_gets_the_next_id")
	for _, tx := range block.Transactions {
		h := tx.Hash()
		region, e := indexers.ZZTxIndexEntry(db, &h)
		nd.Assert(e == nil && region != nil && *region.Hash == bh, "every_transaction_is_located_in_its_block")
		if e == nil && region != nil {
			one := new(bytes.Buffer)
			tx.Serialize(one)
			ok := int(region.Offset)+int(region.Len) <= raw.Len() && int(region.Len) == one.Len()
			if ok {
				ok = bytes.Equal(raw.Bytes()[region.Offset:region.Offset+region.Len], one.Bytes())
			}
			nd.Assert(ok, "the_location_is_the_byte_range_of_the_transaction_in_the_block")
		}
	}
	nd.NoPanic("disconnect", func() { err = idx.DisconnectBlock(db, block) })
	nd.Assert(err == nil, "disconnect_succeeds")
	for _, tx := range block.Transactions {
		h := tx.Hash()
		region, _ := indexers.ZZTxIndexEntry(db, &h)
		nd.Assert(region == nil, "disconnect_removes_every_transaction_location")
	}
	_, e = indexers.ZZBlockIDByHash(db, &bh)
	nd.Assert(e != nil, "disconnected_block_has_no_id")
	t1, i1, h1 := indexers.ZZTxIndexSizes(db)
	nd.Assert(t1 == t0 && i1 == i0 && h1 == h0 && indexers.ZZTxIndexCurBlockID(idx) == cur, "index_is_what_it_was_before_the_block")
	id, e = indexers.ZZBlockIDByHash(db, &earlier)
	nd.Assert(e == nil && id == cur, "earlier_blocks_stay_known")
}
