//go:build verif

package mempool

import (
	"github.com/elastos/Elastos.ELA/common"
	"github.com/elastos/Elastos.ELA/core/types/interfaces"
	"github.com/elastos/Elastos.ELA/zzverif/nd"
)

type zzFeeTx struct {
	interfaces.Transaction
	hash common.Uint256
	size int
	fee  common.Fixed64
}

func (t *zzFeeTx) GetSize() int         { return t.size }
func (t *zzFeeTx) Fee() common.Fixed64  { return t.fee }
func (t *zzFeeTx) Hash() common.Uint256 { return t.hash }

// zzListOK: the list is sorted by fee rate (descending), its size total is the
// sum of the listed sizes and within the maximum, and the hashes listed are
// exactly the live ones.
func zzListOK(l *txFeeOrderedList, live map[common.Uint256]*zzFeeTx, tag string) {
	var sum uint64
	for i := range l.list {
		if i > 0 {
			nd.Assert(!(l.list[i-1].FeeRate < l.list[i].FeeRate), tag+"_list_is_sorted_by_fee_rate")
		}
		sum += uint64(l.list[i].Size)
		_, ok := live[l.list[i].Hash]
		nd.Assert(ok, tag+"_list_holds_only_pooled_transactions")
	}
	nd.Assert(len(l.list) == len(live), tag+"_list_holds_every_pooled_transaction_once")
	nd.Assert(l.totalSize == sum, tag+"_size_total_equals_sum_of_listed_sizes")
	nd.Assert(l.totalSize <= l.maxSize, tag+"_size_total_within_limit")
}

// ZZ_C34_fp_feelist: three transactions with arbitrary fees and sizes 1..3 are
// added to a list with an arbitrary small size limit (evictions call back and
// the evicted transaction leaves the pool), then one of the survivors is
// removed with the fee rate its fee and size give. After every step the list
// agrees with the set of pooled transactions.
func ZZ_C34_fp_feelist() {
	live := map[common.Uint256]*zzFeeTx{}
	var l *txFeeOrderedList
	l = newTxFeeOrderedList(func(h common.Uint256) { delete(live, h) }, uint64(nd.Choose("maxSize", 6)+1))
	var all []*zzFeeTx
	for i := 0; i < 3; i++ {
		t := &zzFeeTx{hash: common.Uint256{0xF0, byte(i)}, size: nd.Choose("size", 3) + 1, fee: common.Fixed64(nd.I64("fee"))}
		nd.Assume(t.fee >= 0 && t.fee <= 1<<40)
		all = append(all, t)
		// TxPool.appendToTxPool only adds a transaction that fits or beats the last one
		live[t.hash] = t
		if err := l.AddTx(t); err != nil {
			delete(live, t.hash)
		}
		zzListOK(l, live, "after_add")
	}
	nd.Reach("added")
	k := nd.Choose("remove", 3)
	t := all[k]
	if _, ok := live[t.hash]; ok {
		removed := l.RemoveTx(t.hash, uint64(t.size), float64(t.fee)/float64(t.size))
		nd.Assert(removed, "pooled_transaction_is_found_for_removal")
		delete(live, t.hash)
		zzListOK(l, live, "after_remove")
	}
	nd.Reach("done")
}
