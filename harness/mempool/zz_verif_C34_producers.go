//go:build verif

package mempool

import (
	common2 "github.com/elastos/Elastos.ELA/core/types/common"
	"github.com/elastos/Elastos.ELA/core/transaction"
	"github.com/elastos/Elastos.ELA/core/types/interfaces"
	"github.com/elastos/Elastos.ELA/core/types/payload"
	"github.com/elastos/Elastos.ELA/zzverif/nd"
)

type zzC34producer struct {
	owner, node, nick int
	cancel, activate bool
}

func zzC34key(i int) []byte {
	b := make([]byte, 33)
	b[0] = 2
	b[32] = byte(0x60 + i)
	return b
}

// zzC34producerTx: a RegisterProducer / UpdateProducer transaction whose owner
// key and node key are each one of 3 keys and whose nickname is one of 2
// (cancel / activate transactions, whose key functions read the DPoS state,
// are prepared below but not drawn).
func zzC34producerTx(tag string) (interfaces.Transaction, zzC34producer) {
	var d zzC34producer
	switch nd.Choose(tag+"_kind", 2) {
	case 2:
		d.cancel, d.owner, d.node, d.nick = true, nd.Choose(tag+"_owner", 3), -1, -1
		return transaction.CreateTransaction(common2.TxVersion09, common2.CancelProducer, 0, &payload.ProcessProducer{OwnerKey: zzC34key(d.owner)}, nil, nil, nil, 0, nil), d
	case 3:
		d.activate, d.owner, d.node, d.nick = true, -1, nd.Choose(tag+"_node", 3), -1
		return transaction.CreateTransaction(common2.TxVersion09, common2.ActivateProducer, 0, &payload.ActivateProducer{NodePublicKey: zzC34key(d.node)}, nil, nil, nil, 0, nil), d
	case 1:
		d.owner, d.node, d.nick = nd.Choose(tag+"_owner", 3), nd.Choose(tag+"_node", 3), nd.Choose(tag+"_nick", 2)
		return transaction.CreateTransaction(common2.TxVersion09, common2.UpdateProducer, 0,
			&payload.ProducerInfo{OwnerKey: zzC34key(d.owner), NodePublicKey: zzC34key(d.node), NickName: []string{"n0", "n1"}[d.nick]}, nil, nil, nil, 0, nil), d
	}
	d.owner, d.node, d.nick = nd.Choose(tag+"_owner", 3), nd.Choose(tag+"_node", 3), nd.Choose(tag+"_nick", 2)
	return transaction.CreateTransaction(common2.TxVersion09, common2.RegisterProducer, 0,
		&payload.ProducerInfo{OwnerKey: zzC34key(d.owner), NodePublicKey: zzC34key(d.node), NickName: []string{"n0", "n1"}[d.nick]}, nil, nil, nil, 0, nil), d
}

// zzC34producerClash: two pooled producer transactions must not claim the
// same unique resource: a public key, in whatever role (owner or node) each
// of them uses it, or a nickname. Cancel / activate transactions claim their
// key in its own role; a cancel and an activate of the same key also clash
// (one producer cannot be cancelled and activated at once).
func zzC34producerClash(a, b zzC34producer) bool {
	keysOf := func(d zzC34producer) (owner, node int) { return d.owner, d.node }
	ao, an := keysOf(a)
	bo, bn := keysOf(b)
	info := func(d zzC34producer) bool { return !d.cancel && !d.activate }
	// same role
	if ao >= 0 && ao == bo {
		return true
	}
	if an >= 0 && an == bn {
		return true
	}
	// cross role, between two register / update transactions
	if info(a) && info(b) && (ao == bn || an == bo) {
		return true
	}
	if info(a) && info(b) && a.nick == b.nick {
		return true
	}
	// cancel and activate share one slot keyed by the key they name
	if (a.cancel && b.activate && a.owner == b.node) || (a.activate && b.cancel && a.node == b.owner) {
		return true
	}
	if (a.cancel && b.cancel && a.owner == b.owner) || (a.activate && b.activate && a.node == b.node) {
		return true
	}
	return false
}

// ZZ_C34_producers: the real conflict manager with producer transaction A
// pooled and producer transaction B offered: B is refused iff the two claim
// the same key in the same role, the same key across the owner / node roles
// (register / update), the same nickname, or are a cancel and an activate of
// the same key; after A is removed B is accepted.
func ZZ_C34_producers() {
	defer zzC34ledger()()
	m := newConflictManager()
	a, da := zzC34producerTx("a")
	nd.Assert(m.VerifyTx(a) == nil, "empty_pool_accepts")
	nd.Assert(m.AppendTx(a) == nil, "append_succeeds")
	b, db := zzC34producerTx("b")
	ok := m.VerifyTx(b) == nil
	nd.Reach("decided")
	if zzC34producerClash(da, db) {
		nd.Reach("clash")
		nd.Assert(!ok, "producer_transaction_claiming_a_pooled_key_or_nickname_is_refused")
	} else {
		nd.Assert(ok, "unrelated_producer_transaction_is_accepted")
	}
	nd.Assert(m.removeTx(a) == nil, "remove_succeeds")
	nd.Assert(m.Empty(), "index_is_empty_after_the_only_transaction_left")
	nd.Assert(m.VerifyTx(b) == nil, "after_removal_the_resources_are_free_again")
}
