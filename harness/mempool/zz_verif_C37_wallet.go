//go:build verif

package mempool

import (
	"bytes"
	"encoding/hex"

	"github.com/elastos/Elastos.ELA/account"
	"github.com/elastos/Elastos.ELA/blockchain"
	"github.com/elastos/Elastos.ELA/common"
	pg "github.com/elastos/Elastos.ELA/core/contract/program"
	"github.com/elastos/Elastos.ELA/core/transaction"
	common2 "github.com/elastos/Elastos.ELA/core/types/common"
	"github.com/elastos/Elastos.ELA/core/types/interfaces"
	"github.com/elastos/Elastos.ELA/core/types/outputpayload"
	"github.com/elastos/Elastos.ELA/core/types/payload"
	"github.com/elastos/Elastos.ELA/crypto"
	"github.com/elastos/Elastos.ELA/zzverif/nd"
)

// three real P-256 key pairs (the ones of the C05 harness)
type zzWKey struct{ priv, pub []byte }

func zzWHex(s string) []byte { b, _ := hex.DecodeString(s); return b }

var zzWKeys = []zzWKey{
	{zzWHex("7890008a6642bc4ba5b663cc21e4045541c36b62787d6fd895b6df6a7a6bae3a"), zzWHex("026672f050ac366a24df91ab93b812844adc994666afcee2c2c83627c948f5d9ca")},
	{zzWHex("13f69168aa25a6c9169b3c3cd38dc4ee54dbbb36fc73b2a78ffb8954270aa861"), zzWHex("0363906812330708752c77d1dde80bc3672628eb4cd6ed78943bf84268db07cdb4")},
	{zzWHex("7af9d6cb553e4411e2d33e957d8a9c24260f77ddfc5d1ab8b663228d2da4a2d1"), zzWHex("0374fda22fe34a6db57431294afef2f97af8090fd6f7613041729ddb40388a55b7")},
}

// zzWallet: a wallet holding the accounts of the given keys, indexed as
// Client.accounts is (by the code hash of each key's standard code)
func zzWallet(keys ...int) map[common.Uint160]*account.Account {
	w := map[common.Uint160]*account.Account{}
	for _, k := range keys {
		nd.KeyPair(zzWKeys[k].priv, zzWKeys[k].pub)
		pub, _ := crypto.DecodePoint(zzWKeys[k].pub)
		code := append(append([]byte{33}, zzWKeys[k].pub...), 0xAC)
		w[*common.ToCodeHash(code)] = &account.Account{PrivateKey: zzWKeys[k].priv, PublicKey: pub, RedeemScript: code}
	}
	return w
}

func zzWTx(lockTime uint32, value common.Fixed64) interfaces.Transaction {
	return transaction.CreateTransaction(common2.TxVersion09, common2.TransferAsset, 0, &payload.TransferAsset{}, nil,
		[]*common2.Input{{Previous: common2.OutPoint{TxID: common.Uint256{0xA7}}}},
		[]*common2.Output{{Value: value, ProgramHash: common.Uint168{0x21, 7}, Payload: &outputpayload.DefaultOutput{}}}, lockTime, nil)
}

func zzWUnsigned(tx interfaces.Transaction) []byte {
	buf := new(bytes.Buffer)
	tx.SerializeUnsigned(buf)
	return buf.Bytes()
}

// ZZ_C37_standard: a transfer (arbitrary lock time and output value) signed by
// the wallet's SignStandardTransaction with a standard account passes the
// node's RunPrograms for that account's address; the same signed program does
// not pass for a transaction whose lock time or output value differs in any
// way, nor for another account's address. (Perfect-cryptography model of
// ECDSA: what is decided is that wallet and node agree on the signed bytes and
// on the program format; natively real signatures are made and verified.)
func ZZ_C37_standard() {
	w := zzWallet(0)
	lock, value := nd.U32("lockTime"), common.Fixed64(nd.I64("outputValue"))
	tx := zzWTx(lock, value)
	code := append(append([]byte{33}, zzWKeys[0].pub...), 0xAC)
	signed, err := account.SignStandardTransaction(tx, &pg.Program{Code: code}, w)
	nd.Assert(err == nil && signed != nil, "wallet_signs_with_its_standard_account")
	if err != nil || signed == nil {
		return
	}
	nd.Reach("signed")
	addr := *common.ToProgramHash(0x21, code)
	passes := blockchain.RunPrograms(zzWUnsigned(tx), []common.Uint168{addr}, []*pg.Program{signed}) == nil
	nd.Assert(passes, "wallet_signed_transaction_passes_the_nodes_signature_check")
	if !passes {
		return
	}
	lock2, value2 := nd.U32("otherLockTime"), common.Fixed64(nd.I64("otherOutputValue"))
	nd.Assume(lock2 != lock || value2 != value)
	other := zzWTx(lock2, value2)
	nd.Assert(blockchain.RunPrograms(zzWUnsigned(other), []common.Uint168{addr}, []*pg.Program{signed}) != nil, "signature_does_not_pass_for_changed_content")
	otherCode := append(append([]byte{33}, zzWKeys[1].pub...), 0xAC)
	nd.Assert(blockchain.RunPrograms(zzWUnsigned(tx), []common.Uint168{*common.ToProgramHash(0x21, otherCode)}, []*pg.Program{signed}) != nil, "signature_does_not_pass_for_another_address")
}

// ZZ_C37_multisig: a 2-of-3 multisig program signed by the wallets of one,
// two or three of its key holders in any order (SignMultiSignTransaction, each
// wallet holding one key) passes RunPrograms for the script's address exactly
// when at least two of them signed, and never for a transaction with a
// different lock time.
func ZZ_C37_multisig() {
	lock := nd.U32("lockTime")
	tx := zzWTx(lock, 5)
	code := []byte{0x52}
	for k := 0; k < 3; k++ {
		code = append(append(code, 33), zzWKeys[k].pub...)
	}
	code = append(code, 0x53, 0xAE)
	program := &pg.Program{Code: code}
	signers := nd.Choose("signers", 3) + 1
	order := [][]int{{0, 1, 2}, {2, 0, 1}, {1, 2, 0}, {2, 1, 0}}[nd.Choose("order", 4)]
	for i := 0; i < signers; i++ {
		var err error
		program, err = account.SignMultiSignTransaction(tx, program, zzWallet(order[i]))
		nd.Assert(err == nil && program != nil, "a_key_holder_can_add_its_signature")
		if err != nil || program == nil {
			return
		}
	}
	nd.Reach("signed")
	addr := *common.ToProgramHash(0x12, code)
	err := blockchain.RunPrograms(zzWUnsigned(tx), []common.Uint168{addr}, []*pg.Program{program})
	if signers >= 2 {
		nd.Assert(err == nil, "wallet_signed_multisig_transaction_passes_with_m_signers")
		if err != nil {
			return
		}
	} else {
		nd.Assert(err != nil, "multisig_with_fewer_than_m_signers_is_refused")
	}
	lock2 := nd.U32("otherLockTime")
	nd.Assume(lock2 != lock)
	nd.Assert(blockchain.RunPrograms(zzWUnsigned(zzWTx(lock2, 5)), []common.Uint168{addr}, []*pg.Program{program}) != nil, "signatures_do_not_pass_for_changed_content")
}
