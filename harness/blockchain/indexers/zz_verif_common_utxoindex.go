//go:build verif

package indexers

import (
	"errors"

	"github.com/elastos/Elastos.ELA/common"
	"github.com/elastos/Elastos.ELA/core/types"
	common2 "github.com/elastos/Elastos.ELA/core/types/common"
	"github.com/elastos/Elastos.ELA/core/types/interfaces"
	"github.com/elastos/Elastos.ELA/core/types/outputpayload"
	"github.com/elastos/Elastos.ELA/zzverif/nd"
)

type zzTxStore struct {
	txs     map[common.Uint256]interfaces.Transaction
	heights map[common.Uint256]uint32
}

func (s *zzTxStore) FetchTx(id common.Uint256) (interfaces.Transaction, uint32, error) {
	if t, ok := s.txs[id]; ok {
		return t, s.heights[id], nil
	}
	return nil, 0, errors.New("not found")
}

// zzIdxTx: the indexers read only ids, inputs, outputs and the coinbase flag of
// a transaction (this package cannot import core/transaction: import cycle).
type zzIdxTx struct {
	interfaces.Transaction
	id       common.Uint256
	ins      []*common2.Input
	outs     []*common2.Output
	coinbase bool
}

func (t *zzIdxTx) Hash() common.Uint256       { return t.id }
func (t *zzIdxTx) Inputs() []*common2.Input   { return t.ins }
func (t *zzIdxTx) Outputs() []*common2.Output { return t.outs }
func (t *zzIdxTx) IsCoinBaseTx() bool         { return t.coinbase }

type zzU struct {
	txid  common.Uint256
	index uint16
	value common.Fixed64
}

// zzView: the queryable per-address view as a set.
func zzView(db *zzDBTx, addr *common.Uint168) []zzU {
	us, err := DBFetchUtxoIndexEntry(db, addr)
	nd.Assert(err == nil, "view_is_readable")
	var r []zzU
	for _, u := range us {
		r = append(r, zzU{u.TxID, u.Index, u.Value})
	}
	return r
}

func zzSameSet(a, b []zzU) bool {
	if len(a) != len(b) {
		return false
	}
	for _, x := range a {
		n, m := 0, 0
		for _, y := range a {
			if x == y {
				n++
			}
		}
		for _, y := range b {
			if x == y {
				m++
			}
		}
		if n != m {
			return false
		}
	}
	return true
}

// zzUtxoIndexStep (ZZ_C14_utxoindex, ZZ_C13_utxoindex): the per-address UTXO view against a ghost ledger, one
// connect and one disconnect step. An earlier transaction T (height 5) paid
// three outputs of arbitrary value (zero allowed) to addresses from {X, Y};
// the view starts as the index built by connecting T's block. A block at
// height 9 with one transaction S spends 1..2 of T's outputs and creates 0..2
// outputs of arbitrary value to X or Y. After ConnectBlock the view of each
// address is exactly: previous non-zero unspent outputs minus the spent ones
// plus the new non-zero ones; after DisconnectBlock it is exactly the view
// before the block.
func zzUtxoIndexStep() {
	X, Y := common.Uint168{0x21, 1}, common.Uint168{0x21, 2}
	addrs := []common.Uint168{X, Y}
	db := zzNewDBTx()
	store := &zzTxStore{txs: map[common.Uint256]interfaces.Transaction{}, heights: map[common.Uint256]uint32{}}
	idx := NewUtxoIndex(nil, store)
	nd.Assert(idx.Create(db) == nil, "index_bucket_created")

	// block 5: coinbase-like T with three outputs
	var tOuts []*common2.Output
	for i := 0; i < 3; i++ {
		v := common.Fixed64(nd.Choose("tValue", 3)) // 0, 1 or 2 sela: zero-value outputs are never listed
		tOuts = append(tOuts, &common2.Output{Value: v, ProgramHash: addrs[nd.Choose("tAddr", 2)], Payload: &outputpayload.DefaultOutput{}})
	}
	T := &zzIdxTx{id: common.Uint256{0x70, 1}, outs: tOuts, coinbase: true}
	store.txs[T.Hash()] = T
	store.heights[T.Hash()] = 5
	b5 := &types.Block{}
	b5.Height = 5
	b5.Transactions = []interfaces.Transaction{T}
	nd.Assert(idx.ConnectBlock(db, b5) == nil, "connect_of_the_funding_block_succeeds")
	var ghost [2][]zzU
	for i, o := range tOuts {
		if o.Value != 0 {
			for a := range addrs {
				if o.ProgramHash == addrs[a] {
					ghost[a] = append(ghost[a], zzU{T.Hash(), uint16(i), o.Value})
				}
			}
		}
	}
	for a := range addrs {
		nd.Assert(zzSameSet(zzView(db, &addrs[a]), ghost[a]), "view_lists_exactly_the_nonzero_outputs")
	}
	before := ghost

	// block 9: S spends some of T's outputs
	spend := [][]int{{0}, {1}, {0, 1}, {1, 2}, {0, 2}}[nd.Choose("spent", 5)]
	var ins []*common2.Input
	for _, i := range spend {
		ins = append(ins, &common2.Input{Previous: common2.OutPoint{TxID: T.Hash(), Index: uint16(i)}})
	}
	var sOuts []*common2.Output
	for i, zzn := 0, nd.Choose("newOutputs", 3); i < zzn; i++ {
		sOuts = append(sOuts, &common2.Output{Value: common.Fixed64(nd.Choose("sValue", 2)), ProgramHash: addrs[nd.Choose("sAddr", 2)], Payload: &outputpayload.DefaultOutput{}})
	}
	S := &zzIdxTx{id: common.Uint256{0x70, 2}, ins: ins, outs: sOuts}
	b9 := &types.Block{}
	b9.Height = 9
	b9.Transactions = []interfaces.Transaction{S}
	nd.Assert(idx.ConnectBlock(db, b9) == nil, "connect_succeeds")
	nd.Reach("connected")
	var after [2][]zzU
	for a := range addrs {
		for _, u := range before[a] {
			spent := false
			for _, i := range spend {
				if int(u.index) == i {
					spent = true
				}
			}
			if !spent {
				after[a] = append(after[a], u)
			}
		}
		for i, o := range sOuts {
			if o.Value != 0 && o.ProgramHash == addrs[a] {
				after[a] = append(after[a], zzU{S.Hash(), uint16(i), o.Value})
			}
		}
		nd.Assert(zzSameSet(zzView(db, &addrs[a]), after[a]), "view_after_connect_equals_the_ledger")
	}
	nd.Assert(idx.DisconnectBlock(db, b9) == nil, "disconnect_succeeds")
	for a := range addrs {
		nd.Assert(zzSameSet(zzView(db, &addrs[a]), before[a]), "view_after_disconnect_equals_the_view_before_the_block")
	}
	nd.Reach("disconnected")
}
