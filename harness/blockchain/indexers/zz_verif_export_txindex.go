//go:build verif

package indexers

import (
	"github.com/elastos/Elastos.ELA/common"
	"github.com/elastos/Elastos.ELA/database"
)

// Exports for the TxIndex harness, which lives in a package that may import
// core/transaction (this one cannot: import cycle).

// ZZNewTxIndex: a transaction index over a fresh in-memory database.Tx, with
// its buckets created and the given current block id.
func ZZNewTxIndex(curBlockID uint32) (*TxIndex, database.Tx, error) {
	db := zzNewDBTx()
	idx := &TxIndex{curBlockID: curBlockID}
	return idx, db, idx.Create(db)
}

func ZZTxIndexCurBlockID(idx *TxIndex) uint32 { return idx.curBlockID }

func ZZTxIndexEntry(dbTx database.Tx, h *common.Uint256) (*database.BlockRegion, error) {
	return dbFetchTxIndexEntry(dbTx, h)
}

func ZZBlockIDByHash(dbTx database.Tx, h *common.Uint256) (uint32, error) {
	return dbFetchBlockIDByHash(dbTx, h)
}

func ZZPutBlockID(dbTx database.Tx, h *common.Uint256, id uint32) error {
	return dbPutBlockIDIndexEntry(dbTx, h, id)
}

// ZZTxIndexSizes: the number of entries in the three buckets of the index.
func ZZTxIndexSizes(dbTx database.Tx) (txs, idByHash, hashByID int) {
	m := dbTx.Metadata()
	return len(m.Bucket(txIndexKey).(*zzBucket).kvs), len(m.Bucket(idByHashIndexBucketName).(*zzBucket).kvs), len(m.Bucket(hashByIDIndexBucketName).(*zzBucket).kvs)
}
