//go:build verif

package indexers

import (
	"github.com/elastos/Elastos.ELA/common"
	"github.com/elastos/Elastos.ELA/core/types"
	common2 "github.com/elastos/Elastos.ELA/core/types/common"
	"github.com/elastos/Elastos.ELA/core/types/interfaces"
	"github.com/elastos/Elastos.ELA/core/types/outputpayload"
	"github.com/elastos/Elastos.ELA/zzverif/nd"
)

type zzRDTx struct {
	interfaces.Transaction
	typ  common2.TxType
	outs []*common2.Output
}

func (t *zzRDTx) TxType() common2.TxType     { return t.typ }
func (t *zzRDTx) Outputs() []*common2.Output { return t.outs }

// ZZ_C13_returndeposit: the recorded side-chain deposit returns. A block with
// 1..2 transactions (a ReturnSideChainDepositCoin transaction or a transfer),
// each with 1..2 outputs that are plain or return-deposit outputs naming one
// of two deposit transaction hashes, over an index that already holds an
// unrelated entry: after ConnectBlock exactly the hashes named by
// return-deposit outputs of return-deposit transactions are recorded (plus
// the unrelated one); after DisconnectBlock none of them is, the unrelated
// entry is still there and the bucket is what it was.
func ZZ_C13_returndeposit() {
	db := zzNewDBTx()
	idx := &ReturnDepositIndex{}
	nd.Assert(idx.Create(db) == nil, "create_succeeds")
	unrelated := common.Uint256{0x0D, 0xEE}
	nd.Assert(dbPutReturnDepositIndexEntry(db, &unrelated) == nil, "put_succeeds")
	hs := []common.Uint256{{0x0D, 1}, {0x0D, 2}}
	var named [2]bool
	block := &types.Block{}
	for i, zzn := 0, nd.Choose("transactions", 2)+1; i < zzn; i++ {
		tx := &zzRDTx{typ: common2.TransferAsset}
		isReturn := nd.Bool("isReturnDepositTransaction")
		if isReturn {
			tx.typ = common2.ReturnSideChainDepositCoin
		}
		for j, zzm := 0, nd.Choose("outputs", 2)+1; j < zzm; j++ {
			o := &common2.Output{Payload: &outputpayload.DefaultOutput{}}
			if k := nd.Choose("outputKind", 3); k > 0 {
				o.Type = common2.OTReturnSideChainDepositCoin
				o.Payload = &outputpayload.ReturnSideChainDeposit{DepositTransactionHash: hs[k-1]}
				if isReturn {
					named[k-1] = true
				}
			}
			tx.outs = append(tx.outs, o)
		}
		block.Transactions = append(block.Transactions, tx)
	}
	nd.Assert(idx.ConnectBlock(db, block) == nil, "connect_succeeds")
	nd.Reach("connected")
	for k := range hs {
		nd.Assert(DBFetchReturnDepositIndexEntry(db, &hs[k]) == named[k], "connect_records_exactly_the_returned_deposits")
	}
	nd.Assert(DBFetchReturnDepositIndexEntry(db, &unrelated), "connect_keeps_unrelated_entries")
	nd.Assert(idx.DisconnectBlock(db, block) == nil, "disconnect_succeeds")
	for k := range hs {
		nd.Assert(!DBFetchReturnDepositIndexEntry(db, &hs[k]), "disconnect_removes_every_returned_deposit")
	}
	nd.Assert(DBFetchReturnDepositIndexEntry(db, &unrelated), "disconnect_keeps_unrelated_entries")
	b := db.meta.Bucket(ReturnDepositIndexKey).(*zzBucket)
	nd.Assert(len(b.kvs) == 1, "index_is_what_it_was_before_the_block")
}
