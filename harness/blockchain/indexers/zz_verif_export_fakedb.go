//go:build verif

package indexers

import (
	"github.com/elastos/Elastos.ELA/database"
)

// zzBucket / zzDBTx: an in-memory database.Tx with nested buckets (ordered
// association lists). The processors under test see only the database.Tx /
// database.Bucket interfaces.
type zzKV struct{ k, v []byte }

type zzBucketAPI = database.Bucket

type zzBucket struct {
	zzBucketAPI
	kvs  []zzKV
	subs []*zzSub
}

type zzSub struct {
	name []byte
	b    *zzBucket
}

func zzBytesEq(a, b []byte) bool {
	if len(a) != len(b) {
		return false
	}
	for i := range a {
		if a[i] != b[i] {
			return false
		}
	}
	return true
}

func (b *zzBucket) Bucket(key []byte) database.Bucket {
	for _, s := range b.subs {
		if zzBytesEq(s.name, key) {
			return s.b
		}
	}
	return nil
}

func (b *zzBucket) CreateBucket(key []byte) (database.Bucket, error) {
	nb := &zzBucket{}
	b.subs = append(b.subs, &zzSub{name: append([]byte{}, key...), b: nb})
	return nb, nil
}

func (b *zzBucket) find(key []byte) int {
	for i := range b.kvs {
		if zzBytesEq(b.kvs[i].k, key) {
			return i
		}
	}
	return -1
}

func (b *zzBucket) Put(key, value []byte) error {
	if i := b.find(key); i >= 0 {
		b.kvs[i].v = append([]byte{}, value...)
		return nil
	}
	b.kvs = append(b.kvs, zzKV{append([]byte{}, key...), append([]byte{}, value...)})
	return nil
}

func (b *zzBucket) Get(key []byte) []byte {
	if i := b.find(key); i >= 0 {
		return b.kvs[i].v
	}
	return nil
}

func (b *zzBucket) Delete(key []byte) error {
	if i := b.find(key); i >= 0 {
		b.kvs = append(b.kvs[:i:i], b.kvs[i+1:]...)
	}
	return nil
}

type zzDBTx struct {
	database.Tx
	meta *zzBucket
}

func (t *zzDBTx) Metadata() database.Bucket { return t.meta }

func zzNewDBTx() *zzDBTx { return &zzDBTx{meta: &zzBucket{}} }

func (b *zzBucket) CreateBucketIfNotExists(key []byte) (database.Bucket, error) {
	if s := b.Bucket(key); s != nil {
		return s, nil
	}
	return b.CreateBucket(key)
}

func (b *zzBucket) ForEach(fn func(k, v []byte) error) error {
	for _, kv := range b.kvs {
		if err := fn(kv.k, kv.v); err != nil {
			return err
		}
	}
	return nil
}
