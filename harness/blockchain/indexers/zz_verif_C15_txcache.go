//go:build verif

package indexers

// the indexed-transaction cache in front of the unspent index (body in zz_verif_common_unspent.go)
func ZZ_C15_txcache() { zzUnspentStep() }
