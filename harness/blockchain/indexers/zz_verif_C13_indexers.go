//go:build verif

package indexers

// disconnect undoes connect for the block-level indexers (bodies in zz_verif_common_*.go)
func ZZ_C13_utxoindex() { zzUtxoIndexStep() }
func ZZ_C13_unspent()   { zzUnspentStep() }
