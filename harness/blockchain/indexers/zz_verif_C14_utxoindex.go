//go:build verif

package indexers

// per-address UTXO view and unspent index vs a ghost ledger (bodies in zz_verif_common_*.go)
func ZZ_C14_utxoindex() { zzUtxoIndexStep() }
func ZZ_C14_unspent()   { zzUnspentStep() }
