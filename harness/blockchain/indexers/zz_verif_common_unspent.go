//go:build verif

package indexers

import (
	"github.com/elastos/Elastos.ELA/common"
	"github.com/elastos/Elastos.ELA/common/config"
	"github.com/elastos/Elastos.ELA/core/types"
	common2 "github.com/elastos/Elastos.ELA/core/types/common"
	"github.com/elastos/Elastos.ELA/core/types/interfaces"
	"github.com/elastos/Elastos.ELA/core/types/outputpayload"
	"github.com/elastos/Elastos.ELA/zzverif/nd"
)

func (t *zzIdxTx) TxType() common2.TxType { return common2.TransferAsset }

func zzSameIdx(got []uint16, want []int) bool {
	if len(got) != len(want) {
		return false
	}
	for _, w := range want {
		n := 0
		for _, g := range got {
			if int(g) == w {
				n++
			}
		}
		if n != 1 {
			return false
		}
	}
	return true
}

// zzUnspentStep (ZZ_C14_unspent, ZZ_C13_unspent, ZZ_C15_txcache): the unspent-output index and the indexed-transaction cache
// in front of it, one connect and one disconnect step against a ghost ledger.
// T (3 outputs, height 5) is connected; a block at height 9 with S spends any
// non-empty subset of T's outputs and creates 0..2 outputs. After connect the
// index lists exactly T's remaining and S's new outputs (a fully spent or
// output-less transaction has no entry) and the cache never answers for a
// transaction the index no longer knows with a different height; after
// disconnect the index is what it was and the cache no longer knows S.
func zzUnspentStep() {
	db := zzNewDBTx()
	idx := NewUnspentIndex(nil, &config.Configuration{})
	nd.Assert(idx.Create(db) == nil, "index_bucket_created")
	var tOuts []*common2.Output
	for i := 0; i < 3; i++ {
		tOuts = append(tOuts, &common2.Output{Value: 1, Payload: &outputpayload.DefaultOutput{}})
	}
	T := &zzIdxTx{id: common.Uint256{0x70, 1}, outs: tOuts, coinbase: true}
	b5 := &types.Block{}
	b5.Height = 5
	b5.Transactions = []interfaces.Transaction{T}
	nd.Assert(idx.ConnectBlock(db, b5) == nil, "connect_of_the_funding_block_succeeds")
	tid := T.Hash()
	got, err := DBFetchUnspentIndexEntry(db, &tid)
	nd.Assert(err == nil && zzSameIdx(got, []int{0, 1, 2}), "new_outputs_are_unspent")

	subsets := [][]int{{0}, {1}, {2}, {0, 1}, {0, 2}, {1, 2}, {0, 1, 2}}
	spend := subsets[nd.Choose("spent", len(subsets))]
	var ins []*common2.Input
	for _, i := range spend {
		ins = append(ins, &common2.Input{Previous: common2.OutPoint{TxID: tid, Index: uint16(i)}})
	}
	var sOuts []*common2.Output
	nOut := nd.Choose("newOutputs", 3)
	for i := 0; i < nOut; i++ {
		sOuts = append(sOuts, &common2.Output{Value: 1, Payload: &outputpayload.DefaultOutput{}})
	}
	S := &zzIdxTx{id: common.Uint256{0x70, 2}, ins: ins, outs: sOuts}
	sid := S.Hash()
	b9 := &types.Block{}
	b9.Height = 9
	b9.Transactions = []interfaces.Transaction{S}
	nd.Assert(idx.ConnectBlock(db, b9) == nil, "connect_succeeds")
	nd.Reach("connected")
	var remaining []int
	for i := 0; i < 3; i++ {
		sp := false
		for _, j := range spend {
			if i == j {
				sp = true
			}
		}
		if !sp {
			remaining = append(remaining, i)
		}
	}
	got, err = DBFetchUnspentIndexEntry(db, &tid)
	if len(remaining) == 0 {
		nd.Assert(err != nil || len(got) == 0, "fully_spent_transaction_has_no_unspent_outputs")
		nd.Assert(idx.TxCache.GetTxn(tid) == nil, "fully_spent_transaction_leaves_the_cache")
	} else {
		nd.Assert(err == nil && zzSameIdx(got, remaining), "spent_outputs_leave_the_index_and_only_those")
	}
	got, err = DBFetchUnspentIndexEntry(db, &sid)
	var all []int
	for i := 0; i < nOut; i++ {
		all = append(all, i)
	}
	if nOut == 0 {
		nd.Assert(err != nil || len(got) == 0, "transaction_without_outputs_has_no_entry")
	} else {
		nd.Assert(err == nil && zzSameIdx(got, all), "created_outputs_are_unspent")
	}
	if ci := idx.TxCache.GetTxn(sid); ci != nil {
		nd.Assert(ci.BlockHeight == 9 && ci.Txn.Hash() == sid, "cache_answers_with_the_connected_transaction_and_height")
	}
	nd.Assert(idx.DisconnectBlock(db, b9) == nil, "disconnect_succeeds")
	got, err = DBFetchUnspentIndexEntry(db, &tid)
	nd.Assert(err == nil && zzSameIdx(got, []int{0, 1, 2}), "disconnect_restores_the_spent_outputs")
	got, err = DBFetchUnspentIndexEntry(db, &sid)
	nd.Assert(err != nil || len(got) == 0, "disconnect_removes_the_created_outputs")
	nd.Assert(idx.TxCache.GetTxn(sid) == nil, "cache_forgets_a_disconnected_transaction")
	nd.Reach("disconnected")
}
