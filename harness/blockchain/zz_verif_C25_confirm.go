//go:build verif

package blockchain

import (
	"github.com/elastos/Elastos.ELA/common/config"
	"github.com/elastos/Elastos.ELA/core/types/payload"
	"github.com/elastos/Elastos.ELA/dpos/state"
	"github.com/elastos/Elastos.ELA/zzverif/nd"
)

// zzC25Arbiters: the quorum size comes from the real state.Arbiters; the
// arbiter list is fixed by the harness. Every other method of the interface is
// nil (never called by ConfirmContextCheck).
type zzC25Arbiters struct {
	state.Arbitrators
	real  *state.Arbiters
	infos []*state.ArbiterInfo
}

func (m *zzC25Arbiters) GetArbitersMajorityCount() int        { return m.real.GetArbitersMajorityCount() }
func (m *zzC25Arbiters) GetArbitrators() []*state.ArbiterInfo { return m.infos }

// ZZ_C25_confirm: a confirmation accepted by ConfirmContextCheck carries
// accepting votes from strictly more than two thirds of the n current
// arbiters, counted as DISTINCT arbiter keys (duplicates and non-arbiters do
// not help). n arbiters with keys {1}..{n}; k votes with arbitrary one-byte
// signers and arbitrary accept flags.
func ZZ_C25_confirm() {
	n := nd.Choose("arbiters", 3) + 3 // 3..5
	k := 5
	real := &state.Arbiters{ChainParams: &config.Configuration{}}
	real.CurrentArbitrators = make([]state.ArbiterMember, n)
	m := &zzC25Arbiters{real: real}
	for i := 0; i < n; i++ {
		m.infos = append(m.infos, &state.ArbiterInfo{NodePublicKey: []byte{byte(i + 1)}, IsNormal: true})
	}
	old := DefaultLedger
	DefaultLedger = &Ledger{Arbitrators: m}
	defer func() { DefaultLedger = old }()

	c := &payload.Confirm{}
	c.Proposal.Sponsor = []byte{1}
	signers := make([]byte, k)
	accepts := make([]bool, k)
	for i := 0; i < k; i++ {
		signers[i] = nd.U8("signer")
		accepts[i] = nd.Bool("accept")
		c.Votes = append(c.Votes, payload.DPOSProposalVote{Signer: []byte{signers[i]}, Accept: accepts[i]})
	}
	err := ConfirmContextCheck(c)
	if err != nil {
		return
	}
	nd.Reach("accepted")
	distinct := 0
	for a := 1; a <= n; a++ {
		found := false
		for i := 0; i < k; i++ {
			if accepts[i] && signers[i] == byte(a) {
				found = true
			}
		}
		if found {
			distinct++
		}
	}
	nd.Assert(3*distinct > 2*n, "accepted_confirm_has_two_thirds_distinct_arbiters")
}
