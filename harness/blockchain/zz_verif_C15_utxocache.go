//go:build verif

package blockchain

import (
	"errors"

	"github.com/elastos/Elastos.ELA/common"
	"github.com/elastos/Elastos.ELA/common/config"
	common2 "github.com/elastos/Elastos.ELA/core/types/common"
	"github.com/elastos/Elastos.ELA/core/types/interfaces"
	"github.com/elastos/Elastos.ELA/zzverif/nd"
)

type zzC15store struct {
	txs map[common.Uint256]interfaces.Transaction
}

func (s *zzC15store) GetTransaction(txID common.Uint256) (interfaces.Transaction, uint32, error) {
	if t, ok := s.txs[txID]; ok {
		return t, 1, nil
	}
	return nil, 0, errors.New("not found")
}

type zzC15spender struct {
	interfaces.Transaction
	ins []*common2.Input
}

func (t *zzC15spender) Inputs() []*common2.Input { return t.ins }

// ZZ_C15_utxocache: the transaction-reference cache in front of the store.
// The store holds 2 transactions with 2 outputs each (symbolic values); the
// cache limit is shrunk to 2; a sequence of 2 GetTxReference lookups with
// arbitrary inputs (txid from a pool of 3 — one unknown —, index 0..2) with
// arbitrary cache cleans in between: every answer equals the uncached answer
// (error iff a referenced output does not exist) and the cache stays within
// its bound.
func ZZ_C15_utxocache() {
	oldMax := MaxReferenceSize
	MaxReferenceSize = 2
	defer func() { MaxReferenceSize = oldMax }()
	ids := []common.Uint256{{1}, {2}, {3}}
	st := &zzC15store{txs: map[common.Uint256]interfaces.Transaction{}}
	vals := map[common.Uint256][]common.Fixed64{}
	for _, id := range ids[:2] {
		var outs []*common2.Output
		for j := 0; j < 2; j++ {
			v := common.Fixed64(nd.I64("value"))
			outs = append(outs, &common2.Output{Value: v})
			vals[id] = append(vals[id], v)
		}
		st.txs[id] = &zzC11tx{outs: outs}
	}
	c := NewUTXOCache(st, &config.Configuration{})
	for step := 0; step < 2; step++ {
		cleans := 2
		if nd.Tier() > 0 {
			cleans = 3
		}
		switch nd.Choose("clean", cleans) {
		case 1:
			c.CleanCache()
		case 2:
			c.CleanTxCache()
		}
		n := nd.Choose("inputs", 2) + 1
		var ins []*common2.Input
		ok := true
		for i := 0; i < n; i++ {
			in := &common2.Input{}
			w := nd.Choose("txid", 3)
			in.Previous.TxID = ids[w]
			if i == 0 {
				in.Previous.Index = uint16(nd.Choose("index", 3))
			} else {
				in.Previous.Index = uint16(nd.Choose("index", 2))
			}
			ins = append(ins, in)
			if w == 2 || in.Previous.Index >= 2 {
				ok = false
			}
		}
		res, err := c.GetTxReference(&zzC15spender{ins: ins})
		nd.Assert((err == nil) == ok, "cached_lookup_fails_iff_uncached_lookup_fails")
		if err == nil && ok {
			nd.Assert(len(res) == n, "every_input_is_resolved")
			for _, in := range ins {
				o, found := res[in]
				nd.Assert(found && o.Value == vals[in.Previous.TxID][in.Previous.Index], "cached_reference_equals_stored_output")
			}
		}
		nd.Assert(c.Inputs.Len() <= MaxReferenceSize && len(c.Reference) <= MaxReferenceSize, "reference_cache_within_bound")
		nd.Assert(len(c.TxCache) <= MaxReferenceSize+1, "transaction_cache_within_bound")
	}
	nd.Reach("done")
}
