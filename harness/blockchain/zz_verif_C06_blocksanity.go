//go:build verif

package blockchain

import (
	"github.com/elastos/Elastos.ELA/common"
	"github.com/elastos/Elastos.ELA/core/types"
	common2 "github.com/elastos/Elastos.ELA/core/types/common"
	"github.com/elastos/Elastos.ELA/core/types/interfaces"
	"github.com/elastos/Elastos.ELA/zzverif/nd"
)

// ZZ_C06_blocksanity: a block (correctly sealed: merkle root, merged-mining
// proof, proof of work) with a coinbase and two transactions with 1..2 and 1 inputs
// drawn from a pool of 4 outpoints (with arbitrary sequence numbers) passes CheckBlockSanity only if no
// outpoint is spent twice in it — within one transaction or across two.
func ZZ_C06_blocksanity() {
	b := zzSanityChain()
	blk := &types.Block{}
	blk.Height = 100
	blk.Transactions = []interfaces.Transaction{&zzBlkTx{id: common.Uint256{0xC0}, coinbase: true}}
	var all []common2.OutPoint
	for i := 0; i < 2; i++ {
		t := &zzBlkTx{id: common.Uint256{0xD0, byte(i)}}
		extra := 0
		if i == 0 {
			extra = nd.Choose("extraInput", 2) // the first transaction has 1..2 inputs, the second one
		}
		for j := 0; j <= extra; j++ {
			in := zzInput("input")
			t.ins = append(t.ins, in)
			all = append(all, in.Previous)
		}
		blk.Transactions = append(blk.Transactions, t)
	}
	zzSealBlock(blk)
	err := b.CheckBlockSanity(blk)
	nd.Reach("decided")
	dup := false
	for i := range all {
		for j := i + 1; j < len(all); j++ {
			if all[i] == all[j] {
				dup = true
			}
		}
	}
	if dup {
		nd.Reach("double_spend")
		nd.Assert(err != nil, "block_spending_an_outpoint_twice_is_rejected")
	} else {
		nd.Assert(err == nil, "well_formed_block_is_accepted")
	}
}

type zzUnspentDB struct {
	IFFLDBChainStore
	unspent map[common.Uint256][]uint16
}

func (d *zzUnspentDB) GetUnspent(txID common.Uint256) ([]uint16, error) {
	u, ok := d.unspent[txID]
	if !ok {
		return nil, errZZStop
	}
	return u, nil
}

// ZZ_C06_spent: against the unspent table (two known transactions with an
// arbitrary subset of their outputs 0..2 still unspent), ChainStore.IsDoubleSpend
// lets a transaction through iff every one of its 1..2 inputs (txid from
// {known, known, unknown}, arbitrary 16-bit index) names an output that is
// still unspent.
func ZZ_C06_spent() {
	db := &zzUnspentDB{unspent: map[common.Uint256][]uint16{}}
	ids := []common.Uint256{{0xEE, 0}, {0xEE, 1}, {0xEE, 2}}
	var table [2][3]bool
	for t := 0; t < 2; t++ {
		var u []uint16
		for i := 0; i < 3; i++ {
			if nd.Bool("unspent") {
				table[t][i] = true
				u = append(u, uint16(i))
			}
		}
		db.unspent[ids[t]] = u
	}
	c := &ChainStore{fflDB: db}
	tx := &zzBlkTx{id: common.Uint256{0xD0}}
	ok := true
	for j := 0; j <= nd.Choose("extraInput", 2); j++ {
		w := nd.Choose("txid", 3)
		idx := nd.U16("index")
		tx.ins = append(tx.ins, &common2.Input{Previous: common2.OutPoint{TxID: ids[w], Index: idx}})
		if w == 2 || idx > 2 || !table[w][idx] {
			ok = false
		}
	}
	res := c.IsDoubleSpend(tx)
	nd.Reach("decided")
	nd.Assert(res == !ok, "transaction_passes_iff_every_input_is_still_unspent")
}
