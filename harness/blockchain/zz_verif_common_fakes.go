//go:build verif

package blockchain

import (
	"io"
	"os"

	"github.com/elastos/Elastos.ELA/common/log"
	"github.com/elastos/Elastos.ELA/zzverif/nd"

	"github.com/elastos/Elastos.ELA/common"
	common2 "github.com/elastos/Elastos.ELA/core/types/common"
	"github.com/elastos/Elastos.ELA/core/types/interfaces"
	"github.com/elastos/Elastos.ELA/dpos/state"
)

type zzC11Arbiters struct {
	state.Arbitrators
	v2Active    uint32
	roundReward map[common.Uint168]common.Fixed64
	finalChange common.Fixed64
}

func (m *zzC11Arbiters) GetDPoSV2ActiveHeight() uint32 { return m.v2Active }

// zzC11tx: checkCoinbaseTransactionContext only reads the outputs of the
// coinbase; the blockchain package cannot import core/transaction (import
// cycle), so the coinbase is a minimal interfaces.Transaction.
type zzC11tx struct {
	interfaces.Transaction
	outs []*common2.Output
}

func (t *zzC11tx) Outputs() []*common2.Output { return t.outs }

func zzC11coinbase(outs []*common2.Output) interfaces.Transaction {
	return &zzC11tx{outs: outs}
}

func (t *zzC11tx) Fee() common.Fixed64            { return 0 }
func (t *zzC11tx) Serialize(w io.Writer) error    { return nil }
func (m *zzC11Arbiters) GetArbitersRoundReward() map[common.Uint168]common.Fixed64 { return m.roundReward }
func (m *zzC11Arbiters) GetFinalRoundChange() common.Fixed64                       { return m.finalChange }

// natively the common logger must exist (the engine treats logging as a no-op)
func zzInitLog() {
	if !nd.Symbolic() {
		d, _ := os.MkdirTemp("", "zzverif-log-")
		log.NewDefault(d, 255, 0, 0)
	}
}
