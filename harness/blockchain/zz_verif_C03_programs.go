//go:build verif

package blockchain

import (
	"github.com/elastos/Elastos.ELA/common"
	. "github.com/elastos/Elastos.ELA/core/contract/program"
	"github.com/elastos/Elastos.ELA/zzverif/nd"
)

// ZZ_C03_programs: RunPrograms never panics, whatever the program code (23..36
// arbitrary bytes — the sanity checks reject shorter code — or the Schnorr
// shape with an arbitrary key), the parameter (0..66 arbitrary bytes) and the
// address prefix (standard, deposit, multisig, cross-chain, unknown), with the
// address made from the code or not.
func ZZ_C03_programs() {
	data := nd.Bytes("unsignedTx", 4)
	var code []byte
	if nd.Choose("shape", 2) == 0 {
		code = nd.Bytes("code", []int{23, 34, 35, 36}[nd.Choose("codeLen", 4)])
	} else {
		code = append([]byte{0x51, 33}, nd.Bytes("schnorrKey", 33)...)
	}
	param := nd.Bytes("parameter", []int{0, 1, 63, 64, 65, 66}[nd.Choose("paramLen", 6)])
	prefix := []byte{0x21, 0x1F, 0x12, 0x4B, 0x67}[nd.Choose("prefix", 5)]
	hash := *common.ToProgramHash(prefix, code)
	if nd.Bool("foreignAddress") {
		hash[5] ^= 0xFF
	}
	nd.Reach("built")
	nd.NoPanic("RunPrograms", func() {
		RunPrograms(data, []common.Uint168{hash}, []*Program{{Code: code, Parameter: param}})
	})
}
