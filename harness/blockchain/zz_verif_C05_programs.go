//go:build verif

package blockchain

import (
	"github.com/elastos/Elastos.ELA/common"
	"github.com/elastos/Elastos.ELA/core/contract"
	. "github.com/elastos/Elastos.ELA/core/contract/program"
	"github.com/elastos/Elastos.ELA/zzverif/nd"
)

// zzSlot: one signature slot of a program parameter: a real signature by key k
// over the right data, by key k over other data, or 64 arbitrary bytes.
func zzSlot(data, other []byte) (sig []byte, signer int, good bool) {
	k := nd.Choose("signer", 3)
	switch nd.Choose("slotKind", 3) {
	case 0:
		return zzSign(k, data), k, true
	case 1:
		return zzSign(k, other), k, false
	}
	return nd.Bytes("forgedSignature", 64), k, false
}

// ZZ_C05_standard: RunPrograms accepts a standard (single-key) program for a
// standard or deposit address only if the code hashes to the address and the
// parameter is a signature by that key over exactly the signed data.
func ZZ_C05_standard() {
	data := nd.Bytes("unsignedTx", 6)
	other := nd.Bytes("otherData", 6)
	nd.Assume(string(other) != string(data))
	owner := nd.Choose("owner", 2)
	code := zzStandardCode(owner)
	sig, signer, good := zzSlot(data, other)
	param := append([]byte{64}, sig...)
	prefix := []byte{0x21, 0x1F}[nd.Choose("prefix", 2)]
	hash := *common.ToProgramHash(prefix, code)
	matches := nd.Bool("addressMatchesCode")
	if !matches {
		hash = *common.ToProgramHash(prefix, zzStandardCode(2))
	}
	err := RunPrograms(data, []common.Uint168{hash}, []*Program{{Code: code, Parameter: param}})
	nd.Reach("decided")
	if err == nil {
		nd.Reach("accepted")
		nd.Assert(matches, "accepted_program_code_hashes_to_the_spent_address")
		nd.Assert(good && signer == owner, "accepted_standard_program_carries_the_owners_signature_over_the_data")
	}
}

// ZZ_C05_multisig: an m-of-n multisig program (n = 2..3 keys, m = 1..n) with
// 1..3 signature slots (each a right signature, a signature over other data or
// forged bytes, by any key — duplicates allowed) is accepted only if at least
// m DISTINCT keys of the script have a right signature among the slots.
func ZZ_C05_multisig() {
	data := nd.Bytes("unsignedTx", 6)
	other := nd.Bytes("otherData", 6)
	nd.Assume(string(other) != string(data))
	n := nd.Choose("n", 2) + 2
	m := nd.Choose("m", n) + 1
	keys := []int{0, 1, 2}[:n]
	code := zzMultiCode(m, keys)
	slots := nd.Choose("slots", 3) + 1
	var param []byte
	signed := [3]bool{}
	for i := 0; i < slots; i++ {
		sig, signer, good := zzSlot(data, other)
		param = append(append(param, 64), sig...)
		if good && signer < n {
			signed[signer] = true
		}
	}
	prefix := []byte{0x12, 0x1F}[nd.Choose("prefix", 2)]
	hash := *common.ToProgramHash(prefix, code)
	err := RunPrograms(data, []common.Uint168{hash}, []*Program{{Code: code, Parameter: param}})
	nd.Reach("decided")
	distinct := 0
	for i := 0; i < n; i++ {
		if signed[i] {
			distinct++
		}
	}
	if err == nil {
		nd.Reach("accepted")
		nd.Assert(distinct >= m, "accepted_multisig_has_m_distinct_signers_of_the_script")
	}
}

// ZZ_C05_anycode: whatever the program code is (23..36 arbitrary bytes, or the
// Schnorr shape with an arbitrary key) and whatever the parameter (0..66
// arbitrary bytes — never a real signature), RunPrograms does not accept it for
// a standard, deposit or multisig address, and does not panic.
func ZZ_C05_anycode() {
	data := nd.Bytes("unsignedTx", 4)
	var code []byte
	if nd.Choose("shape", 2) == 0 {
		code = nd.Bytes("code", []int{23, 34, 35, 36}[nd.Choose("codeLen", 4)]) // sanity rejects code shorter than MinProgramCodeSize (23)
	} else {
		code = append([]byte{0x51, 33}, nd.Bytes("schnorrKey", 33)...)
	}
	param := nd.Bytes("parameter", []int{0, 1, 63, 64, 65, 66}[nd.Choose("paramLen", 6)])
	prefix := []byte{0x21, 0x1F, 0x12}[nd.Choose("prefix", 3)]
	hash := *common.ToProgramHash(prefix, code) // the attacker owns an address made from this code
	var err error
	nd.NoPanic("RunPrograms", func() {
		err = RunPrograms(data, []common.Uint168{hash}, []*Program{{Code: code, Parameter: param}})
	})
	nd.Reach("decided")
	if contract.IsSchnorr(code) || contract.IsStandard(code) || contract.IsMultiSig(code) {
		nd.Assert(err != nil, "recognised_program_without_a_valid_signature_is_rejected")
	} else {
		// a code of no recognised shape: see known_findings.json
		nd.Assert(err != nil, "program_of_unrecognised_shape_is_rejected")
	}
}

// ZZ_C05_pair: every program of a transaction is checked, not only the first.
// RunPrograms on two (hash, program) pairs: a cross-chain (0x4B) address with
// a 1-of-2 cross-chain script correctly signed by its first key, and a
// standard address of another owner whose program carries a right signature,
// a signature over other data, a signature by another key or forged bytes —
// in either order. Accepted only if the standard program carries its owner's
// signature over the data.
func ZZ_C05_pair() {
	data := nd.Bytes("unsignedTx", 6)
	other := nd.Bytes("otherData", 6)
	nd.Assume(string(other) != string(data))
	// the cross-chain pair (its code is not tied to the address: see C33)
	cc := zzMultiCode(1, []int{2, 0})
	cc[len(cc)-1] = common.CROSSCHAIN
	ccProgram := &Program{Code: cc, Parameter: append([]byte{64}, zzSign(2, data)...)}
	ccHash := common.Uint168{0x4B, 0x01}
	// the standard pair
	code := zzStandardCode(1)
	sig, signer, good := zzSlot(data, other)
	stProgram := &Program{Code: code, Parameter: append([]byte{64}, sig...)}
	stHash := *common.ToProgramHash(0x21, code)
	hashes, programs := []common.Uint168{ccHash, stHash}, []*Program{ccProgram, stProgram}
	if nd.Bool("standardFirst") {
		hashes, programs = []common.Uint168{stHash, ccHash}, []*Program{stProgram, ccProgram}
	}
	err := RunPrograms(data, hashes, programs)
	nd.Reach("decided")
	if err == nil {
		nd.Reach("accepted")
		nd.Assert(good && signer == 1, "every_program_of_the_transaction_is_verified")
	}
}
