//go:build verif

package blockchain

import (
	"encoding/binary"
	"io"
	"math/big"
	"time"

	"github.com/elastos/Elastos.ELA/auxpow"
	"github.com/elastos/Elastos.ELA/common"
	"github.com/elastos/Elastos.ELA/common/config"
	"github.com/elastos/Elastos.ELA/core/types"
	common2 "github.com/elastos/Elastos.ELA/core/types/common"
	"github.com/elastos/Elastos.ELA/core/types/functions"
	"github.com/elastos/Elastos.ELA/core/types/interfaces"
	"github.com/elastos/Elastos.ELA/crypto"
	elaerr "github.com/elastos/Elastos.ELA/errors"
	"github.com/elastos/Elastos.ELA/zzverif/nd"
)

// zzBlkTx: the "wrapped transaction" seam of block validation.
// CheckBlockSanity sees a transaction only through interfaces.Transaction:
// its id, its inputs, whether it is a coinbase, its type and its own
// SanityCheck verdict (here: accepted — transaction-level rules are the
// subject of other properties). The blockchain package cannot import
// core/transaction (import cycle).
type zzBlkTx struct {
	interfaces.Transaction
	id       common.Uint256
	ins      []*common2.Input
	coinbase bool
}

func (t *zzBlkTx) Hash() common.Uint256                               { return t.id }
func (t *zzBlkTx) Inputs() []*common2.Input                           { return t.ins }
func (t *zzBlkTx) IsCoinBaseTx() bool                                 { return t.coinbase }
func (t *zzBlkTx) TxType() common2.TxType                             { return common2.TransferAsset }
func (t *zzBlkTx) SanityCheck(p interfaces.Parameters) elaerr.ELAError { return nil }
func (t *zzBlkTx) Serialize(w io.Writer) error                        { _, err := w.Write(t.id[:]); return err }

type zzClock struct{ MedianTimeSource }

func (zzClock) AdjustedTime() time.Time { return time.Unix(2000000000, 0) }

// zzSealBlock gives the block a header that passes the merged-mining proof and
// proof-of-work checks natively as well: the merkle root is the real root of
// the transaction ids, the aux proof commits to the header hash (single-leaf
// tree, as a miner builds it), and the target is the largest encodable one.
func zzSealBlock(b *types.Block) {
	var ids []common.Uint256
	for _, t := range b.Transactions {
		ids = append(ids, t.Hash())
	}
	root, _ := crypto.ComputeRoot(ids)
	b.Header.MerkleRoot = root
	b.Header.Bits = 0x2100ffff
	b.Header.Timestamp = 1900000000
	zzCommitAux(b)
}

func zzCommitAux(b *types.Block) {
	ap := &b.Header.AuxPow
	*ap = auxpow.AuxPow{}
	h := b.Header.Hash()
	rev, _ := common.Uint256FromBytes(common.BytesReverse(h.Bytes()))
	script := []byte{0x03, 1, 2, 3, 0xfa, 0xbe, 'm', 'm'}
	script = append(script, common.BytesReverse(rev.Bytes())...)
	var tail [8]byte
	binary.LittleEndian.PutUint32(tail[:4], 1)
	script = append(script, tail[:]...)
	exact := make([]byte, len(script))
	copy(exact, script)
	ap.ParCoinbaseTx.Version = 1
	ap.ParCoinbaseTx.TxIn = []*auxpow.BtcTxIn{{SignatureScript: exact}}
	ap.ParBlockHeader.MerkleRoot = ap.ParCoinbaseTx.Hash()
}

func zzSanityChain() *BlockChain {
	zzInitLog()
	functions.GetTransactionParameters = func(interfaces.Transaction, uint32, uint32, interface{}, interface{}, common.Fixed64) interfaces.Parameters {
		return nil
	}
	p := &config.Configuration{}
	p.PowConfiguration.PowLimit = new(big.Int).Sub(new(big.Int).Lsh(big.NewInt(1), 256), big.NewInt(1))
	return &BlockChain{chainParams: p, TimeSource: zzClock{}}
}

// zzPool: outpoints the block's transactions may spend.
func zzInput(name string) *common2.Input {
	return &common2.Input{Previous: common2.OutPoint{TxID: common.Uint256{0xEE, byte(nd.Choose(name+"_txid", 2))}, Index: uint16(nd.Choose(name+"_index", 2))},
		Sequence: uint32(nd.Choose(name+"_sequence", 2))} // the sequence number is not part of the outpoint
}
