//go:build verif

package blockchain

import (
	"math/big"
	"time"

	"github.com/elastos/Elastos.ELA/common"
	"github.com/elastos/Elastos.ELA/common/config"
	"github.com/elastos/Elastos.ELA/core/types"
	common2 "github.com/elastos/Elastos.ELA/core/types/common"
	"github.com/elastos/Elastos.ELA/core/types/interfaces"
	"github.com/elastos/Elastos.ELA/core/types/payload"
	"github.com/elastos/Elastos.ELA/dpos/state"
	"github.com/elastos/Elastos.ELA/zzverif/nd"
)

// zzOKStore: a chain store that serves the main-chain blocks and accepts
// every rollback (the disconnect half of a reorganisation succeeds).
type zzOKStore struct {
	IChainStore
	ff     *zzOKFFLDB
	rolled int
}

func (s *zzOKStore) GetFFLDB() IFFLDBChainStore { return s.ff }
func (s *zzOKStore) RollbackBlock(b *types.Block, node *BlockNode, confirm *payload.Confirm, medianTimePast time.Time) error {
	s.rolled++
	return nil
}

type zzOKFFLDB struct {
	IFFLDBChainStore
	blocks map[common.Uint256]*types.DposBlock
}

func (f *zzOKFFLDB) GetBlock(hash common.Uint256) (*types.DposBlock, error) {
	if b, ok := f.blocks[hash]; ok {
		return b, nil
	}
	return nil, errZZStop
}

type zzQuietArbiters struct{ state.Arbitrators }

func (a *zzQuietArbiters) DumpInfo(height uint32) {}

type zzCoinbaseTx struct{ interfaces.Transaction }

func (t *zzCoinbaseTx) TxType() common2.TxType { return common2.CoinBase }
func (t *zzCoinbaseTx) IsRevertToPOW() bool    { return false }
func (t *zzCoinbaseTx) IsRecordSponorTx() bool { return false }

// ZZ_C12_failedswitch: a heavier side branch of 2..3 blocks forking one or two
// blocks below the tip, whose first block is invalid in its context (its
// difficulty bits are not the expected ones): connectBestChain reports the
// failure, and afterwards the node must be back on the chain it was on
// before. (The detach half runs against a store that accepts every rollback;
// the attach half fails at the invalid block's context check.)
func ZZ_C12_failedswitch() {
	zzInitLog()
	nd.Stub("events.Notify")
	cfg := &config.Configuration{}
	cfg.PowConfiguration.PowLimitBits = 0x207fffff
	cfg.VoteStartHeight = 0xffffffff
	st := &state.State{StateKeyFrame: state.NewStateKeyFrame(), ChainParams: cfg}
	old := DefaultLedger
	DefaultLedger = &Ledger{Arbitrators: &zzQuietArbiters{}}
	defer func() { DefaultLedger = old }()
	ff := &zzOKFFLDB{blocks: map[common.Uint256]*types.DposBlock{}}
	db := &zzOKStore{ff: ff}
	b := &BlockChain{chainParams: cfg, db: db, state: st}
	b.UTXOCache = NewUTXOCache(db, cfg)
	b.index = newBlockIndex(db, cfg)
	b.blockCache = map[common.Uint256]*types.Block{}
	b.confirmCache = map[common.Uint256]*payload.Confirm{}

	mkBlock := func(prev common.Uint256, height uint32, nonce uint32, bits uint32) *types.Block {
		return &types.Block{Header: common2.Header{Version: 1, Previous: prev, Height: height, Bits: bits, Nonce: nonce, Timestamp: 1000 + height*10},
			Transactions: []interfaces.Transaction{&zzCoinbaseTx{}}}
	}
	// main chain: heights 0..3
	var main []*BlockNode
	var prevNode *BlockNode
	prevHash := common.Uint256{}
	for i := uint32(0); i < 4; i++ {
		blk := mkBlock(prevHash, i, 100+i, 0x207fffff)
		h := blk.Hash()
		n := &BlockNode{Hash: &h, Height: i, Parent: prevNode, InMainChain: true, Timestamp: blk.Timestamp, Bits: blk.Bits,
			WorkSum: new(big.Int).Lsh(big.NewInt(int64(i+1)), 100)}
		if prevNode != nil {
			n.ParentHash = prevNode.Hash
		}
		b.index.addNode(n)
		ff.blocks[h] = &types.DposBlock{Block: blk}
		main = append(main, n)
		prevNode, prevHash = n, h
	}
	b.Nodes = append(b.Nodes, main...)
	b.BestChain = main[3]
	best := main[3]

	// side branch from main[forkIdx]
	forkIdx := 2 - nd.Choose("forkDepthMinusOne", 2) // 2 or 1: detach 1 or 2 blocks
	sideLen := nd.Choose("sideLen", 2) + 2           // 2 or 3 blocks
	invalid := 0 // the first block of the branch is the invalid one (connecting a valid one needs a full chain state)
	var side []*BlockNode
	var sideBlocks []*types.Block
	prevNode, prevHash = main[forkIdx], *main[forkIdx].Hash
	for i := 0; i < sideLen; i++ {
		bits := uint32(0x207fffff)
		if i == invalid {
			bits = 0x1d00ffff
		}
		blk := mkBlock(prevHash, prevNode.Height+1, 200+uint32(i), bits)
		h := blk.Hash()
		n := &BlockNode{Hash: &h, Height: blk.Height, Parent: prevNode, ParentHash: prevNode.Hash, Timestamp: blk.Timestamp, Bits: blk.Bits,
			WorkSum: new(big.Int).Lsh(big.NewInt(int64(10+i)), 100)}
		side = append(side, n)
		sideBlocks = append(sideBlocks, blk)
		prevNode, prevHash = n, h
	}
	for i := 0; i < sideLen-1; i++ {
		b.index.addNode(side[i])
		b.blockCache[*side[i].Hash] = sideBlocks[i]
	}
	node, block := side[sideLen-1], sideBlocks[sideLen-1]

	var inMain bool
	var err error
	nd.NoPanic("connectBestChain", func() { inMain, _, err = b.connectBestChain(node, block, nil) })
	nd.Reach("decided")
	nd.Assert(err != nil && !inMain, "a_branch_with_an_invalid_block_is_not_adopted")
	if db.rolled > 0 {
		nd.Reach("blocks_were_detached")
	}
	nd.Assert(b.BestChain == best, "a_failed_switch_leaves_the_node_on_its_previous_chain")
}
