//go:build verif

package blockchain

import (
	"github.com/elastos/Elastos.ELA/common"
	"github.com/elastos/Elastos.ELA/core/types"
	"github.com/elastos/Elastos.ELA/core/types/interfaces"
	"github.com/elastos/Elastos.ELA/crypto"
	"github.com/elastos/Elastos.ELA/zzverif/nd"
)

// ZZ_C07_binding: a sealed block with a coinbase and 1..4 further
// transactions passes CheckBlockSanity; with the header (merkle root, proof)
// kept and the transaction list changed in any of these ways it does not:
// one transaction removed, two swapped, the last one duplicated (the
// CVE-2012-2459 shape), one replaced by a transaction with another id, the
// coinbase moved from the front, a second coinbase, or a header that commits
// to the root of another list.
func ZZ_C07_binding() {
	b := zzSanityChain()
	n := nd.Choose("transactions", 4) + 1
	blk := &types.Block{}
	blk.Height = 100
	blk.Transactions = []interfaces.Transaction{&zzBlkTx{id: common.Uint256{0xC0}, coinbase: true}}
	for i := 0; i < n; i++ {
		blk.Transactions = append(blk.Transactions, &zzBlkTx{id: common.Uint256{0xD0, byte(i)}})
	}
	zzSealBlock(blk)
	nd.Assert(b.CheckBlockSanity(blk) == nil, "sealed_block_is_accepted")
	nd.Reach("sealed")
	txs := append([]interfaces.Transaction{}, blk.Transactions...)
	switch nd.Choose("tamper", 7) {
	case 0:
		k := nd.Choose("removed", n) + 1
		blk.Transactions = append(append([]interfaces.Transaction{}, txs[:k]...), txs[k+1:]...)
		nd.Assert(b.CheckBlockSanity(blk) != nil, "removing_a_transaction_is_rejected")
	case 1:
		if n >= 2 {
			i := nd.Choose("swapA", n) + 1
			j := nd.Choose("swapB", n) + 1
			nd.Assume(i != j)
			cp := append([]interfaces.Transaction{}, txs...)
			cp[i], cp[j] = cp[j], cp[i]
			blk.Transactions = cp
			nd.Assert(b.CheckBlockSanity(blk) != nil, "reordering_transactions_is_rejected")
		}
	case 2:
		blk.Transactions = append(append([]interfaces.Transaction{}, txs...), txs[len(txs)-1])
		nd.Assert(b.CheckBlockSanity(blk) != nil, "duplicating_the_last_transaction_is_rejected")
	case 3:
		k := nd.Choose("replaced", n) + 1
		var id common.Uint256
		copy(id[:], nd.Bytes("otherId", 32))
		nd.Assume(id != txs[k].Hash())
		cp := append([]interfaces.Transaction{}, txs...)
		cp[k] = &zzBlkTx{id: id}
		blk.Transactions = cp
		nd.Assert(b.CheckBlockSanity(blk) != nil, "replacing_a_transaction_is_rejected")
	case 4:
		cp := append([]interfaces.Transaction{}, txs...)
		cp[0], cp[1] = cp[1], cp[0]
		blk.Transactions = cp
		nd.Assert(b.CheckBlockSanity(blk) != nil, "coinbase_not_first_is_rejected")
	case 5:
		cp := append([]interfaces.Transaction{}, txs...)
		cp = append(cp, &zzBlkTx{id: common.Uint256{0xC1}, coinbase: true})
		blk.Transactions = cp
		zzSealBlock(blk) // even with a matching root
		nd.Assert(b.CheckBlockSanity(blk) != nil, "second_coinbase_is_rejected")
	case 6:
		// a header that commits (with a valid proof) to the root of another
		// list — the same list plus one more transaction — while the block
		// carries the original list
		var ids []common.Uint256
		for _, t := range txs {
			ids = append(ids, t.Hash())
		}
		ids = append(ids, common.Uint256{0xD9})
		r, _ := crypto.ComputeRoot(ids)
		blk.Header.MerkleRoot = r
		zzCommitAux(blk)
		nd.Assert(b.CheckBlockSanity(blk) != nil, "header_with_the_root_of_another_list_is_rejected")
	}
	nd.Reach("tampered")
}
