//go:build verif

package blockchain

import (
	"github.com/elastos/Elastos.ELA/core/types"
	"math"

	"github.com/elastos/Elastos.ELA/common"
	"github.com/elastos/Elastos.ELA/common/config"
	common2 "github.com/elastos/Elastos.ELA/core/types/common"
	"github.com/elastos/Elastos.ELA/core/types/interfaces"
	"github.com/elastos/Elastos.ELA/core/types/outputpayload"
	"github.com/elastos/Elastos.ELA/dpos/state"
	"github.com/elastos/Elastos.ELA/zzverif/nd"
)

func zzC11params() *config.Configuration {
	p := config.GetDefaultParams()
	switch nd.Choose("net", 3) {
	case 1:
		p = p.TestNet()
	case 2:
		p = p.RegNet()
	}
	if nd.Tier() > 0 && nd.Choose("symbolicSchedule", 2) == 1 {
		p.HalvingRewardInterval = nd.U32("halvingInterval")
		nd.Assume(p.HalvingRewardInterval >= 1)
		p.HalvingRewardHeight = nd.U32("halvingHeight")
		p.NewELAIssuanceHeight = nd.U32("newIssuanceHeight")
	}
	return p
}

// ZZ_C11_schedule: the subsidy is never negative, and from the new issuance
// height on it never increases with height (all uint32 heights).
func ZZ_C11_schedule() {
	p := zzC11params()
	h1 := nd.U32("h1")
	h2 := nd.U32("h2")
	r1 := p.GetBlockReward(h1)
	r2 := p.GetBlockReward(h2)
	nd.Reach("computed")
	nd.Assert(r1 >= 0, "subsidy_never_negative")
	if h1 >= p.NewELAIssuanceHeight && h1 <= h2 {
		nd.Reach("new_schedule")
		nd.Assert(r2 <= r1, "subsidy_never_increases_under_new_schedule")
	}
}


// ZZ_C11_split: after DPoS v2 is active, an accepted coinbase has exactly three
// outputs that pay, in total, exactly subsidy + fees, with the CR share
// ceil(0.3*total), the DPoS share ceil(0.35*total) and the remainder to the
// miner, and the CR / DPoS outputs go to the configured addresses (or the
// destroy address in PoW mode).
func ZZ_C11_split() {
	p := zzC11params()
	crHash := common.Uint168{0x12, 1}
	dposHash := common.Uint168{0x12, 2}
	destroy := common.Uint168{0x12, 3}
	p.CRConfiguration.CRAssetsProgramHash = &crHash
	p.DPoSConfiguration.DPoSV2RewardAccumulateProgramHash = &dposHash
	p.DestroyELAProgramHash = &destroy
	st := &state.State{StateKeyFrame: state.NewStateKeyFrame()}
	pow := nd.Bool("powMode")
	if pow {
		st.ConsensusAlgorithm = state.POW
	} else {
		st.ConsensusAlgorithm = state.DPOS
	}
	b := &BlockChain{chainParams: p, state: st}
	arb := &zzC11Arbiters{v2Active: nd.U32("v2ActiveHeight")}
	old := DefaultLedger
	DefaultLedger = &Ledger{Arbitrators: arb}
	defer func() { DefaultLedger = old }()

	h := nd.U32("height")
	nd.Assume(arb.v2Active != math.MaxUint32 && arb.v2Active < math.MaxUint32-1 && h > arb.v2Active+1)
	fees := common.Fixed64(nd.I64("fees"))
	nd.Assume(fees >= 0 && fees <= 1<<53) // total fees of a block are bounded by the coin supply (< 2^53 sela)
	// a coinbase that reaches the context check has passed
	// CoinBaseTransaction.CheckTransactionOutput, which rejects fewer than 2 outputs
	k := nd.Choose("outputs", 3) + 2 // 2..4 outputs
	var outs []*common2.Output
	hashes := []common.Uint168{crHash, dposHash, destroy, {0x21, 9}}
	for i := 0; i < k; i++ {
		o := &common2.Output{Value: common.Fixed64(nd.I64("value")), Payload: &outputpayload.DefaultOutput{}}
		if i == 0 || i == 2 {
			o.ProgramHash = hashes[nd.Choose("addr", 3)]
		} else {
			o.ProgramHash = hashes[3]
		}
		outs = append(outs, o)
	}
	cb := zzC11coinbase(outs)
	dposReward := common.Fixed64(nd.I64("dposReward"))
	total := fees + p.GetBlockReward(h)
	// what GetBlockDPOSReward computes for the block (fees recorded on the txs)
	nd.Assume(dposReward == common.Fixed64(math.Ceil(float64(total)*0.35)))
	var err error
	nd.NoPanic("checkCoinbase", func() { err = b.checkCoinbaseTransactionContext(h, cb, fees, dposReward) })
	if err != nil {
		return
	}
	nd.Reach("accepted")
	nd.Assert(k == 3, "v2_coinbase_has_exactly_three_outputs")
	if k != 3 {
		return
	}
	nd.Assert(outs[0].Value+outs[1].Value+outs[2].Value == total, "coinbase_pays_exactly_subsidy_plus_fees")
	nd.Assert(outs[0].Value == common.Fixed64(math.Ceil(float64(total)*0.3)), "cr_share_is_30_percent")
	nd.Assert(outs[2].Value == common.Fixed64(math.Ceil(float64(total)*0.35)), "dpos_share_is_35_percent")
	if pow {
		nd.Assert(outs[0].ProgramHash == destroy, "pow_mode_cr_share_destroyed")
		nd.Assert(outs[2].ProgramHash == destroy, "pow_mode_dpos_share_destroyed")
	} else {
		nd.Assert(outs[0].ProgramHash == crHash, "cr_share_goes_to_cr_assets_address")
		nd.Assert(outs[2].ProgramHash == dposHash, "dpos_share_goes_to_dpos_reward_address")
	}
}



// ZZ_C11_block: the same verdict through the block-level driver
// (checkTxsContext -> GetBlockDPOSReward -> checkCoinbaseTransactionContext)
// for a block whose only transaction is the coinbase (fees 0): at v2 heights
// (which are above CheckRewardHeight on every shipped network) a block is
// accepted only with the exact three-way split of the subsidy.
func ZZ_C11_block() {
	p := zzC11params()
	crHash := common.Uint168{0x12, 1}
	dposHash := common.Uint168{0x12, 2}
	destroy := common.Uint168{0x12, 3}
	p.CRConfiguration.CRAssetsProgramHash = &crHash
	p.DPoSConfiguration.DPoSV2RewardAccumulateProgramHash = &dposHash
	p.DestroyELAProgramHash = &destroy
	st := &state.State{StateKeyFrame: state.NewStateKeyFrame()}
	st.ConsensusAlgorithm = state.DPOS
	b := &BlockChain{chainParams: p, state: st}
	arb := &zzC11Arbiters{v2Active: nd.U32("v2ActiveHeight")}
	old := DefaultLedger
	DefaultLedger = &Ledger{Arbitrators: arb}
	defer func() { DefaultLedger = old }()
	h := nd.U32("height")
	nd.Assume(arb.v2Active != math.MaxUint32 && arb.v2Active < math.MaxUint32-1 && h > arb.v2Active+1)
	nd.Assume(h >= p.CheckRewardHeight) // v2 activates above CheckRewardHeight on mainnet/testnet/regnet
	var outs []*common2.Output
	for i := 0; i < 3; i++ {
		o := &common2.Output{Value: common.Fixed64(nd.I64("value")), Payload: &outputpayload.DefaultOutput{}}
		outs = append(outs, o)
	}
	outs[0].ProgramHash = crHash
	outs[2].ProgramHash = dposHash
	blk := &types.Block{}
	blk.Height = h
	blk.Transactions = []interfaces.Transaction{zzC11coinbase(outs)}
	if b.checkTxsContext(blk) != nil {
		return
	}
	nd.Reach("accepted")
	total := p.GetBlockReward(h)
	nd.Assert(outs[0].Value+outs[1].Value+outs[2].Value == total, "block_coinbase_pays_exactly_the_subsidy")
	nd.Assert(outs[2].Value == common.Fixed64(math.Ceil(float64(total)*0.35)), "block_dpos_share_is_35_percent")
}
