//go:build verif

package blockchain

import (
	"errors"
	"math/big"

	"github.com/elastos/Elastos.ELA/common"
	"github.com/elastos/Elastos.ELA/common/config"
	"github.com/elastos/Elastos.ELA/core/types"
	"github.com/elastos/Elastos.ELA/core/types/payload"
	"github.com/elastos/Elastos.ELA/dpos/state"
	"github.com/elastos/Elastos.ELA/zzverif/nd"
)

// zzReorgStore: the store seam. The first store access of a reorganisation is
// GetFFLDB().GetBlock(hash of the first node to detach); the fake records the
// hash and fails, which ends the reorganisation before anything else happens.
type zzReorgStore struct {
	IChainStore
	ffldb *zzReorgFFLDB
}

func (s *zzReorgStore) GetFFLDB() IFFLDBChainStore { return s.ffldb }

type zzReorgFFLDB struct {
	IFFLDBChainStore
	asked []common.Uint256
}

var errZZStop = errors.New("zz: store stops the reorganisation")

func (f *zzReorgFFLDB) GetBlock(hash common.Uint256) (*types.DposBlock, error) {
	f.asked = append(f.asked, hash)
	return nil, errZZStop
}

type zzTree struct {
	b        *BlockChain
	ff       *zzReorgFFLDB
	main     []*BlockNode // main[0] is the common root
	side     []*BlockNode
	node     *BlockNode
	block    *types.Block
	forkIdx  int
	st       *state.State
}

// zzBuildTree: main chain root -> m1 -> m2 -> m3 (best), side branch of 1..3
// nodes forking below the tip at depth 1..3; the last side node is the block
// being connected. Heights start at an arbitrary base.
func zzBuildTree() *zzTree {
	zzInitLog()
	base := nd.U32("baseHeight")
	nd.Assume(base < 0xffffff00)
	t := &zzTree{}
	mk := func(tag byte, i int, h uint32, parent *BlockNode, main bool) *BlockNode {
		hash := common.Uint256{tag, byte(i)}
		n := &BlockNode{Hash: &hash, Height: h, Parent: parent, InMainChain: main, WorkSum: big.NewInt(0)}
		if parent != nil {
			n.ParentHash = parent.Hash
		}
		return n
	}
	var prev *BlockNode
	for i := 0; i <= 3; i++ {
		n := mk(0xAA, i, base+uint32(i), prev, true)
		t.main = append(t.main, n)
		prev = n
	}
	depth := nd.Choose("forkDepth", 3) + 1 // blocks that would be detached
	t.forkIdx = 3 - depth
	k := nd.Choose("sideLen", 3) + 1
	prev = t.main[t.forkIdx]
	for i := 1; i <= k; i++ {
		n := mk(0xBB, i, t.main[t.forkIdx].Height+uint32(i), prev, false)
		t.side = append(t.side, n)
		prev = n
	}
	t.node = t.side[k-1]
	best := t.main[3]
	best.WorkSum = new(big.Int).SetBytes(nd.Bytes("bestWork", 2))
	t.node.WorkSum = new(big.Int).SetBytes(nd.Bytes("sideWork", 2))

	st := &state.State{StateKeyFrame: state.NewStateKeyFrame(), ChainParams: &config.Configuration{}}
	st.LastIrreversibleHeight = nd.U32("lastIrreversibleHeight")
	st.ChainParams.CRCOnlyDPOSHeight = nd.U32("crcOnlyDPOSHeight")
	st.ChainParams.DPoSConfiguration.RevertToPOWStartHeight = nd.U32("revertToPOWStartHeight")
	if nd.Bool("pow") {
		st.ConsensusAlgorithm = state.POW
	}
	t.st = st
	t.ff = &zzReorgFFLDB{}
	db := &zzReorgStore{ffldb: t.ff}
	b := &BlockChain{chainParams: st.ChainParams, db: db, state: st}
	b.UTXOCache = NewUTXOCache(db, st.ChainParams)
	b.index = newBlockIndex(db, st.ChainParams)
	b.blockCache = map[common.Uint256]*types.Block{}
	b.confirmCache = map[common.Uint256]*payload.Confirm{}
	b.Nodes = append(b.Nodes, t.main...)
	b.BestChain = best
	for _, n := range t.main {
		b.index.addNode(n)
	}
	for _, n := range t.side[:k-1] {
		b.index.addNode(n)
		b.blockCache[*n.Hash] = &types.Block{}
	}
	t.block = &types.Block{}
	t.block.Height = t.node.Height
	t.b = b
	return t
}

