//go:build verif

package blockchain

import (
	"math/big"
	"time"

	"github.com/elastos/Elastos.ELA/common/config"
	common2 "github.com/elastos/Elastos.ELA/core/types/common"
	"github.com/elastos/Elastos.ELA/zzverif/nd"
)

// zzRefCompact is an independent reference decoder: sign * mantissa * 256^(e-3),
// truncating toward zero for e < 3. e is concrete on every path.
func zzRefCompact(e int, mant uint32, neg bool) *big.Int {
	r := new(big.Int).SetUint64(uint64(mant))
	if e >= 3 {
		p := new(big.Int).Exp(big.NewInt(256), big.NewInt(int64(e-3)), nil)
		r.Mul(r, p)
	} else {
		p := new(big.Int).Exp(big.NewInt(256), big.NewInt(int64(3-e)), nil)
		r.Quo(r, p)
	}
	if neg {
		r.Neg(r)
	}
	return r
}

// ZZ_C09_slow_compact (not registered: did not finish within the session budget; run with SYMGO_SLOW=1): for every 32-bit compact value c (exponent enumerated,
// 24 mantissa+sign bits symbolic): CompactToBig agrees with the reference
// decoder, re-encoding preserves the value, and re-encoding is the identity
// on canonical encodings (the image of BigToCompact).
func ZZ_C09_slow_compact() {
	ne := 8 // quick: exponents 0..7 (both the e<3 and the e>=3 branch)
	if nd.Tier() > 0 {
		ne = 256
	}
	e := nd.Choose("exponent", ne)
	low := nd.U32("mantissa_and_sign")
	nd.Assume(low <= 0x00ffffff)
	c := uint32(e)<<24 | low
	n := CompactToBig(c)
	ref := zzRefCompact(e, low&0x007fffff, low&0x00800000 != 0)
	nd.Assert(n.Cmp(ref) == 0, "decode_matches_reference")
	c2 := BigToCompact(n)
	n2 := CompactToBig(c2)
	nd.Assert(n2.Cmp(n) == 0, "reencode_preserves_value")
	c3 := BigToCompact(n2)
	nd.Assert(c3 == c2, "identity_on_canonical")
	// canonical form characterised directly: no sign bit (or nonzero value),
	// mantissa's top byte non-zero, exponent >= 3 ... then c2 == c.
	mant := low & 0x007fffff
	if low&0x00800000 == 0 && mant >= 0x008000 && e >= 3 && e <= 252 {
		nd.Assert(c2 == c, "canonical_fixed_point")
	}
	nd.Reach("done")
}

// ZZ_C09_encode_le: encoding any positive target below 2^256 and decoding
// the result never yields a larger target, and loses less than 1/2^15 of it.
func ZZ_C09_encode_le() {
	nb := 5 // targets below 2^40 (32-byte targets did not finish in this session)
	b := nd.Bytes("target", nb)
	n := new(big.Int).SetBytes(b)
	nd.Assume(n.Sign() > 0)
	c := BigToCompact(n)
	m := CompactToBig(c)
	nd.Assert(m.Cmp(n) <= 0, "decode_encode_not_larger")
	nd.Assert(m.Sign() > 0, "stays_positive")
	// precision: n - m < n / 2^15 (mantissa keeps at least 16 significant bits)
	d := new(big.Int).Sub(n, m)
	d.Lsh(d, 15)
	nd.Assert(d.Cmp(n) <= 0, "precision_loss_bounded")
	nd.Reach("done")
}

// zzC09powSetup builds a header with compact target bits (exponent enumerated)
// and a parent-chain header whose hash is an arbitrary 256-bit value (under
// the engine the double-SHA256 of symbolic bytes is an uninterpreted function).
func zzC09powSetup() (*common2.Header, *big.Int, *big.Int, *big.Int) {
	e := nd.Choose("exponent", 40)
	low := nd.U32("mantissa_and_sign")
	nd.Assume(low <= 0x00ffffff)
	h := &common2.Header{Bits: uint32(e)<<24 | low}
	h.AuxPow.ParBlockHeader.Nonce = nd.U32("parent_nonce")
	h.AuxPow.ParBlockHeader.Timestamp = nd.U32("parent_time")
	limit := new(big.Int).SetBytes(nd.Bytes("limit", 32))
	target := zzRefCompact(e, low&0x007fffff, low&0x00800000 != 0)
	// little-endian value of the parent hash, computed independently of HashToBig
	hash := h.AuxPow.ParBlockHeader.Hash()
	hv := new(big.Int)
	for i := 31; i >= 0; i-- {
		hv.Lsh(hv, 8)
		hv.Add(hv, big.NewInt(int64(hash[i])))
	}
	return h, limit, target, hv
}

// ZZ_C09_pow_target: CheckProofOfWork accepts only if 0 < target <= limit.
func ZZ_C09_pow_target() {
	h, limit, target, _ := zzC09powSetup()
	// replay hint: a real hash is below a target >= 2^255 half of the time
	nd.Prefer(target.Cmp(new(big.Int).Lsh(big.NewInt(1), 255)) >= 0)
	if CheckProofOfWork(h, limit) == nil {
		nd.Reach("accepted")
		nd.Assert(target.Sign() > 0, "target_positive")
		nd.Assert(target.Cmp(limit) <= 0, "target_le_limit")
	}
}

// ZZ_C09_pow_hash: CheckProofOfWork accepts only if the parent-chain hash,
// read as a little-endian number, is <= target.
func ZZ_C09_pow_hash() {
	h, limit, target, hv := zzC09powSetup()
	// replay hint: a real hash exceeds a target < 2^200 practically always
	nd.Prefer(target.Cmp(new(big.Int).Lsh(big.NewInt(1), 200)) < 0)
	if CheckProofOfWork(h, limit) == nil {
		nd.Reach("accepted")
		nd.Assert(hv.Cmp(target) <= 0, "hash_le_target")
	}
}

// ZZ_C09_slow_retarget (not registered: not run to completion within the session budget; run with SYMGO_SLOW=1): one retarget step moves the target by at most the
// adjustment factor and never above the limit.
func ZZ_C09_slow_retarget() {
	e := nd.Choose("exponent", 33) + 1
	mant := nd.U32("mantissa")
	nd.Assume(mant >= 0x008000 && mant <= 0x007fffff) // canonical positive
	prevBits := uint32(e)<<24 | mant
	f := int64(nd.U8("factor"))
	nd.Assume(f >= 1 && f <= 16)
	ts := int64(nd.U32("targetTimespanSec"))
	nd.Assume(ts >= f && ts <= 30*24*3600) // min timespan >= 1 s
	limit := new(big.Int).SetBytes(nd.Bytes("limit", 32))
	old := CompactToBig(prevBits)
	nd.Assume(limit.Sign() > 0 && old.Cmp(limit) <= 0)
	params := &config.Configuration{}
	params.PowConfiguration.PowLimit = limit
	params.PowConfiguration.PowLimitBits = BigToCompact(limit)
	nd.Assume(params.PowConfiguration.PowLimitBits != 0x207fffff)
	params.PowConfiguration.TargetTimespan = time.Duration(ts) * time.Second
	params.PowConfiguration.AdjustmentFactor = f
	b := &BlockChain{chainParams: params,
		minRetargetTimespan: ts / f, maxRetargetTimespan: ts * f, blocksPerRetarget: 2}
	first := &BlockNode{Height: 0, Timestamp: nd.U32("t0"), Bits: prevBits}
	prev := &BlockNode{Height: 1, Timestamp: nd.U32("t1"), Bits: prevBits, Parent: first}
	var newBits uint32
	var err error
	nd.NoPanic("CalcNextRequiredDifficulty", func() {
		newBits, err = b.CalcNextRequiredDifficulty(prev, time.Time{})
	})
	if err != nil {
		return
	}
	nd.Reach("retargeted")
	nt := CompactToBig(newBits)
	up := new(big.Int).Mul(old, big.NewInt(f))
	nd.Assert(nt.Cmp(up) <= 0, "at_most_factor_up")
	nd.Assert(nt.Cmp(limit) <= 0, "never_above_limit")
	nd.Assert(nt.Sign() >= 0, "not_negative")
	// lower bound: old*(ts/f)/ts, then compact truncation (< 2^-15 relative)
	lo := new(big.Int).Mul(old, big.NewInt(ts/f))
	lo.Div(lo, big.NewInt(ts))
	lo2 := CompactToBig(BigToCompact(lo))
	nd.Assert(nt.Cmp(lo2) >= 0, "at_most_factor_down")
}

// ZZ_C09_decode: CompactToBig agrees with the reference decoder
// (mantissa * 256^(e-3), truncated for e < 3, negated by the sign bit) for
// every exponent byte 0..255 and every 24 mantissa/sign bits.
func ZZ_C09_decode() {
	e := nd.Choose("exponent", 256)
	low := nd.U32("mantissa_and_sign")
	nd.Assume(low <= 0x00ffffff)
	n := CompactToBig(uint32(e)<<24 | low)
	ref := zzRefCompact(e, low&0x007fffff, low&0x00800000 != 0)
	nd.Reach("decoded")
	nd.Assert(n.Cmp(ref) == 0, "decode_matches_reference")
}
