//go:build verif

package blockchain

import (
	"github.com/elastos/Elastos.ELA/common"
	"github.com/elastos/Elastos.ELA/common/config"
	common2 "github.com/elastos/Elastos.ELA/core/types/common"
	"github.com/elastos/Elastos.ELA/core/types/outputpayload"
	"github.com/elastos/Elastos.ELA/dpos/state"
	"github.com/elastos/Elastos.ELA/zzverif/nd"
)

// ZZ_C03_fp_coinbase: checkCoinbaseTransactionContext never panics, in any era
// (symbolic height against symbolic activation heights), for a coinbase with
// 2..4 outputs (fewer are rejected by CoinBaseTransaction.CheckTransactionOutput
// before the context check) of arbitrary values and addresses, arbitrary fee
// total / DPoS reward / round rewards.
func ZZ_C03_fp_coinbase() {
	p := config.GetDefaultParams()
	destroy := common.Uint168{0x12, 3}
	crHash := common.Uint168{0x12, 1}
	dposHash := common.Uint168{0x12, 2}
	p.DestroyELAProgramHash = &destroy
	p.CRConfiguration.CRAssetsProgramHash = &crHash
	p.DPoSConfiguration.DPoSV2RewardAccumulateProgramHash = &dposHash
	p.PublicDPOSHeight = nd.U32("publicDPOSHeight")
	st := &state.State{StateKeyFrame: state.NewStateKeyFrame()}
	if nd.Bool("powMode") {
		st.ConsensusAlgorithm = state.POW
	}
	b := &BlockChain{chainParams: p, state: st}
	arb := &zzC11Arbiters{v2Active: nd.U32("v2ActiveHeight"), finalChange: common.Fixed64(nd.I64("finalChange"))}
	arb.roundReward = map[common.Uint168]common.Fixed64{}
	for i, zzn := 0, nd.Choose("roundRewards", 2); i < zzn; i++ {
		arb.roundReward[common.Uint168{0x21, byte(i)}] = common.Fixed64(nd.I64("roundReward"))
	}
	old := DefaultLedger
	DefaultLedger = &Ledger{Arbitrators: arb}
	defer func() { DefaultLedger = old }()
	k := nd.Choose("outputs", 3) + 2
	hit := nd.Choose("rewardAddr", 2) == 1
	var outs []*common2.Output
	for i := 0; i < k; i++ {
		o := &common2.Output{Value: common.Fixed64(nd.I64("value")), Payload: &outputpayload.DefaultOutput{}}
		if hit {
			o.ProgramHash = common.Uint168{0x21, 0} // the address that has a round reward (if any)
		} else {
			o.ProgramHash = common.Uint168{0x21, 0x77}
		}
		outs = append(outs, o)
	}
	h := nd.U32("height")
	fees := common.Fixed64(nd.I64("fees"))
	dposReward := common.Fixed64(nd.I64("dposReward"))
	nd.Reach("built")
	nd.NoPanic("checkCoinbaseTransactionContext", func() {
		_ = b.checkCoinbaseTransactionContext(h, zzC11coinbase(outs), fees, dposReward)
	})
}
