//go:build verif

package blockchain

import (
	"github.com/elastos/Elastos.ELA/zzverif/nd"
)

// ZZ_C12_decision: the chain-selection decision for a block that extends a
// side chain (tree shapes: fork depth 1..3 below the tip, side branch of 1..3
// blocks, arbitrary cumulative work on both tips, arbitrary DPoS state):
//   - the best chain is abandoned only for a tip with strictly more work;
//   - when it is, and the reorganisation is not forbidden by irreversibility,
//     the reorganisation is attempted and works from exactly the old branch
//     above the fork (tip first) and the new branch (fork first).
// The store fails at the first access, so nothing below the decision runs.
func ZZ_C12_decision() {
	t := zzBuildTree()
	best := t.b.BestChain
	detach := 3 - t.forkIdx
	heavier := t.node.WorkSum.Cmp(best.WorkSum) > 0
	irreversible := t.st.IsIrreversible(best.Height, detach)
	inMain, _, err := t.b.connectBestChain(t.node, t.block, nil)
	nd.Reach("decided")
	attempted := len(t.ff.asked) > 0
	nd.Assert(t.b.BestChain == best, "best_chain_pointer_is_not_moved_by_the_decision_itself")
	if !heavier {
		nd.Reach("not_heavier")
		nd.Assert(!attempted && err == nil && !inMain, "tip_with_equal_or_less_work_never_replaces_the_best_chain")
		return
	}
	if irreversible {
		nd.Assert(!attempted && !inMain, "forbidden_reorganisation_is_not_attempted")
		return
	}
	nd.Reach("heavier_and_allowed")
	nd.Assert(attempted, "heavier_side_chain_triggers_a_reorganisation")
	if attempted {
		nd.Assert(t.ff.asked[0] == *best.Hash, "reorganisation_starts_by_detaching_the_tip")
		nd.Assert(err != nil, "a_failing_store_is_reported_to_the_caller")
	}
	d, a := t.b.getReorganizeNodes(t.node)
	nd.Assert(d.Len() == detach && a.Len() == len(t.side), "detach_and_attach_lists_have_the_branch_lengths")
	if d.Len() == detach && a.Len() == len(t.side) {
		i := 3
		for e := d.Front(); e != nil; e = e.Next() {
			nd.Assert(e.Value.(*BlockNode) == t.main[i], "detach_list_is_the_old_branch_tip_first")
			i--
		}
		i = 0
		for e := a.Front(); e != nil; e = e.Next() {
			nd.Assert(e.Value.(*BlockNode) == t.side[i], "attach_list_is_the_new_branch_fork_first")
			i++
		}
	}
}
