//go:build verif

package blockchain

import (
	"github.com/elastos/Elastos.ELA/common/config"
	"github.com/elastos/Elastos.ELA/dpos/state"
	"github.com/elastos/Elastos.ELA/zzverif/nd"
)

// ZZ_C30_reorg (also the decision kernel of C12): a side-chain block arrives.
//   - not more cumulative work than the best chain => the store is not touched;
//   - otherwise a reorganisation is attempted only if no block at or below the
//     last irreversible height would be detached (once the chain is past the
//     CRC-only DPoS height), and it starts by detaching the current tip.
func ZZ_C30_reorg() {
	t := zzBuildTree()
	best := t.b.BestChain
	detach := 3 - t.forkIdx
	lowestDetached := best.Height - uint32(detach) + 1
	heavier := t.node.WorkSum.Cmp(best.WorkSum) > 0
	var err error
	nd.NoPanic("connectBestChain", func() { _, _, err = t.b.connectBestChain(t.node, t.block, nil) })
	nd.Reach("decided")
	attempted := len(t.ff.asked) > 0
	if !heavier {
		nd.Assert(!attempted && err == nil, "side_chain_without_more_work_does_not_touch_the_store")
		return
	}
	nd.Reach("heavier")
	if attempted {
		nd.Reach("reorganising")
		nd.Assert(t.ff.asked[0] == *best.Hash, "reorganisation_detaches_the_tip_first")
		if best.Height > t.st.ChainParams.CRCOnlyDPOSHeight {
			nd.Assert(lowestDetached > t.st.LastIrreversibleHeight, "irreversible_block_is_never_detached")
		}
	}
	// the lists the reorganisation works from
	d, a := t.b.getReorganizeNodes(t.node)
	nd.Assert(d.Len() == detach && a.Len() == len(t.side), "detach_and_attach_lists_have_the_branch_lengths")
	if d.Len() == detach && a.Len() == len(t.side) {
		i := 3
		for e := d.Front(); e != nil; e = e.Next() {
			nd.Assert(e.Value.(*BlockNode) == t.main[i], "detach_list_is_the_old_branch_tip_first")
			i--
		}
		i = 0
		for e := a.Front(); e != nil; e = e.Next() {
			nd.Assert(e.Value.(*BlockNode) == t.side[i], "attach_list_is_the_new_branch_fork_first")
			i++
		}
	}
}

// ZZ_C30_guard: State.IsIrreversible itself, for arbitrary heights: whenever it
// lets a reorganisation of `detach` blocks below a tip at height cur proceed
// (past the CRC-only DPoS height), none of the detached heights is at or below
// the last irreversible height.
func ZZ_C30_guard() {
	st := &state.State{StateKeyFrame: state.NewStateKeyFrame(), ChainParams: &config.Configuration{}}
	st.LastIrreversibleHeight = nd.U32("lastIrreversibleHeight")
	st.ChainParams.CRCOnlyDPOSHeight = nd.U32("crcOnlyDPOSHeight")
	st.ChainParams.DPoSConfiguration.RevertToPOWStartHeight = nd.U32("revertToPOWStartHeight")
	if nd.Bool("pow") {
		st.ConsensusAlgorithm = state.POW
	}
	cur := nd.U32("tipHeight")
	detach := nd.U32("detachCount")
	nd.Assume(detach >= 1 && detach <= cur) // a reorganisation detaches between 1 and cur blocks
	nd.Assume(cur > st.ChainParams.CRCOnlyDPOSHeight)
	ok := !st.IsIrreversible(cur, int(detach))
	nd.Reach("decided")
	if ok {
		nd.Reach("allowed")
		nd.Assert(cur-detach+1 > st.LastIrreversibleHeight, "allowed_reorganisation_detaches_only_reversible_blocks")
	}
}
