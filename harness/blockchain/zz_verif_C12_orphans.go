//go:build verif

package blockchain

import (
	"math/big"
	"time"

	"github.com/elastos/Elastos.ELA/common"
	"github.com/elastos/Elastos.ELA/common/config"
	"github.com/elastos/Elastos.ELA/core/types"
	common2 "github.com/elastos/Elastos.ELA/core/types/common"
	"github.com/elastos/Elastos.ELA/core/types/payload"
	"github.com/elastos/Elastos.ELA/dpos/state"
	"github.com/elastos/Elastos.ELA/zzverif/nd"
)

// ZZ_C12_orphans: once the missing parent has arrived, every block the node
// holds that descends from it gets connected, whatever the order in which the
// orphans were received. Main chain root -> m1 -> m2 (best, heavy); the orphan
// pool holds a and b (children of m1), c (child of a) and, optionally, d
// (child of b), entered in any of several receive orders exactly as
// AddOrphanBlock enters them; ProcessOrphans(m1) then leaves the pool empty
// and every one of them in the block index under its parent (they form side
// chains with less work than the best chain, so no store access happens).
func ZZ_C12_orphans() {
	zzInitLog()
	nd.Stub("events.Notify")
	cfg := &config.Configuration{}
	st := &state.State{StateKeyFrame: state.NewStateKeyFrame(), ChainParams: cfg}
	ff := &zzReorgFFLDB{}
	db := &zzReorgStore{ffldb: ff}
	b := &BlockChain{chainParams: cfg, db: db, state: st}
	b.UTXOCache = NewUTXOCache(db, cfg)
	b.index = newBlockIndex(db, cfg)
	b.blockCache = map[common.Uint256]*types.Block{}
	b.confirmCache = map[common.Uint256]*payload.Confirm{}
	b.orphans = map[common.Uint256]*OrphanBlock{}
	b.prevOrphans = map[common.Uint256][]*OrphanBlock{}
	b.orphanConfirms = map[common.Uint256]*payload.Confirm{}
	var prev *BlockNode
	var main []*BlockNode
	for i := 0; i < 3; i++ {
		h := common.Uint256{0xAA, byte(i)}
		n := &BlockNode{Hash: &h, Height: uint32(10 + i), Parent: prev, InMainChain: true, WorkSum: new(big.Int).Lsh(big.NewInt(int64(i+1)), 200)}
		if prev != nil {
			n.ParentHash = prev.Hash
		}
		b.index.addNode(n)
		main = append(main, n)
		prev = n
	}
	b.Nodes = append(b.Nodes, main...)
	b.BestChain = main[2]
	m1 := main[1]

	mk := func(parent common.Uint256, height uint32, nonce uint32) *types.Block {
		return &types.Block{Header: common2.Header{Version: 1, Previous: parent, Height: height, Bits: 0x207fffff, Nonce: nonce}}
	}
	a := mk(*m1.Hash, 12, 1)
	bb := mk(*m1.Hash, 12, 2)
	c := mk(a.Hash(), 13, 3)
	blocks := []*types.Block{a, bb, c}
	if nd.Bool("fourOrphans") {
		blocks = append(blocks, mk(bb.Hash(), 13, 4))
	}
	// receive order: a rotation of the list, optionally reversed
	rot := nd.Choose("rotation", len(blocks))
	rev := nd.Bool("reversed")
	order := make([]*types.Block, 0, len(blocks))
	for i := range blocks {
		k := (i + rot) % len(blocks)
		if rev {
			k = (len(blocks) - 1 - i + rot) % len(blocks)
		}
		order = append(order, blocks[k])
	}
	for _, blk := range order {
		// as AddOrphanBlock (its expiry sweep depends on the clock and is left out)
		ob := &OrphanBlock{Block: blk, Expiration: time.Unix(1<<40, 0)}
		b.orphans[blk.Hash()] = ob
		b.prevOrphans[blk.Header.Previous] = append(b.prevOrphans[blk.Header.Previous], ob)
	}
	var err error
	nd.NoPanic("ProcessOrphans", func() { err = b.ProcessOrphans(m1.Hash) })
	nd.Reach("processed")
	nd.Assert(err == nil, "orphans_below_the_best_chain_connect_without_error")
	nd.Assert(len(ff.asked) == 0, "side_chains_with_less_work_touch_no_store")
	nd.Assert(len(b.orphans) == 0 && len(b.prevOrphans) == 0, "no_descendant_of_the_arrived_block_stays_an_orphan")
	for _, blk := range blocks {
		h := blk.Hash()
		n, ok := b.index.LookupNode(&h)
		nd.Assert(ok && n != nil && n.Parent != nil && *n.Parent.Hash == blk.Header.Previous, "every_descendant_is_connected_under_its_parent")
	}
	nd.Assert(b.BestChain == main[2], "best_chain_is_unchanged_by_lighter_side_chains")
}
