//go:build verif

package blockchain

import (
	"github.com/elastos/Elastos.ELA/common/config"
	crstate "github.com/elastos/Elastos.ELA/cr/state"
	"github.com/elastos/Elastos.ELA/dpos/state"
)

// ZZNewChain: a BlockChain that only carries the consensus state objects a
// transaction's context check reads (harnesses outside this package cannot
// set the unexported fields).
func ZZNewChain(params *config.Configuration, st *state.State, committee *crstate.Committee) *BlockChain {
	return &BlockChain{chainParams: params, state: st, crCommittee: committee}
}
