//go:build verif

package servers

import (
	"github.com/elastos/Elastos.ELA/common/config"
	"github.com/elastos/Elastos.ELA/servers/errors"
	"github.com/elastos/Elastos.ELA/zzverif/nd"
)

// class of a privileged method, from the statement: 0 change node settings,
// 1 mine, 2 submit transactions, 3 use wallet data
type zzGated struct {
	name  string
	class int
	fn    func(Params) map[string]interface{}
}

// zzAllowed[class][level]: does the configured level permit the class?
// Levels are ordered ConfigurationPermitted < MiningPermitted <
// TransactionPermitted < WalletPermitted < QueryOnly; a level permits its own
// class and every class above it; an unrecognised name means
// ConfigurationPermitted (everything).
var zzLevels = []string{"ConfigurationPermitted", "MiningPermitted", "TransactionPermitted", "WalletPermitted", "QueryOnly", "somethingElse"}

func zzPermits(level string, class int) bool {
	rank := 0
	switch level {
	case "MiningPermitted":
		rank = 1
	case "TransactionPermitted":
		rank = 2
	case "WalletPermitted":
		rank = 3
	case "QueryOnly":
		rank = 4
	}
	return class >= rank
}

// ZZ_C36_levels: every privileged handler refuses (InvalidMethod, before doing
// anything else) when the configured service level does not permit its class.
func ZZ_C36_levels() {
	gated := []zzGated{
		{"setloglevel", 0, SetLogLevel},
		{"togglemining", 1, ToggleMining},
		{"discretemining", 1, DiscreteMining},
		{"createauxblock", 1, CreateAuxBlock},
		{"submitauxblock", 1, SubmitAuxBlock},
		{"sendrawtransaction", 2, SendRawTransaction},
		{"submitsidechainillegaldata", 2, SubmitSidechainIllegalData},
		{"getutxosbyamount", 3, GetUTXOsByAmount},
		{"getamountbyinputs", 3, GetAmountByInputs},
		{"listunspent", 3, ListUnspent},
		{"createrawtransaction", 3, CreateRawTransaction},
		{"signrawtransactionwithkey", 3, SignRawTransactionWithKey},
	}
	g := gated[nd.Choose("method", len(gated))]
	level := zzLevels[nd.Choose("level", len(zzLevels))]
	old := ChainParams
	ChainParams = &config.Configuration{RPCServiceLevel: level}
	defer func() { ChainParams = old }()
	if zzPermits(level, g.class) {
		return // the method may run; what it does is not the subject here
	}
	nd.Reach("forbidden")
	var resp map[string]interface{}
	nd.NoPanic("handler_ran_past_the_gate", func() { resp = g.fn(Params{}) })
	code, ok := resp["Error"].(errors.ServerErrCode)
	nd.Assert(ok && code == errors.InvalidMethod, "forbidden_method_answers_out_of_service_level")
}
