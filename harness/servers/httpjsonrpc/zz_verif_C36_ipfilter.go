//go:build verif

package httpjsonrpc

import (
	"net/http"

	"github.com/elastos/Elastos.ELA/common/config"
	"github.com/elastos/Elastos.ELA/zzverif/nd"
)

// ZZ_C36_ipfilter: the client address filter on a set of remote addresses
// (IPv4 / IPv6 loopback, private and public addresses, malformed ones) and
// whitelists (empty, the wildcard 0.0.0.0, the client's own address, other
// IPv4 / IPv6 addresses, entries that are not addresses): allowed iff the
// address is well formed and is loopback, or the whitelist holds the wildcard
// or exactly that address. (Address parsing of these concrete strings is
// computed natively by the engine; the filter's own logic is interpreted.)
func ZZ_C36_ipfilter() {
	type remote struct {
		addr     string
		ok, loop bool
		ip       string
	}
	remotes := []remote{
		{"127.0.0.1:20336", true, true, "127.0.0.1"},
		{"127.8.9.10:1", true, true, "127.8.9.10"},
		{"[::1]:20336", true, true, "::1"},
		{"10.0.0.5:4711", true, false, "10.0.0.5"},
		{"203.0.113.7:80", true, false, "203.0.113.7"},
		{"[2001:db8::7]:80", true, false, "2001:db8::7"},
		{"203.0.113.7", false, false, ""},
		{"example.org:80", false, false, ""},
		{"", false, false, ""},
	}
	r := remotes[nd.Choose("remote", len(remotes))]
	lists := [][]string{nil, {"0.0.0.0"}, {"198.51.100.1"}, {"198.51.100.1", "203.0.113.7"}, {"10.0.0.5"}, {"2001:db8::7"}, {"2001:db8::8"},
		{"127.0.0.2"}, {""}, {"localhost"}}
	wl := lists[nd.Choose("whitelist", len(lists))]
	old := config.Parameters
	config.Parameters = &config.Configuration{}
	config.Parameters.RpcConfiguration.WhiteIPList = wl
	defer func() { config.Parameters = old }()
	got := false
	nd.NoPanic("clientAllowed", func() { got = clientAllowed(&http.Request{RemoteAddr: r.addr}) })
	nd.Reach("decided")
	want := false
	if r.ok {
		want = r.loop
		for _, w := range wl {
			if w == "0.0.0.0" || w == r.ip {
				want = true
			}
		}
	}
	nd.Assert(got == want, "client_is_served_iff_loopback_or_whitelisted")
}
