//go:build verif

package httpjsonrpc

import (
	"net/http"

	"github.com/elastos/Elastos.ELA/common/config"
	"github.com/elastos/Elastos.ELA/zzverif/nd"
)

const zzB64 = "ABCDEFGHIJKLMNOPQRSTUVWXYZabcdefghijklmnopqrstuvwxyz0123456789+/"

// zzBasic: "Basic " + standard base64 of user:pass, written independently of
// encoding/base64.
func zzBasic(user, pass []byte) []byte {
	login := append(append(append([]byte{}, user...), ':'), pass...)
	out := []byte("Basic ")
	for i := 0; i < len(login); i += 3 {
		var b [3]byte
		n := copy(b[:], login[i:])
		v := uint32(b[0])<<16 | uint32(b[1])<<8 | uint32(b[2])
		out = append(out, zzB64[v>>18&63], zzB64[v>>12&63])
		if n > 1 {
			out = append(out, zzB64[v>>6&63])
		} else {
			out = append(out, '=')
		}
		if n > 2 {
			out = append(out, zzB64[v&63])
		} else {
			out = append(out, '=')
		}
	}
	return out
}

// ZZ_C36_cvc5_auth: with credentials configured, a request passes checkAuth only
// if its Authorization header is exactly "Basic "+base64(user:pass); without
// credentials every request passes. SHA-256 is collision-free by assumption.
func ZZ_C36_cvc5_auth() {
	lens := [][2]int{{0, 0}, {1, 0}, {0, 1}, {1, 1}, {2, 1}, {2, 2}}[nd.Choose("credentialLens", 6)]
	user := nd.Bytes("user", lens[0])
	pass := nd.Bytes("pass", lens[1])
	old := config.Parameters
	config.Parameters = &config.Configuration{}
	config.Parameters.RpcConfiguration.User = string(user)
	config.Parameters.RpcConfiguration.Pass = string(pass)
	defer func() { config.Parameters = old }()
	r := &http.Request{Header: http.Header{}}
	want := zzBasic(user, pass)
	var hdr []byte
	hasHdr := nd.Bool("headerPresent")
	if hasHdr {
		// same length as the right credential, one byte shorter, or one longer:
		// any other length differs from it by the same argument
		hdr = nd.Bytes("authorization", len(want)-1+nd.Choose("headerLenDelta", 3))
		r.Header["Authorization"] = []string{string(hdr)}
	}
	ok := checkAuth(r)
	nd.Reach("decided")
	if len(user) == 0 && len(pass) == 0 {
		nd.Assert(ok, "no_credentials_configured_every_request_passes")
		return
	}
	exact := hasHdr && string(hdr) == string(want)
	if exact {
		nd.Reach("exact_credential")
		nd.Assert(ok, "exact_basic_credential_passes")
	} else {
		nd.Assert(!ok, "anything_but_the_exact_basic_credential_is_refused")
	}
}
