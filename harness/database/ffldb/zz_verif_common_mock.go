//go:build verif

package ffldb

import (
	"container/list"
	"errors"
	"io"

	"github.com/elastos/Elastos.ELA/database/internal/treap"
)

// zzFile is an in-memory filer (the production seam blockStore.openFileFunc /
// openWriteFileFunc exists for exactly this). failAt >= 0 makes the failAt-th
// mutating call (WriteAt/Truncate/Sync, counted across all files of the
// store) stop the "process": a WriteAt applies only a prefix of partial bytes.
type zzFS struct {
	files   map[uint32]*zzFile
	ops     int
	failAt  int
	partial int
	crashed bool
}

type zzFile struct {
	fs     *zzFS
	data   []byte
	closed bool
}

var errZZCrash = errors.New("zz: simulated crash")

func (f *zzFile) step() bool {
	if f.fs.crashed {
		return true
	}
	if f.fs.failAt >= 0 && f.fs.ops == f.fs.failAt {
		f.fs.crashed = true
		return true
	}
	f.fs.ops++
	return false
}

func (f *zzFile) Close() error { f.closed = true; return nil }

func (f *zzFile) WriteAt(p []byte, off int64) (int, error) {
	n := len(p)
	crash := f.step()
	if crash {
		if f.fs.partial < n {
			n = f.fs.partial
		}
		f.fs.partial = 0
	}
	o := int(off)
	for len(f.data) < o+n {
		f.data = append(f.data, 0)
	}
	for i := 0; i < n; i++ {
		f.data[o+i] = p[i]
	}
	if crash {
		return n, errZZCrash
	}
	return n, nil
}

func (f *zzFile) ReadAt(p []byte, off int64) (int, error) {
	if off < 0 || off > int64(len(f.data)) {
		return 0, io.EOF
	}
	n := 0
	for i := range p {
		j := off + int64(i)
		if j >= int64(len(f.data)) {
			return n, io.ErrUnexpectedEOF
		}
		p[i] = f.data[j]
		n++
	}
	return n, nil
}

func (f *zzFile) Truncate(size int64) error {
	if f.step() {
		return errZZCrash
	}
	if size < int64(len(f.data)) {
		f.data = f.data[:size]
	}
	return nil
}

func (f *zzFile) Sync() error {
	if f.step() {
		return errZZCrash
	}
	return nil
}

func zzNewFS() *zzFS { return &zzFS{files: map[uint32]*zzFile{}, failAt: -1} }

func (fs *zzFS) file(n uint32) *zzFile {
	f, ok := fs.files[n]
	if !ok {
		f = &zzFile{fs: fs}
		fs.files[n] = f
	}
	f.closed = false
	return f
}

// zzStore builds a blockStore over the mock file system exactly the way
// newBlockStore does, minus the directory scan.
func zzStore(fs *zzFS, maxFileSize uint32, curFile, curOffset uint32) *blockStore {
	s := &blockStore{
		network:          0x12345678,
		maxBlockFileSize: maxFileSize,
		openBlockFiles:   make(map[uint32]*lockableFile),
		openBlocksLRU:    list.New(),
		fileNumToLRUElem: make(map[uint32]*list.Element),
		writeCursor: &writeCursor{
			curFile:    &lockableFile{},
			curFileNum: curFile,
			curOffset:  curOffset,
		},
	}
	s.openFileFunc = func(n uint32) (*lockableFile, error) {
		if _, ok := fs.files[n]; !ok {
			return nil, errors.New("zz: no such file")
		}
		return &lockableFile{file: fs.file(n)}, nil
	}
	s.openWriteFileFunc = func(n uint32) (filer, error) { return fs.file(n), nil }
	s.deleteFileFunc = func(n uint32) error {
		if f, ok := fs.files[n]; ok {
			if f.step() {
				return errZZCrash
			}
		}
		delete(fs.files, n)
		return nil
	}
	return s
}

// zzTx: a writable transaction whose metadata lives entirely in its pending
// key treaps (the leveldb-backed snapshot is never reached for keys that are
// pending).
func zzTx(s *blockStore) *transaction {
	tx := &transaction{writable: true, db: &db{store: s},
		pendingKeys: treap.NewMutable(), pendingRemove: treap.NewMutable()}
	tx.metaBucket = &bucket{tx: tx, id: metadataBucketID}
	tx.blockIdxBucket = &bucket{tx: tx, id: blockIdxBucketID}
	return tx
}
