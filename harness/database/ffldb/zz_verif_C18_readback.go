//go:build verif

package ffldb

import (
	"github.com/elastos/Elastos.ELA/common"
	"github.com/elastos/Elastos.ELA/database"
	"github.com/elastos/Elastos.ELA/zzverif/nd"
)

// ZZ_C18_readback: two blocks of symbolic content and length 0..4 are written
// back to back (with a maximum file size that does or does not force a
// rollover between them), located through the block index of a transaction,
// and read back: FetchBlock returns exactly the stored bytes; FetchBlockRegion
// with an arbitrary uint32 offset/length returns exactly raw[off:off+len] when
// the region lies within the block and fails otherwise (never bytes of the
// record framing or of the neighbouring record, never a panic).
func ZZ_C18_readback() {
	fs := zzNewFS()
	n1 := nd.Choose("len1", 5)
	n2 := nd.Choose("len2", 4)
	raw := [][]byte{nd.Bytes("block1", n1), nd.Bytes("block2", n2)}
	maxSize := uint32(1 << 20)
	if nd.Choose("rollover", 2) == 1 {
		maxSize = uint32(n1) + 12 // the second record does not fit into file 0
	}
	s := zzStore(fs, maxSize, 0, 0)
	tx := zzTx(s)
	hashes := []common.Uint256{{1}, {2}}
	for i := range raw {
		loc, err := s.writeBlock(raw[i])
		nd.Assert(err == nil, "write_succeeds")
		if err != nil {
			return
		}
		// what writePendingAndCommit records for the block
		err = tx.blockIdxBucket.Put(hashes[i][:], serializeBlockLoc(loc))
		nd.Assert(err == nil, "index_put_succeeds")
	}
	nd.Reach("stored")
	if nd.Choose("rollover_happened", 1) == 0 && maxSize != 1<<20 {
		nd.Assert(len(fs.files) == 2, "small_max_file_size_rolls_over")
	}
	w := nd.Choose("which", 2)
	var got []byte
	var err error
	nd.NoPanic("FetchBlock", func() { got, err = tx.FetchBlock(&hashes[w]) })
	nd.Assert(err == nil, "stored_block_is_fetched")
	if err == nil {
		nd.Assert(len(got) == len(raw[w]), "fetched_block_has_stored_length")
		if len(got) == len(raw[w]) {
			for i := range got {
				nd.Assert(got[i] == raw[w][i], "fetched_block_bytes_equal_stored_bytes")
			}
		}
	}
	off := nd.U32("offset")
	ln := nd.U32("len")
	region := database.BlockRegion{Hash: &hashes[w], Offset: off, Len: ln}
	var reg []byte
	nd.NoPanic("FetchBlockRegion", func() { reg, err = tx.FetchBlockRegion(&region) })
	nd.Reach("region_decided")
	// the bulk variant must give the same verdict and bytes
	var regs [][]byte
	var errs error
	nd.NoPanic("FetchBlockRegions", func() { regs, errs = tx.FetchBlockRegions([]database.BlockRegion{region}) })
	nd.Assert((errs == nil) == (err == nil), "bulk_region_fetch_agrees_on_verdict")
	if errs == nil && err == nil {
		nd.Assert(len(regs) == 1 && len(regs[0]) == len(reg), "bulk_region_fetch_agrees_on_length")
		if len(regs) == 1 && len(regs[0]) == len(reg) {
			for i := range reg {
				nd.Assert(regs[0][i] == reg[i], "bulk_region_fetch_agrees_on_bytes")
			}
		}
	}
	within := uint64(off)+uint64(ln) <= uint64(len(raw[w]))
	if within {
		nd.Reach("region_within")
		nd.Assert(err == nil, "region_within_block_is_served")
		if err == nil {
			nd.Assert(len(reg) == int(ln), "region_has_requested_length")
			if len(reg) == int(ln) {
				for i := range reg {
					nd.Assert(reg[i] == raw[w][int(off)+i], "region_bytes_equal_block_slice")
				}
			}
		}
	} else {
		nd.Assert(err != nil, "region_beyond_block_is_rejected")
	}
}

// ZZ_C18_pending: the same for a block that is still pending in the
// transaction (not yet written to a file).
func ZZ_C18_pending() {
	fs := zzNewFS()
	s := zzStore(fs, 1<<20, 0, 0)
	tx := zzTx(s)
	n := nd.Choose("len", 6)
	raw := nd.Bytes("block", n)
	h := common.Uint256{7}
	// what StoreBlock records (its duplicate check consults the leveldb snapshot, which is outside the encoding)
	tx.pendingBlocks = map[common.Uint256]int{h: 0}
	tx.pendingBlockData = []pendingBlock{{hash: &h, bytes: raw}}
	off := nd.U32("offset")
	ln := nd.U32("len")
	region := database.BlockRegion{Hash: &h, Offset: off, Len: ln}
	var reg []byte
	var err error
	nd.NoPanic("FetchBlockRegion", func() { reg, err = tx.FetchBlockRegion(&region) })
	nd.Reach("decided")
	if uint64(off)+uint64(ln) <= uint64(n) {
		nd.Assert(err == nil, "pending_region_within_block_is_served")
		if err == nil && len(reg) == int(ln) {
			for i := range reg {
				nd.Assert(reg[i] == raw[int(off)+i], "pending_region_bytes_equal_block_slice")
			}
		}
		if err == nil {
			nd.Assert(len(reg) == int(ln), "pending_region_has_requested_length")
		}
	} else {
		nd.Assert(err != nil, "pending_region_beyond_block_is_rejected")
	}
}
