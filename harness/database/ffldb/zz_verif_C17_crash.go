//go:build verif

package ffldb

import (
	"time"

	"github.com/elastos/Elastos.ELA/common"
	"github.com/elastos/Elastos.ELA/database/internal/treap"
	"github.com/elastos/Elastos.ELA/zzverif/nd"
)

// zzScan mimics scanBlockFiles on the mock file system: the write cursor a
// freshly opened store starts from is the end of the highest-numbered file.
func zzScan(fs *zzFS) (uint32, uint32) {
	last := -1
	for n := range fs.files {
		if int(n) > last {
			last = int(n)
		}
	}
	if last < 0 {
		return 0, 0
	}
	return uint32(last), uint32(len(fs.files[uint32(last)].data))
}

func zzSame(a, b []byte) bool {
	if len(a) != len(b) {
		return false
	}
	for i := range a {
		if a[i] != b[i] {
			return false
		}
	}
	return true
}

// ZZ_C17_crash (flat-file half of the crash-safety property).
// Commit 1 stores block A completely and "persists" the write cursor and A's
// location (the metadata side — leveldb batch atomicity — is assumed).
// Commit 2 stores blocks B and C and the process stops at an arbitrary
// mutating file operation (any of the 8 WriteAt calls, with an arbitrary
// prefix of that write reaching the file), with a maximum file size that does
// or does not force a rollover inside commit 2. The database is then reopened:
// the write cursor is recovered from the files, compared with the persisted
// one and rolled back as reconcileDB does. Afterwards A must read back
// byte-for-byte, nothing of the interrupted commit may lie at or below the
// persisted cursor, and a new commit must work and read back.
func ZZ_C17_crash() {
	fs := zzNewFS()
	nA := nd.Choose("lenA", 3) + 1
	nB := nd.Choose("lenB", 3)
	nC := nd.Choose("lenC", 2)
	rawA, rawB, rawC := nd.Bytes("A", nA), nd.Bytes("B", nB), nd.Bytes("C", nC)
	maxSize := uint32(1 << 20)
	switch nd.Choose("rollover", 3) {
	case 1:
		maxSize = uint32(nA) + 12 // B goes to file 1
	case 2:
		maxSize = uint32(nA) + uint32(nB) + 24 // C goes to file 1
	}
	s := zzStore(fs, maxSize, 0, 0)
	locA, err := s.writeBlock(rawA)
	nd.Assume(err == nil)
	nd.Assume(s.syncBlocks() == nil)
	persistedFile, persistedOff := s.writeCursor.curFileNum, s.writeCursor.curOffset

	// commit 2, interrupted
	fs.ops = 0
	fs.failAt = nd.Choose("crashPoint", 9) // 0..7: a WriteAt of B or C; 8: the Sync after both
	fs.partial = nd.Choose("partialBytes", 5)
	crashed := false
	if _, err := s.writeBlock(rawB); err != nil {
		crashed = true
	}
	if !crashed {
		if _, err := s.writeBlock(rawC); err != nil {
			crashed = true
		}
	}
	if !crashed {
		if s.syncBlocks() != nil {
			crashed = true
		}
	}
	nd.Assume(crashed) // the interesting runs: the process stopped inside commit 2
	nd.Reach("crashed")

	// reopen
	fs.crashed, fs.failAt = false, -1
	scanFile, scanOff := zzScan(fs)
	s2 := zzStore(fs, maxSize, scanFile, scanOff)
	before := scanFile < persistedFile || (scanFile == persistedFile && scanOff < persistedOff)
	nd.Assert(!before, "files_never_end_before_the_persisted_cursor")
	if before {
		return
	}
	if scanFile > persistedFile || (scanFile == persistedFile && scanOff > persistedOff) {
		nd.Reach("rolled_back")
		s2.handleRollback(persistedFile, persistedOff)
	}
	nd.Assert(s2.writeCursor.curFileNum == persistedFile && s2.writeCursor.curOffset == persistedOff, "cursor_is_the_persisted_cursor_after_recovery")
	for n, f := range fs.files {
		nd.Assert(n <= persistedFile, "no_block_file_beyond_the_persisted_cursor")
		if n == persistedFile {
			nd.Assert(uint32(len(f.data)) == persistedOff, "write_file_ends_at_the_persisted_cursor")
		}
	}
	hA := common.Uint256{0xA}
	var got []byte
	nd.NoPanic("readBlock", func() { got, err = s2.readBlock(&hA, locA) })
	nd.Assert(err == nil && zzSame(got, rawA), "committed_block_reads_back_after_crash")

	// a later commit works
	rawD := nd.Bytes("D", 2)
	locD, err := s2.writeBlock(rawD)
	nd.Assert(err == nil, "later_commit_succeeds")
	if err != nil {
		return
	}
	hD := common.Uint256{0xD}
	got, err = s2.readBlock(&hD, locD)
	nd.Assert(err == nil && zzSame(got, rawD), "later_block_reads_back")
	got, err = s2.readBlock(&hA, locA)
	nd.Assert(err == nil && zzSame(got, rawA), "committed_block_still_reads_back_after_later_commit")
}

// ZZ_C17_transient: a write failure that does not stop the process (disk full,
// transient I/O error): writePendingAndCommit's rollback closure is
// handleRollback(old cursor); afterwards the store is where it was and a new
// commit works.
func ZZ_C17_transient() {
	fs := zzNewFS()
	nA := nd.Choose("lenA", 3) + 1
	nB := nd.Choose("lenB", 3)
	rawA, rawB := nd.Bytes("A", nA), nd.Bytes("B", nB)
	maxSize := uint32(1 << 20)
	if nd.Choose("rollover", 2) == 1 {
		maxSize = uint32(nA) + 12
	}
	s := zzStore(fs, maxSize, 0, 0)
	locA, err := s.writeBlock(rawA)
	nd.Assume(err == nil)
	oldFile, oldOff := s.writeCursor.curFileNum, s.writeCursor.curOffset
	fs.ops = 0
	fs.failAt = nd.Choose("failPoint", 4)
	fs.partial = nd.Choose("partialBytes", 4)
	_, err = s.writeBlock(rawB)
	nd.Assume(err != nil)
	nd.Reach("failed")
	fs.crashed, fs.failAt = false, -1 // the fault was transient
	s.handleRollback(oldFile, oldOff)
	nd.Assert(s.writeCursor.curFileNum == oldFile && s.writeCursor.curOffset == oldOff, "cursor_restored_after_failed_commit")
	rawD := nd.Bytes("D", 2)
	locD, err := s.writeBlock(rawD)
	nd.Assert(err == nil, "commit_after_failed_commit_succeeds")
	if err != nil {
		return
	}
	hA, hD := common.Uint256{0xA}, common.Uint256{0xD}
	got, err := s.readBlock(&hD, locD)
	nd.Assert(err == nil && zzSame(got, rawD), "block_after_failed_commit_reads_back")
	got, err = s.readBlock(&hA, locA)
	nd.Assert(err == nil && zzSame(got, rawA), "earlier_block_reads_back_after_failed_commit")
}

// zzCommitTx: a writable transaction over a dbCache whose cached key treaps
// stand for the persisted metadata (the no-flush branch of dbCache.commitTx is
// executed for real; the flush to leveldb — batch atomicity — is assumed).
func zzCommitTx(s *blockStore, cache *dbCache) *transaction {
	tx := zzTx(s)
	tx.db.cache = cache
	tx.snapshot = &dbCacheSnapshot{pendingKeys: cache.cachedKeys, pendingRemove: cache.cachedRemove}
	return tx
}

func zzNewCache(s *blockStore) *dbCache {
	return &dbCache{store: s, maxSize: 1 << 40, flushInterval: 1 << 62, lastFlush: time.Unix(0, 0),
		cachedKeys: treap.NewImmutable(), cachedRemove: treap.NewImmutable()}
}

// ZZ_C17_commit: the same crash experiment through the real commit path
// (transaction.writePendingAndCommit -> blockStore.writeBlock, block index
// rows, write-cursor row, dbCache.commitTx). Commit 1 stores block A; commit 2
// stores B and C and either completes or stops at an arbitrary file write.
// On reopen the write cursor is the one recorded by the LAST COMPLETED commit
// (read back from the metadata exactly as reconcileDB does); every block of
// every completed commit must read back byte-for-byte through its index row.
func ZZ_C17_commit() {
	fs := zzNewFS()
	nA := nd.Choose("lenA", 2) + 1
	nB := nd.Choose("lenB", 2)
	nC := nd.Choose("lenC", 2) + 1
	raws := [][]byte{nd.Bytes("A", nA), nd.Bytes("B", nB), nd.Bytes("C", nC)}
	hashes := []common.Uint256{{0xA}, {0xB}, {0xC}}
	maxSize := uint32(1 << 20)
	switch nd.Choose("rollover", 3) {
	case 1:
		maxSize = uint32(nA) + 12
	case 2:
		maxSize = uint32(nA) + uint32(nB) + 24
	}
	s := zzStore(fs, maxSize, 0, 0)
	cache := zzNewCache(s)
	tx := zzCommitTx(s, cache)
	tx.pendingBlockData = []pendingBlock{{hash: &hashes[0], bytes: raws[0]}}
	nd.Assume(tx.writePendingAndCommit() == nil)
	committed := 1

	fs.ops = 0
	fs.failAt = nd.Choose("crashPoint", 9) - 1 // -1: commit 2 completes
	fs.partial = nd.Choose("partialBytes", 4)
	tx2 := zzCommitTx(s, cache)
	tx2.pendingBlockData = []pendingBlock{{hash: &hashes[1], bytes: raws[1]}, {hash: &hashes[2], bytes: raws[2]}}
	if tx2.writePendingAndCommit() == nil {
		committed = 3
		nd.Reach("second_commit_completed")
	} else {
		nd.Reach("second_commit_interrupted")
	}

	// reopen: metadata = the cache's key treap; files = what survived
	fs.crashed, fs.failAt = false, -1
	row := cache.cachedKeys.Get(bucketizedKey(metadataBucketID, writeLocKeyName))
	nd.Assert(row != nil, "write_cursor_row_is_persisted")
	if row == nil {
		return
	}
	pFile, pOff, err := deserializeWriteRow(row)
	nd.Assert(err == nil, "write_cursor_row_has_a_valid_checksum")
	scanFile, scanOff := zzScan(fs)
	s2 := zzStore(fs, maxSize, scanFile, scanOff)
	before := scanFile < pFile || (scanFile == pFile && scanOff < pOff)
	nd.Assert(!before, "files_never_end_before_the_persisted_cursor")
	if before {
		return
	}
	if scanFile > pFile || (scanFile == pFile && scanOff > pOff) {
		s2.handleRollback(pFile, pOff)
	}
	for i := 0; i < 3; i++ {
		locRow := cache.cachedKeys.Get(bucketizedKey(blockIdxBucketID, hashes[i][:]))
		if i < committed {
			nd.Assert(locRow != nil, "completed_commit_has_an_index_row_for_every_block")
			if locRow != nil {
				got, err := s2.readBlock(&hashes[i], deserializeBlockLoc(locRow))
				nd.Assert(err == nil && zzSame(got, raws[i]), "every_block_of_a_completed_commit_reads_back_after_reopen")
			}
		} else {
			nd.Assert(locRow == nil, "interrupted_commit_leaves_no_index_row")
		}
	}
}
