//go:build verif

package ffldb

import (
	"github.com/elastos/Elastos.ELA/common"
	"github.com/elastos/Elastos.ELA/zzverif/nd"
)

// zzScan mimics scanBlockFiles on the mock file system: the write cursor a
// freshly opened store starts from is the end of the highest-numbered file.
func zzScan(fs *zzFS) (uint32, uint32) {
	last := -1
	for n := range fs.files {
		if int(n) > last {
			last = int(n)
		}
	}
	if last < 0 {
		return 0, 0
	}
	return uint32(last), uint32(len(fs.files[uint32(last)].data))
}

func zzSame(a, b []byte) bool {
	if len(a) != len(b) {
		return false
	}
	for i := range a {
		if a[i] != b[i] {
			return false
		}
	}
	return true
}

// ZZ_C17_crash (flat-file half of the crash-safety property).
// Commit 1 stores block A completely and "persists" the write cursor and A's
// location (the metadata side — leveldb batch atomicity — is assumed).
// Commit 2 stores blocks B and C and the process stops at an arbitrary
// mutating file operation (any of the 8 WriteAt calls, with an arbitrary
// prefix of that write reaching the file), with a maximum file size that does
// or does not force a rollover inside commit 2. The database is then reopened:
// the write cursor is recovered from the files, compared with the persisted
// one and rolled back as reconcileDB does. Afterwards A must read back
// byte-for-byte, nothing of the interrupted commit may lie at or below the
// persisted cursor, and a new commit must work and read back.
func ZZ_C17_crash() {
	fs := zzNewFS()
	nA := nd.Choose("lenA", 3) + 1
	nB := nd.Choose("lenB", 3)
	nC := nd.Choose("lenC", 2)
	rawA, rawB, rawC := nd.Bytes("A", nA), nd.Bytes("B", nB), nd.Bytes("C", nC)
	maxSize := uint32(1 << 20)
	switch nd.Choose("rollover", 3) {
	case 1:
		maxSize = uint32(nA) + 12 // B goes to file 1
	case 2:
		maxSize = uint32(nA) + uint32(nB) + 24 // C goes to file 1
	}
	s := zzStore(fs, maxSize, 0, 0)
	locA, err := s.writeBlock(rawA)
	nd.Assume(err == nil)
	nd.Assume(s.syncBlocks() == nil)
	persistedFile, persistedOff := s.writeCursor.curFileNum, s.writeCursor.curOffset

	// commit 2, interrupted
	fs.ops = 0
	fs.failAt = nd.Choose("crashPoint", 9) // 0..7: a WriteAt of B or C; 8: the Sync after both
	fs.partial = nd.Choose("partialBytes", 5)
	crashed := false
	if _, err := s.writeBlock(rawB); err != nil {
		crashed = true
	}
	if !crashed {
		if _, err := s.writeBlock(rawC); err != nil {
			crashed = true
		}
	}
	if !crashed {
		if s.syncBlocks() != nil {
			crashed = true
		}
	}
	nd.Assume(crashed) // the interesting runs: the process stopped inside commit 2
	nd.Reach("crashed")

	// reopen
	fs.crashed, fs.failAt = false, -1
	scanFile, scanOff := zzScan(fs)
	s2 := zzStore(fs, maxSize, scanFile, scanOff)
	before := scanFile < persistedFile || (scanFile == persistedFile && scanOff < persistedOff)
	nd.Assert(!before, "files_never_end_before_the_persisted_cursor")
	if before {
		return
	}
	if scanFile > persistedFile || (scanFile == persistedFile && scanOff > persistedOff) {
		nd.Reach("rolled_back")
		s2.handleRollback(persistedFile, persistedOff)
	}
	nd.Assert(s2.writeCursor.curFileNum == persistedFile && s2.writeCursor.curOffset == persistedOff, "cursor_is_the_persisted_cursor_after_recovery")
	for n, f := range fs.files {
		nd.Assert(n <= persistedFile, "no_block_file_beyond_the_persisted_cursor")
		if n == persistedFile {
			nd.Assert(uint32(len(f.data)) == persistedOff, "write_file_ends_at_the_persisted_cursor")
		}
	}
	hA := common.Uint256{0xA}
	var got []byte
	nd.NoPanic("readBlock", func() { got, err = s2.readBlock(&hA, locA) })
	nd.Assert(err == nil && zzSame(got, rawA), "committed_block_reads_back_after_crash")

	// a later commit works
	rawD := nd.Bytes("D", 2)
	locD, err := s2.writeBlock(rawD)
	nd.Assert(err == nil, "later_commit_succeeds")
	if err != nil {
		return
	}
	hD := common.Uint256{0xD}
	got, err = s2.readBlock(&hD, locD)
	nd.Assert(err == nil && zzSame(got, rawD), "later_block_reads_back")
	got, err = s2.readBlock(&hA, locA)
	nd.Assert(err == nil && zzSame(got, rawA), "committed_block_still_reads_back_after_later_commit")
}

// ZZ_C17_transient: a write failure that does not stop the process (disk full,
// transient I/O error): writePendingAndCommit's rollback closure is
// handleRollback(old cursor); afterwards the store is where it was and a new
// commit works.
func ZZ_C17_transient() {
	fs := zzNewFS()
	nA := nd.Choose("lenA", 3) + 1
	nB := nd.Choose("lenB", 3)
	rawA, rawB := nd.Bytes("A", nA), nd.Bytes("B", nB)
	maxSize := uint32(1 << 20)
	if nd.Choose("rollover", 2) == 1 {
		maxSize = uint32(nA) + 12
	}
	s := zzStore(fs, maxSize, 0, 0)
	locA, err := s.writeBlock(rawA)
	nd.Assume(err == nil)
	oldFile, oldOff := s.writeCursor.curFileNum, s.writeCursor.curOffset
	fs.ops = 0
	fs.failAt = nd.Choose("failPoint", 4)
	fs.partial = nd.Choose("partialBytes", 4)
	_, err = s.writeBlock(rawB)
	nd.Assume(err != nil)
	nd.Reach("failed")
	fs.crashed, fs.failAt = false, -1 // the fault was transient
	s.handleRollback(oldFile, oldOff)
	nd.Assert(s.writeCursor.curFileNum == oldFile && s.writeCursor.curOffset == oldOff, "cursor_restored_after_failed_commit")
	rawD := nd.Bytes("D", 2)
	locD, err := s.writeBlock(rawD)
	nd.Assert(err == nil, "commit_after_failed_commit_succeeds")
	if err != nil {
		return
	}
	hA, hD := common.Uint256{0xA}, common.Uint256{0xD}
	got, err := s.readBlock(&hD, locD)
	nd.Assert(err == nil && zzSame(got, rawD), "block_after_failed_commit_reads_back")
	got, err = s.readBlock(&hA, locA)
	nd.Assert(err == nil && zzSame(got, rawA), "earlier_block_reads_back_after_failed_commit")
}
