//go:build verif

package treap

import (
	"github.com/elastos/Elastos.ELA/zzverif/nd"
)

// ghost ordered map: association list, kept by the harness
type zzEnt struct {
	k, v byte
}

type zzGhost struct{ ents []zzEnt }

func (g *zzGhost) find(k byte) int {
	for i := range g.ents {
		if g.ents[i].k == k {
			return i
		}
	}
	return -1
}
func (g *zzGhost) put(k, v byte) {
	if i := g.find(k); i >= 0 {
		g.ents[i].v = v
		return
	}
	g.ents = append(g.ents, zzEnt{k, v})
}
func (g *zzGhost) del(k byte) {
	if i := g.find(k); i >= 0 {
		g.ents = append(g.ents[:i:i], g.ents[i+1:]...)
	}
}
func (g *zzGhost) clone() *zzGhost { return &zzGhost{ents: append([]zzEnt(nil), g.ents...)} }

type zzReader interface {
	Len() int
	Size() uint64
	Has(key []byte) bool
	Get(key []byte) []byte
	ForEach(fn func(k, v []byte) bool)
}

// zzAgree: every observation of the treap equals the ghost map's answer.
func zzAgree(t zzReader, g *zzGhost, q byte, tag string) {
	nd.Assert(t.Len() == len(g.ents), tag+"_len_equals_map_size")
	nd.Assert(t.Size() == uint64(len(g.ents))*(72+2), tag+"_size_accounts_every_entry_once")
	i := g.find(q)
	nd.Assert(t.Has([]byte{q}) == (i >= 0), tag+"_has_equals_map_membership")
	v := t.Get([]byte{q})
	if i >= 0 {
		nd.Assert(len(v) == 1 && v[0] == g.ents[i].v, tag+"_get_returns_last_put_value")
	} else {
		nd.Assert(v == nil, tag+"_get_of_absent_key_is_nil")
	}
	n := 0
	prev := -1
	t.ForEach(func(k, v []byte) bool {
		nd.Assert(len(k) == 1 && int(k[0]) > prev, tag+"_foreach_is_strictly_ascending")
		prev = int(k[0])
		j := g.find(k[0])
		nd.Assert(j >= 0 && len(v) == 1 && v[0] == g.ents[j].v, tag+"_foreach_yields_only_map_entries")
		n++
		return true
	})
	nd.Assert(n == len(g.ents), tag+"_foreach_visits_every_entry")
}

func zzOps() int {
	if nd.Tier() > 0 {
		return 4
	}
	return 3
}

// ZZ_C19_mutable: after any sequence of puts and deletes with arbitrary
// one-byte keys, values and node priorities, the mutable treap answers like
// the ghost ordered map.
func ZZ_C19_mutable() {
	n := zzOps()
	nd.RandInts(n)
	t := NewMutable()
	g := &zzGhost{}
	for i := 0; i < n; i++ {
		k := nd.U8("key")
		if nd.Choose("op", 2) == 0 {
			v := nd.U8("value")
			t.Put([]byte{k}, []byte{v})
			g.put(k, v)
		} else {
			t.Delete([]byte{k})
			g.del(k)
		}
	}
	nd.Reach("built")
	zzAgree(t, g, nd.U8("query"), "mutable")
}

// ZZ_C19_immutable: every version of the immutable treap keeps answering as
// the ghost map did when that version was produced, after all later updates.
func ZZ_C19_immutable() {
	n := zzOps()
	nd.RandInts(n)
	vers := []*Immutable{NewImmutable()}
	ghosts := []*zzGhost{{}}
	for i := 0; i < n; i++ {
		k := nd.U8("key")
		cur := vers[len(vers)-1]
		g := ghosts[len(ghosts)-1].clone()
		if nd.Choose("op", 2) == 0 {
			v := nd.U8("value")
			cur = cur.Put([]byte{k}, []byte{v})
			g.put(k, v)
		} else {
			cur = cur.Delete([]byte{k})
			g.del(k)
		}
		vers = append(vers, cur)
		ghosts = append(ghosts, g)
	}
	nd.Reach("built")
	q := nd.U8("query")
	which := nd.Choose("version", len(vers))
	zzAgree(vers[which], ghosts[which], q, "immutable_version")
}

// ZZ_C19_iterator: ordered iteration with seek over a mutable treap.
func ZZ_C19_iterator() {
	n := zzOps()
	nd.RandInts(n)
	t := NewMutable()
	g := &zzGhost{}
	for i := 0; i < n; i++ {
		k := nd.U8("key")
		v := nd.U8("value")
		t.Put([]byte{k}, []byte{v})
		g.put(k, v)
	}
	if nd.Choose("thenDelete", 2) == 1 {
		k := nd.U8("delKey")
		t.Delete([]byte{k})
		g.del(k)
	}
	nd.Reach("built")
	q := nd.U8("seek")
	// expected: smallest key >= q, and the largest key
	best, last := -1, -1
	for _, e := range g.ents {
		if e.k >= q && (best < 0 || int(e.k) < best) {
			best = int(e.k)
		}
		if int(e.k) > last {
			last = int(e.k)
		}
	}
	it := t.Iterator(nil, nil)
	ok := it.Seek([]byte{q})
	nd.Assert(ok == (best >= 0), "seek_finds_iff_a_key_not_below_exists")
	if ok && best >= 0 {
		nd.Assert(len(it.Key()) == 1 && int(it.Key()[0]) == best, "seek_lands_on_smallest_key_not_below")
	}
	ok = it.Last()
	nd.Assert(ok == (last >= 0), "last_finds_iff_nonempty")
	if ok && last >= 0 {
		nd.Assert(int(it.Key()[0]) == last, "last_is_the_largest_key")
	}
	// full forward walk
	cnt, prev := 0, -1
	for ok = it.First(); ok; ok = it.Next() {
		nd.Assert(int(it.Key()[0]) > prev, "iteration_is_strictly_ascending")
		prev = int(it.Key()[0])
		j := g.find(it.Key()[0])
		nd.Assert(j >= 0 && it.Value()[0] == g.ents[j].v, "iteration_yields_only_map_entries")
		cnt++
	}
	nd.Assert(cnt == len(g.ents), "iteration_visits_every_entry")
	// full backward walk
	cnt, prev = 0, 256
	for ok = it.Last(); ok; ok = it.Prev() {
		nd.Assert(int(it.Key()[0]) < prev, "reverse_iteration_is_strictly_descending")
		prev = int(it.Key()[0])
		cnt++
	}
	nd.Assert(cnt == len(g.ents), "reverse_iteration_visits_every_entry")
}

// ZZ_C19_immutable_delete: three puts with arbitrary keys and priorities (so
// the deleted node may have two children, in any shape), then a delete: the
// version retained from before the delete still answers — including ordered
// traversal — as it did, and the new version answers like the map without the
// key.
func ZZ_C19_immutable_delete() {
	nd.RandInts(3)
	t := NewImmutable()
	g := &zzGhost{}
	for i := 0; i < 3; i++ {
		k, v := nd.U8("key"), nd.U8("value")
		t = t.Put([]byte{k}, []byte{v})
		g.put(k, v)
	}
	before, gBefore := t, g.clone()
	dk := nd.U8("deleteKey")
	after := t.Delete([]byte{dk})
	g.del(dk)
	nd.Reach("deleted")
	q := nd.U8("query")
	zzAgree(before, gBefore, q, "version_before_delete")
	zzAgree(after, g, q, "version_after_delete")
}

// ZZ_C19_range: an iterator limited to [start, limit) walks exactly the map
// entries in that range, forwards and backwards (the limit key may itself be
// stored).
func ZZ_C19_range() {
	nd.RandInts(3)
	t := NewMutable()
	g := &zzGhost{}
	for i := 0; i < 3; i++ {
		k, v := nd.U8("key"), nd.U8("value")
		t.Put([]byte{k}, []byte{v})
		g.put(k, v)
	}
	start, limit := nd.U8("start"), nd.U8("limit")
	inRange := 0
	for _, e := range g.ents {
		if e.k >= start && e.k < limit {
			inRange++
		}
	}
	it := t.Iterator([]byte{start}, []byte{limit})
	cnt, prev := 0, -1
	for ok := it.First(); ok; ok = it.Next() {
		k := it.Key()[0]
		nd.Assert(k >= start && k < limit && int(k) > prev && g.find(k) >= 0, "range_walk_yields_map_entries_in_range_ascending")
		prev = int(k)
		cnt++
	}
	nd.Assert(cnt == inRange, "range_walk_visits_every_entry_in_range")
	cnt, prev = 0, 256
	for ok := it.Last(); ok; ok = it.Prev() {
		k := it.Key()[0]
		nd.Assert(k >= start && k < limit && int(k) < prev, "reverse_range_walk_is_descending_in_range")
		prev = int(k)
		cnt++
	}
	nd.Assert(cnt == inRange, "reverse_range_walk_visits_every_entry_in_range")
	nd.Reach("walked")
}

// ZZ_C19_reseek: after the treap is updated under a positioned iterator,
// ForceReseek + Next continues with the smallest key greater than the one the
// iterator stood on.
func ZZ_C19_reseek() {
	nd.RandInts(4)
	t := NewMutable()
	g := &zzGhost{}
	for i := 0; i < 3; i++ {
		k, v := nd.U8("key"), nd.U8("value")
		t.Put([]byte{k}, []byte{v})
		g.put(k, v)
	}
	it2 := t.Iterator(nil, nil)
	pos := nd.U8("position")
	if !it2.Seek([]byte{pos}) {
		return
	}
	at := it2.Key()[0]
	nk, nv := nd.U8("newKey"), nd.U8("newValue")
	t.Put([]byte{nk}, []byte{nv})
	g.put(nk, nv)
	it2.ForceReseek()
	next := -1
	for _, e := range g.ents {
		if e.k > at && (next < 0 || int(e.k) < next) {
			next = int(e.k)
		}
	}
	ok := it2.Next()
	nd.Reach("reseeked")
	nd.Assert(ok == (next >= 0), "next_after_reseek_finds_iff_a_greater_key_exists")
	if ok && next >= 0 {
		nd.Assert(int(it2.Key()[0]) == next, "next_after_reseek_is_the_smallest_greater_key")
		// and keeps walking in order
		if it2.Next() {
			nd.Assert(int(it2.Key()[0]) > next, "walk_after_reseek_stays_ascending")
		}
	}
}
