//go:build verif

package state

import (
	"github.com/elastos/Elastos.ELA/common/config"
	"github.com/elastos/Elastos.ELA/core/types/interfaces"
)

// ZZNewCommittee: a committee that only carries its parameters, an empty CR
// state and an empty proposal manager (harnesses outside this package cannot
// set the unexported fields).
func ZZNewCommittee(params *config.Configuration) *Committee {
	c := &Committee{Params: params, state: NewState(params), manager: NewProposalManager(params), KeyFrame: *NewKeyFrame()}
	c.state.SetManager(c.manager)
	return c
}

// ZZProcessTransaction: the committee's per-transaction state update followed
// by the commit of the CR state history, as ProcessBlock does for a block.
func (c *Committee) ZZProcessTransaction(tx interfaces.Transaction, height uint32) {
	c.processTransaction(tx, height)
	c.state.History.Commit(height)
}
