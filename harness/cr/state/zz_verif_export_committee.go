//go:build verif

package state

import "github.com/elastos/Elastos.ELA/common/config"

// ZZNewCommittee: a committee that only carries its parameters and an empty
// CR state (harnesses outside this package cannot set the unexported field).
func ZZNewCommittee(params *config.Configuration) *Committee {
	return &Committee{Params: params, state: NewState(params)}
}
