//go:build verif

package state

import (
	"github.com/elastos/Elastos.ELA/common"
	common2 "github.com/elastos/Elastos.ELA/core/types/common"
	"github.com/elastos/Elastos.ELA/core/types/payload"
	"github.com/elastos/Elastos.ELA/zzverif/nd"
)

// ---- C29 ----

// ZZ_C29_step: one tracking or withdrawal step on a VoterAgreed proposal with
// 2..3 budget stages, from any bookkeeping that satisfies the representation
// invariant: the invariant is preserved; the amount made available by the
// committee (AvailableWithdrawalAmount) is exactly the withdrawable stages not
// yet withdrawn; a withdrawal marks exactly those as withdrawn, so that the
// next withdrawal gets nothing; withdrawn and withdrawable totals never exceed
// the approved budget; a stage only becomes withdrawable through a Progress
// tracking of that stage or the Finalized tracking of the final payment.
func ZZ_C29_step() {
	c := zzCommittee(zzCRConfig())
	p := zzProposalShaped(c, nd.Choose("stages", 2)+2, VoterAgreed, true)
	nd.Assert(zzInvariant(p), "harness_pre_state_satisfies_the_invariant")
	var total common.Fixed64
	for _, b := range p.Proposal.Budgets {
		total += b.Amount
	}
	withdrawnBefore := zzSum(p.WithdrawnBudgets)
	availableBefore := c.AvailableWithdrawalAmount(zzPH)
	nd.Assert(availableBefore == zzSum(p.WithdrawableBudgets)-withdrawnBefore, "available_amount_is_withdrawable_minus_withdrawn")
	was := zzCopyProposal(p)

	c.state.History.Commit(zzH - 1)
	if nd.Bool("withdraw") {
		tx := &zzCRTx{typ: common2.CRCProposalWithdraw, id: common.Uint256{0x29, 1}, ver: payload.CRCProposalWithdrawVersion01,
			pld: &payload.CRCProposalWithdraw{ProposalHash: zzPH, OwnerKey: p.ProposalOwner, Recipient: p.Recipient, Amount: availableBefore}}
		nd.NoPanic("process", func() { c.processTransaction(tx, zzH); c.state.History.Commit(zzH) })
		nd.Reach("withdrawn")
		nd.Assert(zzSum(p.WithdrawnBudgets) == withdrawnBefore+availableBefore, "a_withdrawal_marks_exactly_the_paid_amount_as_withdrawn")
		nd.Assert(c.AvailableWithdrawalAmount(zzPH) == 0, "nothing_is_available_after_a_withdrawal")
		nd.Assert(zzEqBudgetAmounts(p.WithdrawableBudgets, was.withdrawable), "a_withdrawal_makes_no_stage_withdrawable")
	} else {
		tx, tt := zzTracking(p)
		stage := tx.pld.(*payload.CRCProposalTracking).Stage
		nd.NoPanic("process", func() { c.processTransaction(tx, zzH); c.state.History.Commit(zzH) })
		nd.Reach("tracked")
		nd.Assert(zzEqBudgetAmounts(p.WithdrawnBudgets, was.withdrawn), "tracking_withdraws_nothing")
		for k := range p.WithdrawableBudgets {
			if _, before := was.withdrawable[k]; !before {
				nd.Assert((tt == payload.Progress && k == stage) || (tt == payload.Finalized && zzIsFinalStage(p, k)),
					"a_stage_becomes_withdrawable_only_by_its_progress_tracking_or_finalization")
			}
		}
		for k := range was.withdrawable {
			_, still := p.WithdrawableBudgets[k]
			nd.Assert(still, "a_withdrawable_stage_stays_withdrawable")
		}
	}
	nd.Assert(zzInvariant(p), "invariant_is_preserved")
	nd.Assert(zzSum(p.WithdrawnBudgets) <= zzSum(p.WithdrawableBudgets) && zzSum(p.WithdrawableBudgets) <= total, "withdrawn_le_withdrawable_le_approved_budget")
}

func zzIsFinalStage(p *ProposalState, k uint8) bool {
	for _, b := range p.Proposal.Budgets {
		if b.Stage == k {
			return b.Type == payload.FinalPayment
		}
	}
	return false
}

// zzCommitted: what the committee has set aside for a proposal: the whole
// budget while it is registered, agreed or running; after it has finished or
// been terminated only the stages that became withdrawable (the others were
// handed back); nothing once it is cancelled or aborted.
func zzCommitted(p *ProposalState) (sum common.Fixed64) {
	switch p.Status {
	case Registered, CRAgreed, VoterAgreed:
		for _, b := range p.Proposal.Budgets {
			sum += b.Amount
		}
	case Finished, Terminated:
		for _, b := range p.Proposal.Budgets {
			if _, ok := p.WithdrawableBudgets[b.Stage]; ok {
				sum += b.Amount
			}
		}
	}
	return
}

// ZZ_C29_accounting: the committee's used amount moves exactly with what is
// set aside for proposals. One step — a tracking transaction of any type on a
// running proposal, or the per-block proposal update for seven proposal types
// in every outcome (including a close-proposal whose target is running,
// finished or terminated) — changes CRCCommitteeUsedAmount by exactly the
// change of the sum of zzCommitted over the proposals, so budget is never
// handed back twice and never kept after a proposal ended.
func ZZ_C29_accounting() {
	var c *Committee
	var ps []*ProposalState
	var step func()
	if nd.Bool("trackingStep") {
		c = zzCommittee(zzCRConfig())
		p := zzProposalShaped(c, nd.Choose("stages", 2)+2, VoterAgreed, true)
		tx, _ := zzTracking(p)
		ps = []*ProposalState{p}
		step = func() { c.processTransaction(tx, zzH); c.state.History.Commit(zzH) }
		c.state.History.Commit(zzH - 1)
	} else {
		var p, target *ProposalState
		var inElection bool
		c, p, target, _, inElection = zzUpdateScenario()
		ps = []*ProposalState{p, target}
		step = func() { c.updateProposals(zzH, inElection) }
		c.manager.history.Commit(zzH - 1)
	}
	used := c.CRCCommitteeUsedAmount
	var before, after common.Fixed64
	for _, p := range ps {
		before += zzCommitted(p)
	}
	nd.NoPanic("process", step)
	nd.Reach("processed")
	for _, p := range ps {
		after += zzCommitted(p)
	}
	nd.Assert(c.CRCCommitteeUsedAmount-used == after-before, "used_amount_moves_exactly_with_the_budget_set_aside")
}
