//go:build verif

package state

import (
	"github.com/elastos/Elastos.ELA/common"
	common2 "github.com/elastos/Elastos.ELA/core/types/common"
	"github.com/elastos/Elastos.ELA/core/types/payload"
	"github.com/elastos/Elastos.ELA/zzverif/nd"
)

// ---- C29 ----

// ZZ_C29_step: one tracking or withdrawal step on a VoterAgreed proposal with
// 2..3 budget stages, from any bookkeeping that satisfies the representation
// invariant: the invariant is preserved; the amount made available by the
// committee (AvailableWithdrawalAmount) is exactly the withdrawable stages not
// yet withdrawn; a withdrawal marks exactly those as withdrawn, so that the
// next withdrawal gets nothing; withdrawn and withdrawable totals never exceed
// the approved budget; a stage only becomes withdrawable through a Progress
// tracking of that stage or the Finalized tracking of the final payment.
func ZZ_C29_step() {
	c := zzCommittee(zzCRConfig())
	p := zzProposal(c, nd.Choose("stages", 2)+2, VoterAgreed)
	nd.Assert(zzInvariant(p), "harness_pre_state_satisfies_the_invariant")
	var total common.Fixed64
	for _, b := range p.Proposal.Budgets {
		total += b.Amount
	}
	withdrawnBefore := zzSum(p.WithdrawnBudgets)
	availableBefore := c.AvailableWithdrawalAmount(zzPH)
	nd.Assert(availableBefore == zzSum(p.WithdrawableBudgets)-withdrawnBefore, "available_amount_is_withdrawable_minus_withdrawn")
	was := zzCopyProposal(p)

	c.state.History.Commit(zzH - 1)
	if nd.Bool("withdraw") {
		tx := &zzCRTx{typ: common2.CRCProposalWithdraw, id: common.Uint256{0x29, 1}, ver: payload.CRCProposalWithdrawVersion01,
			pld: &payload.CRCProposalWithdraw{ProposalHash: zzPH, OwnerKey: p.ProposalOwner, Recipient: p.Recipient, Amount: availableBefore}}
		nd.NoPanic("process", func() { c.processTransaction(tx, zzH); c.state.History.Commit(zzH) })
		nd.Reach("withdrawn")
		nd.Assert(zzSum(p.WithdrawnBudgets) == withdrawnBefore+availableBefore, "a_withdrawal_marks_exactly_the_paid_amount_as_withdrawn")
		nd.Assert(c.AvailableWithdrawalAmount(zzPH) == 0, "nothing_is_available_after_a_withdrawal")
		nd.Assert(zzEqBudgetAmounts(p.WithdrawableBudgets, was.withdrawable), "a_withdrawal_makes_no_stage_withdrawable")
	} else {
		tx, tt := zzTracking(p)
		stage := tx.pld.(*payload.CRCProposalTracking).Stage
		nd.NoPanic("process", func() { c.processTransaction(tx, zzH); c.state.History.Commit(zzH) })
		nd.Reach("tracked")
		nd.Assert(zzEqBudgetAmounts(p.WithdrawnBudgets, was.withdrawn), "tracking_withdraws_nothing")
		for k := range p.WithdrawableBudgets {
			if _, before := was.withdrawable[k]; !before {
				nd.Assert((tt == payload.Progress && k == stage) || (tt == payload.Finalized && int(k) == len(p.Proposal.Budgets)-1),
					"a_stage_becomes_withdrawable_only_by_its_progress_tracking_or_finalization")
			}
		}
		for k := range was.withdrawable {
			_, still := p.WithdrawableBudgets[k]
			nd.Assert(still, "a_withdrawable_stage_stays_withdrawable")
		}
	}
	nd.Assert(zzInvariant(p), "invariant_is_preserved")
	nd.Assert(zzSum(p.WithdrawnBudgets) <= zzSum(p.WithdrawableBudgets) && zzSum(p.WithdrawableBudgets) <= total, "withdrawn_le_withdrawable_le_approved_budget")
}
