//go:build verif

package state

import (
	"bytes"

	"github.com/elastos/Elastos.ELA/common"
	"github.com/elastos/Elastos.ELA/common/config"
	pg "github.com/elastos/Elastos.ELA/core/contract/program"
	common2 "github.com/elastos/Elastos.ELA/core/types/common"
	"github.com/elastos/Elastos.ELA/core/types/interfaces"
	"github.com/elastos/Elastos.ELA/core/types/payload"
	"github.com/elastos/Elastos.ELA/utils"
	"github.com/elastos/Elastos.ELA/zzverif/nd"
)

// zzCRTx: the committee reads only these members of a transaction (this
// package cannot import core/transaction).
type zzCRTx struct {
	interfaces.Transaction
	typ   common2.TxType
	ver   byte
	txver common2.TransactionVersion
	pld   interfaces.Payload
	id    common.Uint256
	ins   []*common2.Input
	outs  []*common2.Output
	progs []*pg.Program
}

func (t *zzCRTx) TxType() common2.TxType              { return t.typ }
func (t *zzCRTx) Version() common2.TransactionVersion { return t.txver }
func (t *zzCRTx) PayloadVersion() byte                { return t.ver }
func (t *zzCRTx) Payload() interfaces.Payload         { return t.pld }
func (t *zzCRTx) Hash() common.Uint256                { return t.id }
func (t *zzCRTx) Inputs() []*common2.Input            { return t.ins }
func (t *zzCRTx) Outputs() []*common2.Output          { return t.outs }
func (t *zzCRTx) Programs() []*pg.Program             { return t.progs }
func (t *zzCRTx) IsCRCProposalTx() bool               { return t.typ == common2.CRCProposal }
func (t *zzCRTx) IsCRCProposalWithdrawTx() bool       { return t.typ == common2.CRCProposalWithdraw }

const zzH = 100 // the height of the block that is processed (and rolled back)

var (
	zzAssetsHash   = common.Uint168{0x1c, 0xA5}
	zzExpensesHash = common.Uint168{0x1c, 0xE8}
	zzDestroyHash  = common.Uint168{0x00, 0xDE}
)

func zzCRConfig() *config.Configuration {
	cfg := &config.Configuration{MinTransactionFee: 100}
	cfg.CRConfiguration.CRAssetsProgramHash = &zzAssetsHash
	cfg.CRConfiguration.CRExpensesProgramHash = &zzExpensesHash
	cfg.DestroyELAProgramHash = &zzDestroyHash
	cfg.CRConfiguration.DepositLockupBlocks = 10
	cfg.CRConfiguration.MaxCommitteeProposalCount = 128
	cfg.CrossChainMonitorStartHeight = 0xffffffff
	return cfg
}

// zzCommittee: a committee with empty key frames and fresh histories, as
// NewCommittee builds it (without the checkpoint manager registration).
func zzCommittee(cfg *config.Configuration) *Committee {
	c := &Committee{
		state:                NewState(cfg),
		Params:               cfg,
		KeyFrame:             *NewKeyFrame(),
		manager:              NewProposalManager(cfg),
		firstHistory:         utils.NewHistory(maxHistoryCapacity),
		inactiveCRHistory:    utils.NewHistory(maxHistoryCapacity),
		committeeHistory:     utils.NewHistory(maxHistoryCapacity),
		appropriationHistory: utils.NewHistory(maxHistoryCapacity),
	}
	c.state.SetManager(c.manager)
	c.state.getHistoryMember = c.getHistoryMember
	return c
}

// zzCRAmount: an amount in [0, 2^60]
func zzCRAmount(name string) common.Fixed64 {
	v := common.Fixed64(nd.U64(name))
	nd.Assume(uint64(v) <= 1<<60)
	return v
}

// zzCRKey: a syntactically valid compressed public key (not necessarily on
// the curve: the committee bookkeeping never decodes it) and its standard code
func zzCRKey(i int) []byte {
	b := make([]byte, 33)
	b[0] = 2
	b[32] = byte(i + 1)
	return b
}

func zzCRCode(i int) []byte {
	return append(append([]byte{33}, zzCRKey(i)...), common.STANDARD)
}

// ---- field-wise equality of the three key frames (the serialized
// checkpoint iterates Go maps, so its bytes are compared as sets of entries) ----

func zzEqInfo(a, b *payload.CRInfo) bool {
	return bytes.Equal(a.Code, b.Code) && a.CID == b.CID && a.DID == b.DID && a.NickName == b.NickName &&
		a.Url == b.Url && a.Location == b.Location && bytes.Equal(a.Signature, b.Signature)
}

func zzEqCandidate(a, b *Candidate) bool {
	return zzEqInfo(&a.Info, &b.Info) && a.State == b.State && a.Votes == b.Votes &&
		a.RegisterHeight == b.RegisterHeight && a.CancelHeight == b.CancelHeight && a.DepositHash == b.DepositHash
}

func zzEqMember(a, b *CRMember) bool {
	return zzEqInfo(&a.Info, &b.Info) && a.ImpeachmentVotes == b.ImpeachmentVotes && a.DepositHash == b.DepositHash &&
		a.MemberState == b.MemberState && bytes.Equal(a.DPOSPublicKey, b.DPOSPublicKey) && a.InactiveSince == b.InactiveSince &&
		a.ActivateRequestHeight == b.ActivateRequestHeight && a.PenaltyBlockCount == b.PenaltyBlockCount &&
		a.InactiveCount == b.InactiveCount && a.InactiveCountingHeight == b.InactiveCountingHeight &&
		a.InactiveCountV2 == b.InactiveCountV2 && a.WorkedInRound == b.WorkedInRound
}

func zzEqCandidates(a, b map[common.Uint168]*Candidate) bool {
	if len(a) != len(b) {
		return false
	}
	for k, v := range a {
		w, ok := b[k]
		if !ok || !zzEqCandidate(v, w) {
			return false
		}
	}
	return true
}

func zzEqMembers(a, b map[common.Uint168]*CRMember) bool {
	if len(a) != len(b) {
		return false
	}
	for k, v := range a {
		w, ok := b[k]
		if !ok || !zzEqMember(v, w) {
			return false
		}
	}
	return true
}

func zzEqStringSet(a, b map[string]struct{}) bool {
	if len(a) != len(b) {
		return false
	}
	for k := range a {
		if _, ok := b[k]; !ok {
			return false
		}
	}
	return true
}

func zzEqAmounts(a, b map[string]common.Fixed64) bool {
	if len(a) != len(b) {
		return false
	}
	for k, v := range a {
		if w, ok := b[k]; !ok || v != w {
			return false
		}
	}
	return true
}

func zzEqVotes(a, b map[common.Uint168][]payload.VotesWithLockTime) bool {
	if len(a) != len(b) {
		return false
	}
	for k, v := range a {
		w, ok := b[k]
		if !ok || len(v) != len(w) {
			return false
		}
		for i := range v {
			if !bytes.Equal(v[i].Candidate, w[i].Candidate) || v[i].Votes != w[i].Votes || v[i].LockTime != w[i].LockTime {
				return false
			}
		}
	}
	return true
}

// zzAssertSameState: every member of the CR state frame equals the snapshot
func zzAssertSameState(now, was *StateKeyFrame) {
	okCode := len(now.CodeCIDMap) == len(was.CodeCIDMap)
	for k, v := range was.CodeCIDMap {
		if w, ok := now.CodeCIDMap[k]; !ok || w != v {
			okCode = false
		}
	}
	nd.Assert(okCode, "rollback_restores_CodeCIDMap")
	okDep := len(now.DepositHashCIDMap) == len(was.DepositHashCIDMap)
	for k, v := range was.DepositHashCIDMap {
		if w, ok := now.DepositHashCIDMap[k]; !ok || w != v {
			okDep = false
		}
	}
	nd.Assert(okDep, "rollback_restores_DepositHashCIDMap")
	nd.Assert(zzEqCandidates(now.Candidates, was.Candidates), "rollback_restores_Candidates")
	okHist := len(now.HistoryCandidates) == len(was.HistoryCandidates)
	for k, v := range was.HistoryCandidates {
		if w, ok := now.HistoryCandidates[k]; !ok || !zzEqCandidates(v, w) {
			okHist = false
		}
	}
	nd.Assert(okHist, "rollback_restores_HistoryCandidates")
	okInfo := len(now.DepositInfo) == len(was.DepositInfo)
	for k, v := range was.DepositInfo {
		if w, ok := now.DepositInfo[k]; !ok || *w != *v {
			okInfo = false
		}
	}
	nd.Assert(okInfo, "rollback_restores_DepositInfo")
	nd.Assert(now.CurrentSession == was.CurrentSession, "rollback_restores_CurrentSession")
	nd.Assert(zzEqStringSet(now.Nicknames, was.Nicknames), "rollback_restores_Nicknames")
	nd.Assert(zzEqStringSet(now.Votes, was.Votes), "rollback_restores_Votes")
	nd.Assert(zzEqAmounts(now.DepositOutputs, was.DepositOutputs), "rollback_restores_DepositOutputs")
	nd.Assert(zzEqAmounts(now.CRCFoundationOutputs, was.CRCFoundationOutputs), "rollback_restores_CRCFoundationOutputs")
	nd.Assert(zzEqAmounts(now.CRCCommitteeOutputs, was.CRCCommitteeOutputs), "rollback_restores_CRCCommitteeOutputs")
	nd.Assert(zzEqVotes(now.UsedCRVotes, was.UsedCRVotes), "rollback_restores_UsedCRVotes")
	nd.Assert(zzEqVotes(now.UsedCRImpeachmentVotes, was.UsedCRImpeachmentVotes), "rollback_restores_UsedCRImpeachmentVotes")
	nd.Assert(zzEqVotes(now.UsedCRCProposalVotes, was.UsedCRCProposalVotes), "rollback_restores_UsedCRCProposalVotes")
}

// zzAssertSameCommittee: every member of the committee frame equals the snapshot
func zzAssertSameCommittee(now, was *KeyFrame) {
	nd.Assert(zzEqMembers(now.Members, was.Members), "rollback_restores_Members")
	nd.Assert(zzEqMembers(now.NextMembers, was.NextMembers), "rollback_restores_NextMembers")
	nd.Assert(zzEqStringSet(now.ClaimedDPoSKeys, was.ClaimedDPoSKeys), "rollback_restores_ClaimedDPoSKeys")
	nd.Assert(zzEqStringSet(now.NextClaimedDPoSKeys, was.NextClaimedDPoSKeys), "rollback_restores_NextClaimedDPoSKeys")
	nd.Assert(now.LastCommitteeHeight == was.LastCommitteeHeight && now.LastVotingStartHeight == was.LastVotingStartHeight &&
		now.InElectionPeriod == was.InElectionPeriod && now.NeedAppropriation == was.NeedAppropriation &&
		now.NeedRecordProposalResult == was.NeedRecordProposalResult, "rollback_restores_committee_heights_and_flags")
	nd.Assert(now.CRCFoundationBalance == was.CRCFoundationBalance, "rollback_restores_CRCFoundationBalance")
	nd.Assert(now.CRCCommitteeBalance == was.CRCCommitteeBalance, "rollback_restores_CRCCommitteeBalance")
	nd.Assert(now.CRCCommitteeUsedAmount == was.CRCCommitteeUsedAmount, "rollback_restores_CRCCommitteeUsedAmount")
	nd.Assert(now.CRCCurrentStageAmount == was.CRCCurrentStageAmount && now.DestroyedAmount == was.DestroyedAmount &&
		now.CirculationAmount == was.CirculationAmount && now.AppropriationAmount == was.AppropriationAmount &&
		now.CommitteeUsedAmount == was.CommitteeUsedAmount, "rollback_restores_committee_amounts")
	nd.Assert(now.CRAssetsAddressUTXOCount == was.CRAssetsAddressUTXOCount, "rollback_restores_CRAssetsAddressUTXOCount")
	nd.Assert(now.CurrentWithdrawFromSideChainIndex == was.CurrentWithdrawFromSideChainIndex &&
		zzEqStringSet(now.CurrentSignedWithdrawFromSideChainKeys, was.CurrentSignedWithdrawFromSideChainKeys), "rollback_restores_withdraw_monitor")
}

func zzEqBudgetAmounts(a, b map[uint8]common.Fixed64) bool {
	if len(a) != len(b) {
		return false
	}
	for k, v := range a {
		if w, ok := b[k]; !ok || v != w {
			return false
		}
	}
	return true
}

func zzEqBudgetStatus(a, b map[uint8]BudgetStatus) bool {
	if len(a) != len(b) {
		return false
	}
	for k, v := range a {
		if w, ok := b[k]; !ok || v != w {
			return false
		}
	}
	return true
}

// zzProposalCopy: the fields of a proposal state the committee changes after
// registration (the proposal itself is immutable)
type zzProposalCopy struct {
	status                    ProposalStatus
	reject                    common.Fixed64
	registerHeight, voteStart uint32
	withdrawn, withdrawable   map[uint8]common.Fixed64
	budgets                   map[uint8]BudgetStatus
	finalPayment              bool
	trackingCount             uint8
	terminatedHeight          uint32
	owner                     []byte
	recipient                 common.Uint168
	votes                     map[common.Uint168]payload.VoteResult
}

func zzCopyProposal(p *ProposalState) *zzProposalCopy {
	c := &zzProposalCopy{status: p.Status, reject: p.VotersRejectAmount, registerHeight: p.RegisterHeight, voteStart: p.VoteStartHeight,
		withdrawn: map[uint8]common.Fixed64{}, withdrawable: map[uint8]common.Fixed64{}, budgets: map[uint8]BudgetStatus{},
		finalPayment: p.FinalPaymentStatus, trackingCount: p.TrackingCount, terminatedHeight: p.TerminatedHeight,
		owner: append([]byte{}, p.ProposalOwner...), recipient: p.Recipient, votes: map[common.Uint168]payload.VoteResult{}}
	for k, v := range p.WithdrawnBudgets {
		c.withdrawn[k] = v
	}
	for k, v := range p.WithdrawableBudgets {
		c.withdrawable[k] = v
	}
	for k, v := range p.BudgetsStatus {
		c.budgets[k] = v
	}
	for k, v := range p.CRVotes {
		c.votes[k] = v
	}
	return c
}

func zzAssertSameProposal(p *ProposalState, was *zzProposalCopy) {
	nd.Assert(p.Status == was.status, "rollback_restores_proposal_Status")
	nd.Assert(p.VotersRejectAmount == was.reject, "rollback_restores_proposal_VotersRejectAmount")
	nd.Assert(p.RegisterHeight == was.registerHeight && p.VoteStartHeight == was.voteStart, "rollback_restores_proposal_heights")
	nd.Assert(zzEqBudgetAmounts(p.WithdrawnBudgets, was.withdrawn), "rollback_restores_proposal_WithdrawnBudgets")
	nd.Assert(zzEqBudgetAmounts(p.WithdrawableBudgets, was.withdrawable), "rollback_restores_proposal_WithdrawableBudgets")
	nd.Assert(zzEqBudgetStatus(p.BudgetsStatus, was.budgets), "rollback_restores_proposal_BudgetsStatus")
	nd.Assert(p.FinalPaymentStatus == was.finalPayment, "rollback_restores_proposal_FinalPaymentStatus")
	nd.Assert(p.TrackingCount == was.trackingCount, "rollback_restores_proposal_TrackingCount")
	nd.Assert(p.TerminatedHeight == was.terminatedHeight, "rollback_restores_proposal_TerminatedHeight")
	nd.Assert(bytes.Equal(p.ProposalOwner, was.owner) && p.Recipient == was.recipient, "rollback_restores_proposal_owner_and_recipient")
	okVotes := len(p.CRVotes) == len(was.votes)
	for k, v := range was.votes {
		if w, ok := p.CRVotes[k]; !ok || w != v {
			okVotes = false
		}
	}
	nd.Assert(okVotes, "rollback_restores_proposal_CRVotes")
}

// zzManagerCopy: the proposal frame members other than the proposals themselves
type zzManagerCopy struct {
	proposals    int
	hashes       map[common.Uint168]int
	sessions     map[uint64]int
	withdrawable map[common.Uint256]common2.OutputInfo
	pending      map[string]struct{}
	reserved     bool
	secretary    string
	reservedIDs  []string
	receivedIDs  []string
	names        []string
	magics       []uint32
	genesis      []common.Uint256
	sideChains   map[uint32]int
}

func zzCopyManager(m *ProposalManager) *zzManagerCopy {
	c := &zzManagerCopy{proposals: len(m.Proposals), hashes: map[common.Uint168]int{}, sessions: map[uint64]int{},
		withdrawable: map[common.Uint256]common2.OutputInfo{}, pending: map[string]struct{}{}, reserved: m.ReservedCustomID}
	for k, v := range m.ProposalHashes {
		c.hashes[k] = len(v)
	}
	for k, v := range m.ProposalSession {
		c.sessions[k] = len(v)
	}
	for k, v := range m.WithdrawableTxInfo {
		c.withdrawable[k] = v
	}
	for k := range m.PendingReceivedCustomIDMap {
		c.pending[k] = struct{}{}
	}
	c.secretary = m.SecretaryGeneralPublicKey
	c.reservedIDs = append([]string{}, m.ReservedCustomIDLists...)
	c.receivedIDs = append([]string{}, m.ReceivedCustomIDLists...)
	c.names = append([]string{}, m.RegisteredSideChainNames...)
	c.magics = append([]uint32{}, m.RegisteredMagicNumbers...)
	c.genesis = append([]common.Uint256{}, m.RegisteredGenesisHashes...)
	c.sideChains = map[uint32]int{}
	for k, v := range m.RegisteredSideChainPayloadInfo {
		c.sideChains[k] = len(v)
	}
	return c
}

func zzEqStrings(a, b []string) bool {
	if len(a) != len(b) {
		return false
	}
	for i := range a {
		if a[i] != b[i] {
			return false
		}
	}
	return true
}

func zzAssertSameManager(m *ProposalManager, was *zzManagerCopy) {
	nd.Assert(len(m.Proposals) == was.proposals, "rollback_restores_Proposals")
	okH := len(m.ProposalHashes) == len(was.hashes)
	for k, n := range was.hashes {
		if v, ok := m.ProposalHashes[k]; !ok || len(v) != n {
			okH = false
		}
	}
	nd.Assert(okH, "rollback_restores_ProposalHashes")
	okS := len(m.ProposalSession) == len(was.sessions)
	for k, n := range was.sessions {
		if v, ok := m.ProposalSession[k]; !ok || len(v) != n {
			okS = false
		}
	}
	nd.Assert(okS, "rollback_restores_ProposalSession")
	okW := len(m.WithdrawableTxInfo) == len(was.withdrawable)
	for k, v := range was.withdrawable {
		if w, ok := m.WithdrawableTxInfo[k]; !ok || w != v {
			okW = false
		}
	}
	nd.Assert(okW, "rollback_restores_WithdrawableTxInfo")
	nd.Assert(zzEqStringSet(m.PendingReceivedCustomIDMap, was.pending), "rollback_restores_PendingReceivedCustomIDMap")
	nd.Assert(m.ReservedCustomID == was.reserved, "rollback_restores_ReservedCustomID")
	nd.Assert(m.SecretaryGeneralPublicKey == was.secretary, "rollback_restores_SecretaryGeneralPublicKey")
	nd.Assert(zzEqStrings(m.ReservedCustomIDLists, was.reservedIDs), "rollback_restores_ReservedCustomIDLists")
	nd.Assert(zzEqStrings(m.ReceivedCustomIDLists, was.receivedIDs), "rollback_restores_ReceivedCustomIDLists")
	nd.Assert(zzEqStrings(m.RegisteredSideChainNames, was.names), "rollback_restores_RegisteredSideChainNames")
	okM := len(m.RegisteredMagicNumbers) == len(was.magics) && len(m.RegisteredGenesisHashes) == len(was.genesis)
	if okM {
		for i := range was.magics {
			okM = okM && m.RegisteredMagicNumbers[i] == was.magics[i]
		}
		for i := range was.genesis {
			okM = okM && m.RegisteredGenesisHashes[i] == was.genesis[i]
		}
	}
	nd.Assert(okM, "rollback_restores_registered_magic_numbers_and_genesis_hashes")
	okSC := len(m.RegisteredSideChainPayloadInfo) == len(was.sideChains)
	for k, n := range was.sideChains {
		if v, ok := m.RegisteredSideChainPayloadInfo[k]; !ok || len(v) != n {
			okSC = false
		}
	}
	nd.Assert(okSC, "rollback_restores_RegisteredSideChainPayloadInfo")
}
