//go:build verif

package state

import (
	"github.com/elastos/Elastos.ELA/common"
	common2 "github.com/elastos/Elastos.ELA/core/types/common"
	"github.com/elastos/Elastos.ELA/core/types/payload"
	"github.com/elastos/Elastos.ELA/zzverif/nd"
)

var zzPH = common.Uint256{0x99, 0x01}

// zzProposal: a proposal with n budget stages 0..n-1 (stage 0 the imprest, the
// last one the final payment, normal payments between, as the registration
// check demands) of arbitrary amounts in [0, 2^60], registered in c under
// zzPH with the given status, and an arbitrary bookkeeping that satisfies the
// representation invariant
//
//	withdrawn ⊆ withdrawable ⊆ stages, each with the amount of its stage;
//	while the proposal is VoterAgreed the final payment is not withdrawable
//	and FinalPaymentStatus is false
//
// (ZZ_C29_step shows that every tracking / withdrawal step preserves it).
func zzProposal(c *Committee, n int, status ProposalStatus) *ProposalState {
	p := &ProposalState{Status: status, CRVotes: map[common.Uint168]payload.VoteResult{},
		WithdrawnBudgets: map[uint8]common.Fixed64{}, WithdrawableBudgets: map[uint8]common.Fixed64{}, BudgetsStatus: map[uint8]BudgetStatus{},
		ProposalOwner: zzCRKey(3), Recipient: common.Uint168{0x21, 0x4E}, TrackingCount: nd.U8("trackingCount"),
		TerminatedHeight: 0, RegisterHeight: nd.U32("registerHeight"), VoteStartHeight: nd.U32("voteStartHeight"),
		TxHash: common.Uint256{0x77}}
	p.Proposal.Hash = zzPH
	p.Proposal.ProposalType = payload.Normal
	p.Proposal.OwnerPublicKey = zzCRKey(3)
	p.Proposal.Recipient = p.Recipient
	nd.Assume(p.TrackingCount < 128)
	for i := 0; i < n; i++ {
		b := payload.Budget{Stage: byte(i), Type: payload.NormalPayment, Amount: zzCRAmount("budgetAmount")}
		if i == 0 {
			b.Type = payload.Imprest
		} else if i == n-1 {
			b.Type = payload.FinalPayment
		}
		p.Proposal.Budgets = append(p.Proposal.Budgets, b)
		bs := BudgetStatus(nd.U8("budgetStatus"))
		nd.Assume(bs <= Closed)
		p.BudgetsStatus[b.Stage] = bs
		final := b.Type == payload.FinalPayment
		// nothing is withdrawable before the public vote has agreed
		if status != Registered && status != CRAgreed && (!final || status != VoterAgreed) && nd.Bool("stageWithdrawable") {
			p.WithdrawableBudgets[b.Stage] = b.Amount
			if nd.Bool("stageWithdrawn") {
				p.WithdrawnBudgets[b.Stage] = b.Amount
			}
		}
	}
	if status != VoterAgreed {
		p.FinalPaymentStatus = nd.Bool("finalPaymentStatus")
	}
	c.manager.Proposals[zzPH] = p
	return p
}

func zzSum(m map[uint8]common.Fixed64) (s common.Fixed64) {
	for _, v := range m {
		s += v
	}
	return
}

// zzInvariant: the representation invariant of zzProposal
func zzInvariant(p *ProposalState) bool {
	ok := true
	stageAmount := map[uint8]common.Fixed64{}
	var finalStage uint8
	for _, b := range p.Proposal.Budgets {
		stageAmount[b.Stage] = b.Amount
		if b.Type == payload.FinalPayment {
			finalStage = b.Stage
		}
	}
	for k, v := range p.WithdrawableBudgets {
		if a, in := stageAmount[k]; !in || a != v {
			ok = false
		}
	}
	for k, v := range p.WithdrawnBudgets {
		if a, in := p.WithdrawableBudgets[k]; !in || a != v {
			ok = false
		}
	}
	if p.Status == VoterAgreed {
		if _, in := p.WithdrawableBudgets[finalStage]; in || p.FinalPaymentStatus {
			ok = false
		}
	}
	return ok
}

// zzTracking: a tracking transaction of arbitrary type and stage that meets
// what CRCProposalTrackingTransaction.SpecialContextCheck demands of the
// stage (proposal VoterAgreed; Progress / Rejected: a stage of the proposal
// that is not withdrawable yet, Progress only for a normal payment;
// Terminated: stage 0; Finalized: the final stage)
func zzTracking(p *ProposalState) (*zzCRTx, payload.CRCProposalTrackingType) {
	n := len(p.Proposal.Budgets)
	tt := payload.CRCProposalTrackingType(nd.Choose("trackingType", 6))
	stage := nd.U8("stage")
	_, withdrawable := p.WithdrawableBudgets[stage]
	switch tt {
	case payload.Progress:
		nd.Assume(int(stage) < n && !withdrawable && p.Proposal.Budgets[stage].Type == payload.NormalPayment)
	case payload.Rejected:
		nd.Assume(int(stage) < n && !withdrawable)
	case payload.Terminated:
		nd.Assume(stage == 0)
	case payload.Finalized:
		nd.Assume(int(stage) == n-1)
	}
	return &zzCRTx{typ: common2.CRCProposalTracking, id: common.Uint256{0x22, 0x10}, pld: &payload.CRCProposalTracking{
		ProposalHash: zzPH, Stage: stage, ProposalTrackingType: tt, OwnerKey: p.ProposalOwner, NewOwnerKey: zzCRKey(4)}}, tt
}

