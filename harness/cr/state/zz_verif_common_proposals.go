//go:build verif

package state

import (
	"github.com/elastos/Elastos.ELA/common"
	common2 "github.com/elastos/Elastos.ELA/core/types/common"
	"github.com/elastos/Elastos.ELA/core/types/payload"
	"github.com/elastos/Elastos.ELA/zzverif/nd"
)

var zzPH = common.Uint256{0x99, 0x01}

// zzProposal: a proposal with n budget stages (an imprest at stage 0 or none,
// the last one the final payment, normal payments between, listed in either
// order, as the registration check admits) of arbitrary amounts in [0, 2^60],
// registered in c under
// zzPH with the given status, and an arbitrary bookkeeping that satisfies the
// representation invariant
//
//	withdrawn ⊆ withdrawable ⊆ stages, each with the amount of its stage;
//	while the proposal is VoterAgreed the final payment is not withdrawable
//	and FinalPaymentStatus is false
//
// (ZZ_C29_step shows that every tracking / withdrawal step preserves it).
func zzProposal(c *Committee, n int, status ProposalStatus) *ProposalState {
	return zzProposalShaped(c, n, status, nd.Tier() > 0)
}

// zzProposalShaped: as zzProposal; the budget list takes the unusual shapes
// (no imprest, descending order) only when freeShape is set (C29 harnesses and
// the thorough tier)
func zzProposalShaped(c *Committee, n int, status ProposalStatus, freeShape bool) *ProposalState {
	p := &ProposalState{Status: status, CRVotes: map[common.Uint168]payload.VoteResult{},
		WithdrawnBudgets: map[uint8]common.Fixed64{}, WithdrawableBudgets: map[uint8]common.Fixed64{}, BudgetsStatus: map[uint8]BudgetStatus{},
		ProposalOwner: zzCRKey(3), Recipient: common.Uint168{0x21, 0x4E}, TrackingCount: nd.U8("trackingCount"),
		TerminatedHeight: 0, RegisterHeight: nd.U32("registerHeight"), VoteStartHeight: nd.U32("voteStartHeight"),
		TxHash: common.Uint256{0x77}}
	p.Proposal.Hash = zzPH
	p.Proposal.ProposalType = payload.Normal
	p.Proposal.OwnerPublicKey = zzCRKey(3)
	p.Proposal.Recipient = p.Recipient
	nd.Assume(p.TrackingCount < 128)
	// shapes the registration check admits: with an imprest the stages are
	// 0..n-1, without one they are 1..n; the payload may list them in any
	// order (the check sorts a copy), here ascending or descending
	first, descending := 0, false
	if freeShape {
		if nd.Bool("noImprest") {
			first = 1
		}
		descending = nd.Bool("budgetsListedDescending")
	}
	for i := 0; i < n; i++ {
		b := payload.Budget{Stage: byte(first + i), Type: payload.NormalPayment, Amount: zzCRAmount("budgetAmount")}
		if i == 0 && first == 0 {
			b.Type = payload.Imprest
		} else if i == n-1 {
			b.Type = payload.FinalPayment
		}
		if descending {
			p.Proposal.Budgets = append([]payload.Budget{b}, p.Proposal.Budgets...)
		} else {
			p.Proposal.Budgets = append(p.Proposal.Budgets, b)
		}
		bs := BudgetStatus(nd.U8("budgetStatus"))
		nd.Assume(bs <= Closed)
		p.BudgetsStatus[b.Stage] = bs
		final := b.Type == payload.FinalPayment
		// nothing is withdrawable before the public vote has agreed
		if status != Registered && status != CRAgreed && (!final || status != VoterAgreed) && nd.Bool("stageWithdrawable") {
			p.WithdrawableBudgets[b.Stage] = b.Amount
			if nd.Bool("stageWithdrawn") {
				p.WithdrawnBudgets[b.Stage] = b.Amount
			}
		}
	}
	if status != VoterAgreed {
		p.FinalPaymentStatus = nd.Bool("finalPaymentStatus")
	}
	c.manager.Proposals[zzPH] = p
	return p
}

func zzSum(m map[uint8]common.Fixed64) (s common.Fixed64) {
	for _, v := range m {
		s += v
	}
	return
}

// zzInvariant: the representation invariant of zzProposal
func zzInvariant(p *ProposalState) bool {
	ok := true
	stageAmount := map[uint8]common.Fixed64{}
	var finalStage uint8
	for _, b := range p.Proposal.Budgets {
		stageAmount[b.Stage] = b.Amount
		if b.Type == payload.FinalPayment {
			finalStage = b.Stage
		}
	}
	for k, v := range p.WithdrawableBudgets {
		if a, in := stageAmount[k]; !in || a != v {
			ok = false
		}
	}
	for k, v := range p.WithdrawnBudgets {
		if a, in := p.WithdrawableBudgets[k]; !in || a != v {
			ok = false
		}
	}
	if p.Status == VoterAgreed {
		if _, in := p.WithdrawableBudgets[finalStage]; in || p.FinalPaymentStatus {
			ok = false
		}
	}
	return ok
}

// zzTracking: a tracking transaction of arbitrary type and stage that meets
// what CRCProposalTrackingTransaction.SpecialContextCheck demands of the
// stage (proposal VoterAgreed; Progress / Rejected: a stage of the proposal
// that is not withdrawable yet, Progress only for a normal payment;
// Terminated: stage 0; Finalized: the final stage)
func zzTracking(p *ProposalState) (*zzCRTx, payload.CRCProposalTrackingType) {
	n := len(p.Proposal.Budgets)
	tt := payload.CRCProposalTrackingType(nd.Choose("trackingType", 6))
	stage := nd.U8("stage")
	_, withdrawable := p.WithdrawableBudgets[stage]
	stageType, finalStage, known := payload.InstallmentType(0xff), uint8(0), false
	for _, b := range p.Proposal.Budgets {
		if b.Stage == stage {
			stageType, known = b.Type, true
		}
		if b.Type == payload.FinalPayment {
			finalStage = b.Stage
		}
	}
	switch tt {
	case payload.Progress:
		nd.Assume(int(stage) < n && known && !withdrawable && stageType == payload.NormalPayment)
	case payload.Rejected:
		nd.Assume(int(stage) < n && !withdrawable)
	case payload.Terminated:
		nd.Assume(stage == 0)
	case payload.Finalized:
		nd.Assume(stage == finalStage)
	}
	return &zzCRTx{typ: common2.CRCProposalTracking, id: common.Uint256{0x22, 0x10}, pld: &payload.CRCProposalTracking{
		ProposalHash: zzPH, Stage: stage, ProposalTrackingType: tt, OwnerKey: p.ProposalOwner, NewOwnerKey: zzCRKey(4)}}, tt
}

// zzUpdateScenario: the state for one per-block proposal update (see
// ZZ_C22_updateproposals): the proposal under zzPH, the target of close /
// change-owner proposals under {0x99, 0x02}, and whether the block lies in
// an election period.
func zzUpdateScenario() (c *Committee, p, target *ProposalState, status ProposalStatus, inElection bool) {
	cfg := zzCRConfig()
	cfg.CRConfiguration.ProposalCRVotingPeriod = 10
	cfg.CRConfiguration.ProposalPublicVotingPeriod = 10
	cfg.CRConfiguration.CRAgreementCount = 1
	cfg.CRConfiguration.VoterRejectPercentage = 10
	c = zzCommittee(cfg)
	c.CirculationAmount = 1000
	c.CRCCommitteeUsedAmount = zzCRAmount("committeeUsedAmount")
	c.NeedRecordProposalResult = nd.Bool("needRecordBefore")
	if nd.Bool("resultsBefore") {
		c.PartProposalResults = []payload.ProposalResult{{ProposalHash: common.Uint256{0x44}, Result: true}}
	}
	status = Registered
	if nd.Bool("crAgreed") {
		status = CRAgreed
	}
	p = zzProposal(c, 2, status)
	p.RegisterHeight = zzH - 10
	p.VoteStartHeight = zzH - 10
	if nd.Bool("periodNotOver") {
		p.RegisterHeight, p.VoteStartHeight = zzH-9, zzH-9
	}
	if nd.Bool("approved") {
		p.CRVotes[common.Uint168{0x67, 0x31}] = payload.Approve
	}
	if nd.Bool("vetoed") {
		p.VotersRejectAmount = 2000
	} else {
		p.VotersRejectAmount = 0
	}
	// the target of close-proposal / change-proposal-owner
	// the target: agreed and running (imprest withdrawable), or already
	// finished / terminated with its normal payment never approved
	target = &ProposalState{Status: []ProposalStatus{VoterAgreed, Finished, Terminated}[nd.Choose("targetStatus", 3)],
		CRVotes: map[common.Uint168]payload.VoteResult{}, WithdrawnBudgets: map[uint8]common.Fixed64{},
		WithdrawableBudgets: map[uint8]common.Fixed64{0: 5}, BudgetsStatus: map[uint8]BudgetStatus{0: Withdrawable, 1: Unfinished, 2: Unfinished},
		ProposalOwner: zzCRKey(8), Recipient: common.Uint168{0x21, 0x50}}
	target.Proposal.Budgets = []payload.Budget{{Stage: 0, Type: payload.Imprest, Amount: 5}, {Stage: 1, Type: payload.NormalPayment, Amount: zzCRAmount("targetNormal")},
		{Stage: 2, Type: payload.FinalPayment, Amount: zzCRAmount("targetFinal")}}
	if target.Status == Finished {
		target.WithdrawableBudgets[2] = target.Proposal.Budgets[2].Amount
		target.BudgetsStatus[1], target.BudgetsStatus[2] = Closed, Withdrawable
	} else if target.Status == Terminated {
		target.BudgetsStatus[1], target.BudgetsStatus[2] = Closed, Closed
		target.TerminatedHeight = zzH - 20
	}
	th := common.Uint256{0x99, 0x02}
	target.Proposal.Hash = th
	c.manager.Proposals[th] = target
	m := c.manager
	switch nd.Choose("proposalType", 7) {
	case 0:
	case 1:
		p.Proposal.ProposalType = payload.ReceiveCustomID
		p.Proposal.ReceivedCustomIDList = []string{"bb"}
		m.PendingReceivedCustomIDMap["bb"] = struct{}{}
		m.PendingReceivedCustomIDMap["aa"] = struct{}{}
		m.ReceivedCustomIDLists = []string{"dd"}
	case 2:
		p.Proposal.ProposalType = payload.ReserveCustomID
		p.Proposal.ReservedCustomIDList = []string{"rr"}
		m.ReservedCustomID = true
		if nd.Bool("listsReservedBefore") {
			m.ReservedCustomIDLists = []string{"qq"}
		}
	case 3:
		p.Proposal.ProposalType = payload.RegisterSideChain
		p.Proposal.SideChainName = "s1"
		p.Proposal.MagicNumber = 11
		p.Proposal.GenesisHash = common.Uint256{0x61}
		m.RegisteredSideChainNames = []string{"s0", "s1", "s2"}
		m.RegisteredMagicNumbers = []uint32{10, 11, 12}
		m.RegisteredGenesisHashes = []common.Uint256{{0x60}, {0x61}, {0x62}}
		if nd.Bool("sideChainRegisteredAtThisHeight") {
			m.RegisteredSideChainPayloadInfo[zzH] = map[common.Uint256]payload.SideChainInfo{{0x31}: {SideChainName: "s9"}}
		}
	case 4:
		p.Proposal.ProposalType = payload.SecretaryGeneral
		p.Proposal.SecretaryGeneralPublicKey = zzCRKey(9)
		m.SecretaryGeneralPublicKey = "0011"
	case 5:
		p.Proposal.ProposalType = payload.CloseProposal
		p.Proposal.TargetProposalHash = th
	default:
		p.Proposal.ProposalType = payload.ChangeProposalOwner
		p.Proposal.TargetProposalHash = th
		p.Proposal.NewOwnerPublicKey = zzCRKey(10)
		if nd.Bool("newRecipient") {
			p.Proposal.NewRecipient = common.Uint168{0x21, 0x51}
		}
	}
	// only normal (and ELIP) proposals carry budgets: the wire formats of the
	// other types have no budget list
	if p.Proposal.ProposalType != payload.Normal {
		p.Proposal.Budgets = []payload.Budget{}
		p.BudgetsStatus = map[uint8]BudgetStatus{}
		p.WithdrawableBudgets = map[uint8]common.Fixed64{}
		p.WithdrawnBudgets = map[uint8]common.Fixed64{}
	}
	stake := common.Uint168{0x54, 1}
	if nd.Bool("publicVotesCast") {
		c.state.UsedCRCProposalVotes[stake] = []payload.VotesWithLockTime{{Candidate: zzPH.Bytes(), Votes: 7, LockTime: 9}}
		if nd.Bool("alsoForAnotherProposal") {
			c.state.UsedCRCProposalVotes[stake] = append(c.state.UsedCRCProposalVotes[stake], payload.VotesWithLockTime{Candidate: th.Bytes(), Votes: 8, LockTime: 9})
		}
	}
	inElection = nd.Bool("inElectionPeriod")
	return
}
