//go:build verif

package state

import (
	"github.com/elastos/Elastos.ELA/common"
	common2 "github.com/elastos/Elastos.ELA/core/types/common"
	"github.com/elastos/Elastos.ELA/core/types/payload"
	"github.com/elastos/Elastos.ELA/zzverif/nd"
)

// ZZ_C22_tracking: a proposal tracking transaction of every type on a
// VoterAgreed proposal with 2..3 budget stages.
func ZZ_C22_tracking() {
	c := zzCommittee(zzCRConfig())
	c.CRCCommitteeUsedAmount = zzCRAmount("committeeUsedAmount")
	p := zzProposal(c, nd.Choose("stages", 2)+2, VoterAgreed)
	tx, _ := zzTracking(p)
	pc := zzCopyProposal(p)
	zzApplyAndRollback(c, tx)
	zzAssertSameProposal(p, pc)
}

// ZZ_C22_withdraw: a proposal withdrawal (payload version 0 or 1) on a
// proposal in any of the states the transaction check admits.
func ZZ_C22_withdraw() {
	c := zzCommittee(zzCRConfig())
	st := []ProposalStatus{VoterAgreed, Finished, Aborted, Terminated}[nd.Choose("status", 4)]
	p := zzProposal(c, nd.Choose("stages", 2)+2, st)
	tx := &zzCRTx{typ: common2.CRCProposalWithdraw, id: common.Uint256{0x22, 0x11}, ver: byte(nd.Choose("payloadVersion", 2)),
		pld: &payload.CRCProposalWithdraw{ProposalHash: zzPH, OwnerKey: p.ProposalOwner, Recipient: p.Recipient, Amount: zzCRAmount("amount")}}
	if nd.Bool("earlierWithdrawalPending") {
		c.manager.WithdrawableTxInfo[common.Uint256{0x22, 0x0F}] = common2.OutputInfo{Recipient: p.Recipient, Amount: zzCRAmount("pendingAmount")}
	}
	pc := zzCopyProposal(p)
	zzApplyAndRollback(c, tx)
	zzAssertSameProposal(p, pc)
}

// ZZ_C22_review: a proposal review by a council member who has or has not
// reviewed the proposal before.
func ZZ_C22_review() {
	c := zzCommittee(zzCRConfig())
	p := zzProposal(c, 2, Registered)
	did := common.Uint168{0x67, 0x31}
	if nd.Bool("reviewedBefore") {
		p.CRVotes[did] = payload.VoteResult(nd.Choose("earlierResult", 3))
	}
	if nd.Bool("otherReview") {
		p.CRVotes[common.Uint168{0x67, 0x32}] = payload.Approve
	}
	tx := &zzCRTx{typ: common2.CRCProposalReview, id: common.Uint256{0x22, 0x12},
		pld: &payload.CRCProposalReview{ProposalHash: zzPH, DID: did, VoteResult: payload.VoteResult(nd.Choose("result", 3))}}
	pc := zzCopyProposal(p)
	zzApplyAndRollback(c, tx)
	zzAssertSameProposal(p, pc)
}

// ZZ_C22_proposal: the registration of a proposal (normal with 2 budgets,
// reserve-custom-ID, receive-custom-ID with one or two IDs) by a council
// member who has or has not other proposals, in a session that has or has not
// other proposals, with or without IDs already pending.
func ZZ_C22_proposal() {
	c := zzCommittee(zzCRConfig())
	c.CRCCommitteeUsedAmount = zzCRAmount("committeeUsedAmount")
	did := common.Uint168{0x67, 0x41}
	c.state.CurrentSession = 3
	// the hash of another proposal (a real hash value, so that the collision
	// freedom of SHA-256 separates it from the hash of the new proposal)
	other := common.Hash([]byte{0x55})
	if nd.Bool("memberHasOtherProposal") {
		c.manager.ProposalHashes[did] = ProposalHashSet{other: struct{}{}}
	}
	if nd.Bool("sessionHasOtherProposal") {
		c.manager.ProposalSession[3] = []common.Uint256{other}
	}
	if nd.Bool("idsPending") {
		c.manager.PendingReceivedCustomIDMap["aa"] = struct{}{}
	}
	c.manager.ReservedCustomID = nd.Bool("reservedBefore")
	pld := &payload.CRCProposal{OwnerKey: zzCRKey(3), CRCouncilMemberDID: did, Recipient: common.Uint168{0x21, 0x4E}, DraftHash: common.Uint256{0xD7}}
	switch nd.Choose("proposalType", 3) {
	case 0:
		pld.ProposalType = payload.Normal
		pld.Budgets = []payload.Budget{{Stage: 0, Type: payload.Imprest, Amount: zzCRAmount("imprest")}, {Stage: 1, Type: payload.FinalPayment, Amount: zzCRAmount("finalPayment")}}
	case 1:
		pld.ProposalType = payload.ReserveCustomID
		pld.ReservedCustomIDList = []string{"rr"}
	default:
		pld.ProposalType = payload.ReceiveCustomID
		pld.ReceivedCustomIDList = []string{"bb"}
		if nd.Bool("twoIDs") {
			pld.ReceivedCustomIDList = append(pld.ReceivedCustomIDList, "cc")
		}
		pld.ReceiverDID = common.Uint168{0x67, 0x42}
	}
	tx := &zzCRTx{typ: common2.CRCProposal, id: common.Uint256{0x22, 0x13}, pld: pld}
	zzApplyAndRollback(c, tx)
}

// ZZ_C22_realwithdraw: the committee's real-withdraw transaction paying out
// one or two of the 1..2 pending proposal withdrawals (or an unknown one).
func ZZ_C22_realwithdraw() {
	c := zzCommittee(zzCRConfig())
	hs := []common.Uint256{{0x22, 0x0E}, {0x22, 0x0F}, {0x22, 0x0D}}
	for i, zzn := 0, nd.Choose("pending", 2)+1; i < zzn; i++ {
		c.manager.WithdrawableTxInfo[hs[i]] = common2.OutputInfo{Recipient: common.Uint168{0x21, byte(i)}, Amount: zzCRAmount("pendingAmount")}
	}
	pld := &payload.CRCProposalRealWithdraw{}
	for i, zzn := 0, nd.Choose("paid", 2)+1; i < zzn; i++ {
		pld.WithdrawTransactionHashes = append(pld.WithdrawTransactionHashes, hs[nd.Choose("which", 3)])
	}
	tx := &zzCRTx{typ: common2.CRCProposalRealWithdraw, id: common.Uint256{0x22, 0x14}, pld: pld}
	zzApplyAndRollback(c, tx)
}

// ZZ_C22_member: transactions that change a council member: claiming a DPoS
// node (current-committee payload version, before or after DPoSV2StartHeight),
// and the activation request of an inactive or illegal member.
func ZZ_C22_member() {
	cfg := zzCRConfig()
	if nd.Bool("beforeDPoSV2") {
		cfg.DPoSV2StartHeight = zzH + 1
	}
	c := zzCommittee(cfg)
	m := &CRMember{Info: payload.CRInfo{CID: common.Uint168{0x67, 5}, DID: common.Uint168{0x67, 6}}, MemberState: MemberState(nd.Choose("memberState", 6)),
		InactiveCount: nd.U32("inactiveCount"), ActivateRequestHeight: 0xffffffff}
	// an activation request may already be pending (the transaction check does
	// not refuse a second request of a council member)
	if nd.Bool("activationAlreadyRequested") {
		m.ActivateRequestHeight = zzH - 2
	}
	if nd.Bool("hasNode") {
		m.DPOSPublicKey = zzCRKey(5)
		c.ClaimedDPoSKeys[common.BytesToHexString(m.DPOSPublicKey)] = struct{}{}
	}
	c.Members[m.Info.DID] = m
	var tx *zzCRTx
	if nd.Bool("claimNode") {
		tx = &zzCRTx{typ: common2.CRCouncilMemberClaimNode, id: common.Uint256{0x22, 0x15}, ver: payload.CurrentCRClaimDPoSNodeVersion,
			pld: &payload.CRCouncilMemberClaimNode{NodePublicKey: zzCRKey(6), CRCouncilCommitteeDID: m.Info.DID}}
	} else {
		nd.Assume(len(m.DPOSPublicKey) != 0)
		tx = &zzCRTx{typ: common2.ActivateProducer, id: common.Uint256{0x22, 0x16}, pld: &payload.ActivateProducer{NodePublicKey: m.DPOSPublicKey}}
	}
	zzApplyAndRollback(c, tx)
}

// ZZ_C22_appropriation: the appropriation transaction (only created and
// accepted while an appropriation is needed).
func ZZ_C22_appropriation() {
	c := zzCommittee(zzCRConfig())
	c.NeedAppropriation = true
	tx := &zzCRTx{typ: common2.CRCAppropriation, id: common.Uint256{0x22, 0x17}, pld: &payload.CRCAppropriation{}}
	zzApplyAndRollback(c, tx)
}

// ZZ_C22_updateproposals: the per-block proposal update (Committee.
// updateProposals -> ProposalManager.updateProposals) on one proposal that is
// Registered or CRAgreed, of type normal, receive-custom-ID, reserve-custom-ID,
// register-side-chain, secretary-general, close-proposal or
// change-proposal-owner, whose council / public voting period has or has not
// ended, approved or not, vetoed or not, inside or outside an election
// period; a second, VoterAgreed proposal is the target of close / change-owner.
func ZZ_C22_updateproposals() {
	c, p, target, status, inElection := zzUpdateScenario()
	m := c.manager
	st := c.state.StateKeyFrame.Snapshot()
	kf := c.KeyFrame.Snapshot()
	results := append([]payload.ProposalResult{}, c.PartProposalResults...)
	mg := zzCopyManager(m)
	pc, tc := zzCopyProposal(p), zzCopyProposal(target)
	m.history.Commit(zzH - 1)
	nd.NoPanic("process", func() { c.updateProposals(zzH, inElection) })
	nd.Reach("processed")
	if p.Status != status {
		nd.Reach("status_changed")
	}
	nd.NoPanic("rollback", func() {
		nd.Assert(m.history.RollbackTo(zzH-1) == nil, "rollback_of_one_block_succeeds")
	})
	zzAssertSameState(&c.state.StateKeyFrame, st)
	zzAssertSameCommittee(&c.KeyFrame, kf)
	okR := len(c.PartProposalResults) == len(results)
	if okR {
		for i := range results {
			okR = okR && c.PartProposalResults[i] == results[i]
		}
	}
	nd.Assert(okR, "rollback_restores_PartProposalResults")
	zzAssertSameManager(m, mg)
	zzAssertSameProposal(p, pc)
	zzAssertSameProposal(target, tc)
}

// ZZ_C22_impeach: the per-block impeachment step (Committee.updateCRMembers,
// logged in the committee history): a member that is elected, inactive or
// illegal, with impeachment votes below, at or above the threshold (10% of a
// circulation of 1000), and the used impeachment votes of a stake address that
// voted for this member and / or another one.
func ZZ_C22_impeach() {
	cfg := zzCRConfig()
	cfg.CRConfiguration.VoterRejectPercentage = 10
	cfg.CRConfiguration.DutyPeriod = 1000
	c := zzCommittee(cfg)
	c.CirculationAmount = 1000
	c.LastCommitteeHeight = 50
	c.InElectionPeriod = true
	st := []MemberState{MemberElected, MemberInactive, MemberIllegal}[nd.Choose("memberState", 3)]
	m := &CRMember{Info: payload.CRInfo{CID: common.Uint168{0x67, 5}, DID: common.Uint168{0x67, 6}}, MemberState: st,
		ImpeachmentVotes: []common.Fixed64{99, 100, 101}[nd.Choose("impeachmentVotes", 3)]}
	c.Members[m.Info.DID] = m
	c.state.DepositInfo[m.Info.CID] = &DepositInfo{DepositAmount: zzCRAmount("depositAmount"), Penalty: zzCRAmount("penalty"), TotalAmount: zzCRAmount("totalAmount")}
	other := common.Uint168{0x67, 7}
	stake := common.Uint168{0x54, 1}
	if nd.Bool("votedForThisMember") {
		c.state.UsedCRImpeachmentVotes[stake] = append(c.state.UsedCRImpeachmentVotes[stake], payload.VotesWithLockTime{Candidate: m.Info.CID.Bytes(), Votes: 60, LockTime: 9})
	}
	if nd.Bool("votedForAnotherMember") {
		c.state.UsedCRImpeachmentVotes[stake] = append(c.state.UsedCRImpeachmentVotes[stake], payload.VotesWithLockTime{Candidate: other.Bytes(), Votes: 7, LockTime: 9})
	}
	stt := c.state.StateKeyFrame.Snapshot()
	kf := c.KeyFrame.Snapshot()
	kf.NextMembers = copyMembersMap(c.NextMembers)
	kf.ClaimedDPoSKeys = copyClaimedDPoSKeysMap(c.ClaimedDPoSKeys)
	kf.NextClaimedDPoSKeys = copyClaimedDPoSKeysMap(c.NextClaimedDPoSKeys)
	c.committeeHistory.Commit(zzH - 1)
	nd.NoPanic("process", func() {
		c.updateCRMembers(zzH, true)
		c.committeeHistory.Commit(zzH)
	})
	nd.Reach("processed")
	if m.MemberState == MemberImpeached {
		nd.Reach("impeached")
	}
	nd.NoPanic("rollback", func() {
		nd.Assert(c.committeeHistory.RollbackTo(zzH-1) == nil, "rollback_of_one_block_succeeds")
	})
	zzAssertSameState(&c.state.StateKeyFrame, stt)
	zzAssertSameCommittee(&c.KeyFrame, kf)
}

// ZZ_C22_perblock: the per-block steps of ProcessBlock that are logged in the
// CR state history, on a block without CR transactions: a pending candidate
// reaching six confirmations inside the voting period becomes active, a
// candidate cancelled DepositLockupBlocks ago has its deposit released, and
// the block before the next voting period records the voting start height.
func ZZ_C22_perblock() {
	cfg := zzCRConfig()
	cfg.CRConfiguration.DutyPeriod = 100
	cfg.CRConfiguration.VotingPeriod = 20
	cfg.CRConfiguration.CRClaimPeriod = 5
	c := zzCommittee(cfg)
	c.InElectionPeriod = true
	c.LastVotingStartHeight = nd.U32("lastVotingStartHeight")
	switch nd.Choose("event", 3) {
	case 0:
		// inside the voting period that starts at LastVotingStartHeight
		nd.Assume(c.LastVotingStartHeight <= zzH && zzH-c.LastVotingStartHeight < 20)
		c.LastCommitteeHeight = 10
		cand := zzCandidate(c, 0, Pending)
		cand.RegisterHeight = zzH - 5 + uint32(nd.Choose("confirmationsShort", 2))
	case 1:
		c.LastCommitteeHeight = 10
		nd.Assume(c.LastVotingStartHeight < 50)
		cand := zzCandidate(c, 0, Canceled)
		cand.CancelHeight = zzH - 10 + uint32(nd.Choose("lockupShort", 2))
		delete(c.state.Nicknames, cand.Info.NickName)
	default:
		// the next voting period starts at LastCommitteeHeight + 100 - 20 - 5 - 1
		c.LastCommitteeHeight = zzH - 74 + uint32(nd.Choose("notYet", 2))
		nd.Assume(c.LastVotingStartHeight < 50)
	}
	st := c.state.StateKeyFrame.Snapshot()
	kf := c.KeyFrame.Snapshot()
	kf.NextMembers = copyMembersMap(c.NextMembers)
	kf.ClaimedDPoSKeys = copyClaimedDPoSKeysMap(c.ClaimedDPoSKeys)
	kf.NextClaimedDPoSKeys = copyClaimedDPoSKeysMap(c.NextClaimedDPoSKeys)
	c.state.History.Commit(zzH - 1)
	nd.NoPanic("process", func() {
		c.recordLastVotingStartHeight(zzH)
		c.updateVotingCandidatesState(zzH)
		c.updateCandidatesDepositCoin(zzH)
		c.state.History.Commit(zzH)
	})
	nd.Reach("processed")
	for _, cd := range c.state.Candidates {
		if cd.State == Active {
			nd.Reach("candidate_activated")
		}
	}
	for _, di := range c.state.DepositInfo {
		for _, was := range st.DepositInfo {
			if di.DepositAmount != was.DepositAmount {
				nd.Reach("deposit_released")
			}
		}
	}
	if c.LastVotingStartHeight == zzH+1 {
		nd.Reach("voting_start_recorded")
	}
	nd.NoPanic("rollback", func() {
		nd.Assert(c.state.History.RollbackTo(zzH-1) == nil, "rollback_of_one_block_succeeds")
	})
	zzAssertSameState(&c.state.StateKeyFrame, st)
	zzAssertSameCommittee(&c.KeyFrame, kf)
}

// ZZ_C22_inactive: the per-block inactivity steps logged in the committee's
// inactivity history (updateInactiveCountPenalty, updateCRInactiveStatus) on a
// committee with one member that is elected with or without a claimed DPoS
// node, inactive or illegal, inside or after the claim period, before or after
// the height from which inactivity costs a penalty.
func ZZ_C22_inactive() {
	cfg := zzCRConfig()
	cfg.DPoSConfiguration.InactivePenalty = 50000000000
	cfg.CRConfiguration.VotingPeriod = 20
	cfg.CRConfiguration.CRClaimPeriod = 5
	if nd.Bool("beforePenaltyHeight") {
		cfg.CRConfiguration.ChangeCommitteeNewCRHeight = zzH + 1
	}
	c := zzCommittee(cfg)
	c.InElectionPeriod = true
	c.LastVotingStartHeight = zzH - 25 - uint32(nd.Choose("claimPeriodOver", 2))*5 + 3
	m := &CRMember{Info: payload.CRInfo{CID: common.Uint168{0x67, 5}, DID: common.Uint168{0x67, 6}}, MemberState: MemberState(nd.Choose("memberState", 6)),
		PenaltyBlockCount: nd.U32("penaltyBlockCount")}
	nd.Assume(m.PenaltyBlockCount < 0xffffff00)
	if nd.Bool("hasNode") {
		m.DPOSPublicKey = zzCRKey(5)
	}
	c.Members[m.Info.DID] = m
	c.state.DepositInfo[m.Info.CID] = &DepositInfo{DepositAmount: zzCRAmount("depositAmount"), Penalty: zzCRAmount("penalty"), TotalAmount: zzCRAmount("totalAmount")}
	st := c.state.StateKeyFrame.Snapshot()
	kf := c.KeyFrame.Snapshot()
	kf.NextMembers = copyMembersMap(c.NextMembers)
	kf.ClaimedDPoSKeys = copyClaimedDPoSKeysMap(c.ClaimedDPoSKeys)
	kf.NextClaimedDPoSKeys = copyClaimedDPoSKeysMap(c.NextClaimedDPoSKeys)
	c.inactiveCRHistory.Commit(zzH - 1)
	nd.NoPanic("process", func() {
		c.updateInactiveCountPenalty(c.inactiveCRHistory, zzH)
		c.updateCRInactiveStatus(c.inactiveCRHistory, zzH)
		c.inactiveCRHistory.Commit(zzH)
	})
	nd.Reach("processed")
	nd.NoPanic("rollback", func() {
		nd.Assert(c.inactiveCRHistory.RollbackTo(zzH-1) == nil, "rollback_of_one_block_succeeds")
	})
	zzAssertSameState(&c.state.StateKeyFrame, st)
	zzAssertSameCommittee(&c.KeyFrame, kf)
}
