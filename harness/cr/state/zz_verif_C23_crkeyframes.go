//go:build verif

package state

import (
	"bytes"
	"io"

	"github.com/elastos/Elastos.ELA/common"
	common2 "github.com/elastos/Elastos.ELA/core/types/common"
	"github.com/elastos/Elastos.ELA/core/types/payload"
	"github.com/elastos/Elastos.ELA/zzverif/nd"
)

func zzH168(name string) common.Uint168 {
	var h common.Uint168
	copy(h[:], nd.Bytes(name, 21))
	return h
}

func zzH256(name string) common.Uint256 {
	var h common.Uint256
	copy(h[:], nd.Bytes(name, 32))
	return h
}

func zzStr(name string) string         { return string(nd.Bytes(name, 2)) }
func zzAmt(name string) common.Fixed64 { return common.Fixed64(nd.I64(name)) }

func zzCRInfo() payload.CRInfo {
	return payload.CRInfo{Code: nd.Bytes("code", 2), CID: zzH168("cid"), DID: zzH168("did"), NickName: zzStr("nick"), Url: zzStr("url"), Location: nd.U64("location")}
}

func zzMember() *CRMember {
	return &CRMember{Info: zzCRInfo(), ImpeachmentVotes: zzAmt("impeachment"), DepositHash: zzH168("depositHash"), MemberState: MemberState(nd.U8("memberState")),
		DPOSPublicKey: nd.Bytes("dposKey", 2), InactiveSince: nd.U32("inactiveSince"), ActivateRequestHeight: nd.U32("activateRequestHeight"),
		PenaltyBlockCount: nd.U32("penaltyBlockCount"), InactiveCount: nd.U32("inactiveCount"), InactiveCountingHeight: nd.U32("inactiveCountingHeight"),
		InactiveCountV2: nd.U32("inactiveCountV2"), WorkedInRound: nd.Bool("workedInRound")}
}

type zzCodec interface {
	Serialize(w io.Writer) error
	Deserialize(r io.Reader) error
}

// zzRoundTrip: x encodes; fresh decodes the encoding completely; returns the
// encoding and the re-encoding of the decoded value.
func zzRoundTrip(x, fresh zzCodec) (ok bool, first, second []byte) {
	buf := new(bytes.Buffer)
	nd.Assert(x.Serialize(buf) == nil, "serialize_succeeds")
	first = append([]byte{}, buf.Bytes()...)
	r := bytes.NewReader(first)
	err := fresh.Deserialize(r)
	nd.Assert(err == nil, "own_encoding_decodes")
	if err != nil {
		return false, first, nil
	}
	nd.Assert(r.Len() == 0, "decoding_consumes_exactly_the_encoding")
	again := new(bytes.Buffer)
	fresh.Serialize(again)
	return true, first, again.Bytes()
}

// zzDecodeInto: the encoding decoded into a frame that already exists (built
// by its constructor, as ProposalKeyFrame.Snapshot and the restore path do, or
// holding older content) must give the same state as decoding into a zero value
func zzDecodeInto(used zzCodec, encoding []byte, id string) {
	nd.Assert(used.Deserialize(bytes.NewReader(encoding)) == nil, "own_encoding_decodes_into_a_used_frame")
	again := new(bytes.Buffer)
	used.Serialize(again)
	nd.Assert(bytes.Equal(again.Bytes(), encoding), id)
}

// ZZ_C23_crmember: a committee member with every field arbitrary round-trips.
func ZZ_C23_crmember() {
	m := zzMember()
	q := &CRMember{}
	ok, a, b := zzRoundTrip(m, q)
	if !ok {
		return
	}
	nd.Reach("decoded")
	nd.Assert(q.ImpeachmentVotes == m.ImpeachmentVotes && q.DepositHash == m.DepositHash && q.MemberState == m.MemberState && bytes.Equal(q.DPOSPublicKey, m.DPOSPublicKey) &&
		q.InactiveSince == m.InactiveSince && q.ActivateRequestHeight == m.ActivateRequestHeight && q.PenaltyBlockCount == m.PenaltyBlockCount &&
		q.InactiveCount == m.InactiveCount && q.InactiveCountingHeight == m.InactiveCountingHeight && q.InactiveCountV2 == m.InactiveCountV2 && q.WorkedInRound == m.WorkedInRound, "member_fields_round_trip")
	nd.Assert(bytes.Equal(q.Info.Code, m.Info.Code) && q.Info.CID == m.Info.CID && q.Info.DID == m.Info.DID && q.Info.NickName == m.Info.NickName && q.Info.Url == m.Info.Url && q.Info.Location == m.Info.Location, "member_info_round_trips")
	nd.Assert(bytes.Equal(a, b), "re_encoding_the_decoded_member_gives_the_same_bytes")
}

// ZZ_C23_committee: the committee key frame (every scalar arbitrary, one entry
// in every map and list) round-trips.
func ZZ_C23_committee() {
	k := NewKeyFrame()
	k.Members[zzH168("memberKey")] = zzMember()
	k.NextMembers[zzH168("nextMemberKey")] = &CRMember{Info: payload.CRInfo{Code: nd.Bytes("nextCode", 1)}}
	k.ClaimedDPoSKeys[zzStr("claimed")] = struct{}{}
	k.NextClaimedDPoSKeys[zzStr("nextClaimed")] = struct{}{}
	k.HistoryMembers[nd.U64("session")] = map[common.Uint168]*CRMember{zzH168("historyKey"): {Info: payload.CRInfo{Code: nd.Bytes("historyCode", 1)}}}
	k.PartProposalResults = []payload.ProposalResult{{ProposalHash: zzH256("resultHash"), ProposalType: payload.CRCProposalType(nd.U16("resultType")), Result: nd.Bool("result")}}
	k.LastCommitteeHeight, k.LastVotingStartHeight = nd.U32("lastCommitteeHeight"), nd.U32("lastVotingStartHeight")
	k.InElectionPeriod, k.NeedAppropriation, k.NeedRecordProposalResult = nd.Bool("inElection"), nd.Bool("needAppropriation"), nd.Bool("needRecord")
	k.CRCFoundationBalance, k.CRCCommitteeBalance, k.CRCCommitteeUsedAmount, k.CRCCurrentStageAmount = zzAmt("foundation"), zzAmt("committee"), zzAmt("used"), zzAmt("stage")
	k.DestroyedAmount, k.CirculationAmount, k.AppropriationAmount, k.CommitteeUsedAmount = zzAmt("destroyed"), zzAmt("circulation"), zzAmt("appropriation"), zzAmt("committeeUsed")
	k.CRAssetsAddressUTXOCount, k.CurrentWithdrawFromSideChainIndex = nd.U32("utxoCount"), nd.U32("withdrawIndex")
	k.CurrentSignedWithdrawFromSideChainKeys[zzStr("signedKey")] = struct{}{}
	q := &KeyFrame{}
	ok, a, b := zzRoundTrip(k, q)
	if !ok {
		return
	}
	nd.Reach("decoded")
	nd.Assert(q.LastCommitteeHeight == k.LastCommitteeHeight && q.LastVotingStartHeight == k.LastVotingStartHeight && q.InElectionPeriod == k.InElectionPeriod &&
		q.NeedAppropriation == k.NeedAppropriation && q.NeedRecordProposalResult == k.NeedRecordProposalResult, "committee_heights_and_flags_round_trip")
	nd.Assert(q.CRCFoundationBalance == k.CRCFoundationBalance && q.CRCCommitteeBalance == k.CRCCommitteeBalance && q.CRCCommitteeUsedAmount == k.CRCCommitteeUsedAmount &&
		q.CRCCurrentStageAmount == k.CRCCurrentStageAmount && q.DestroyedAmount == k.DestroyedAmount && q.CirculationAmount == k.CirculationAmount &&
		q.AppropriationAmount == k.AppropriationAmount && q.CommitteeUsedAmount == k.CommitteeUsedAmount, "committee_amounts_round_trip")
	nd.Assert(q.CRAssetsAddressUTXOCount == k.CRAssetsAddressUTXOCount && q.CurrentWithdrawFromSideChainIndex == k.CurrentWithdrawFromSideChainIndex, "committee_counters_round_trip")
	nd.Assert(len(q.Members) == 1, "map_Members_keeps_its_entry")
	nd.Assert(len(q.NextMembers) == 1, "map_NextMembers_keeps_its_entry")
	nd.Assert(len(q.ClaimedDPoSKeys) == 1, "map_ClaimedDPoSKeys_keeps_its_entry")
	nd.Assert(len(q.NextClaimedDPoSKeys) == 1, "map_NextClaimedDPoSKeys_keeps_its_entry")
	nd.Assert(len(q.HistoryMembers) == 1, "map_HistoryMembers_keeps_its_entry")
	nd.Assert(len(q.PartProposalResults) == 1, "list_PartProposalResults_keeps_its_entry")
	nd.Assert(len(q.CurrentSignedWithdrawFromSideChainKeys) == 1, "map_CurrentSignedWithdrawFromSideChainKeys_keeps_its_entry")
	nd.Assert(bytes.Equal(a, b), "re_encoding_the_decoded_committee_frame_gives_the_same_bytes")
	used := NewKeyFrame()
	used.ClaimedDPoSKeys["stale"] = struct{}{}
	used.PartProposalResults = []payload.ProposalResult{{Result: true}}
	used.LastCommitteeHeight = 77
	zzDecodeInto(used, a, "decoding_into_a_used_committee_frame_gives_the_same_state")
}

// ZZ_C23_crstate: the CR state key frame (one entry in every map) round-trips.
func ZZ_C23_crstate() {
	s := NewStateKeyFrame()
	s.CodeCIDMap[zzStr("codeKey")] = zzH168("codeCID")
	s.DepositHashCIDMap[zzH168("depositKey")] = zzH168("depositCID")
	s.Candidates[zzH168("candidateKey")] = &Candidate{Info: zzCRInfo(), State: CandidateState(nd.U8("candidateState")), Votes: zzAmt("candidateVotes"),
		RegisterHeight: nd.U32("registerHeight"), CancelHeight: nd.U32("cancelHeight"), DepositHash: zzH168("candidateDeposit")}
	s.HistoryCandidates[nd.U64("historySession")] = map[common.Uint168]*Candidate{zzH168("historyCandidate"): {Info: payload.CRInfo{Code: nd.Bytes("hcCode", 1)}}}
	s.DepositInfo[zzH168("depositInfoKey")] = &DepositInfo{DepositAmount: zzAmt("depositAmount"), Penalty: zzAmt("penalty"), TotalAmount: zzAmt("totalAmount")}
	s.CurrentSession = nd.U64("currentSession")
	s.Nicknames[zzStr("nickname")] = struct{}{}
	s.Votes[zzStr("vote")] = struct{}{}
	s.DepositOutputs[zzStr("depositOutput")] = zzAmt("depositOutputAmount")
	s.CRCFoundationOutputs[zzStr("foundationOutput")] = zzAmt("foundationOutputAmount")
	s.CRCCommitteeOutputs[zzStr("committeeOutput")] = zzAmt("committeeOutputAmount")
	v := []payload.VotesWithLockTime{{Candidate: nd.Bytes("voteCandidate", 2), Votes: zzAmt("voteAmount"), LockTime: nd.U32("voteLock")}}
	s.UsedCRVotes[zzH168("usedCR")] = v
	s.UsedCRImpeachmentVotes[zzH168("usedImpeachment")] = v
	s.UsedCRCProposalVotes[zzH168("usedProposal")] = v
	q := &StateKeyFrame{}
	ok, a, b := zzRoundTrip(s, q)
	if !ok {
		return
	}
	nd.Reach("decoded")
	nd.Assert(q.CurrentSession == s.CurrentSession, "current_session_round_trips")
	nd.Assert(len(q.CodeCIDMap) == 1, "map_CodeCIDMap_keeps_its_entry")
	nd.Assert(len(q.DepositHashCIDMap) == 1, "map_DepositHashCIDMap_keeps_its_entry")
	nd.Assert(len(q.Candidates) == 1, "map_Candidates_keeps_its_entry")
	nd.Assert(len(q.HistoryCandidates) == 1, "map_HistoryCandidates_keeps_its_entry")
	nd.Assert(len(q.DepositInfo) == 1, "map_DepositInfo_keeps_its_entry")
	nd.Assert(len(q.Nicknames) == 1, "map_Nicknames_keeps_its_entry")
	nd.Assert(len(q.Votes) == 1, "map_Votes_keeps_its_entry")
	nd.Assert(len(q.DepositOutputs) == 1, "map_DepositOutputs_keeps_its_entry")
	nd.Assert(len(q.CRCFoundationOutputs) == 1, "map_CRCFoundationOutputs_keeps_its_entry")
	nd.Assert(len(q.CRCCommitteeOutputs) == 1, "map_CRCCommitteeOutputs_keeps_its_entry")
	nd.Assert(len(q.UsedCRVotes) == 1, "map_UsedCRVotes_keeps_its_entry")
	nd.Assert(len(q.UsedCRImpeachmentVotes) == 1, "map_UsedCRImpeachmentVotes_keeps_its_entry")
	nd.Assert(len(q.UsedCRCProposalVotes) == 1, "map_UsedCRCProposalVotes_keeps_its_entry")
	nd.Assert(bytes.Equal(a, b), "re_encoding_the_decoded_cr_state_frame_gives_the_same_bytes")
	used := NewStateKeyFrame()
	used.Nicknames["stale"] = struct{}{}
	used.DepositOutputs["stale"] = 1
	used.CurrentSession = 77
	zzDecodeInto(used, a, "decoding_into_a_used_cr_state_frame_gives_the_same_state")
}

// ZZ_C23_proposals: the proposal key frame's simple members round-trip.
func ZZ_C23_proposals() {
	p := NewProposalKeyFrame()
	p.ProposalHashes[zzH168("ownerDID")] = ProposalHashSet{zzH256("ownedProposal"): struct{}{}}
	p.ProposalSession[nd.U64("proposalSession")] = []common.Uint256{zzH256("sessionProposal")}
	p.WithdrawableTxInfo[zzH256("withdrawTx")] = common2.OutputInfo{Recipient: zzH168("recipient"), Amount: zzAmt("withdrawAmount")}
	p.SecretaryGeneralPublicKey = zzStr("secretaryKey")
	p.ReservedCustomIDLists = []string{zzStr("reservedID")}
	p.PendingReceivedCustomIDMap[zzStr("pendingID")] = struct{}{}
	p.ReceivedCustomIDLists = []string{zzStr("receivedID")}
	p.RegisteredSideChainNames = append(p.RegisteredSideChainNames, zzStr("sideChainName"))
	p.RegisteredMagicNumbers = append(p.RegisteredMagicNumbers, nd.U32("magic"))
	p.RegisteredGenesisHashes = append(p.RegisteredGenesisHashes, zzH256("genesis"))
	p.ReservedCustomID = nd.Bool("reservedCustomID")
	nProposalHashes, nSession, nWithdraw := len(p.ProposalHashes), len(p.ProposalSession), len(p.WithdrawableTxInfo)
	nReserved, nPending, nReceived := len(p.ReservedCustomIDLists), len(p.PendingReceivedCustomIDMap), len(p.ReceivedCustomIDLists)
	nNames, nMagic, nGenesis := len(p.RegisteredSideChainNames), len(p.RegisteredMagicNumbers), len(p.RegisteredGenesisHashes)
	q := &ProposalKeyFrame{}
	ok, a, b := zzRoundTrip(p, q)
	if !ok {
		return
	}
	nd.Reach("decoded")
	nd.Assert(q.SecretaryGeneralPublicKey == p.SecretaryGeneralPublicKey && q.ReservedCustomID == p.ReservedCustomID, "proposal_frame_scalars_round_trip")
	nd.Assert(len(q.ProposalHashes) == nProposalHashes, "map_ProposalHashes_keeps_its_entries")
	nd.Assert(len(q.ProposalSession) == nSession, "map_ProposalSession_keeps_its_entries")
	nd.Assert(len(q.WithdrawableTxInfo) == nWithdraw, "map_WithdrawableTxInfo_keeps_its_entries")
	nd.Assert(len(q.ReservedCustomIDLists) == nReserved, "list_ReservedCustomIDLists_keeps_its_entries")
	nd.Assert(len(q.PendingReceivedCustomIDMap) == nPending, "map_PendingReceivedCustomIDMap_keeps_its_entries")
	nd.Assert(len(q.ReceivedCustomIDLists) == nReceived, "list_ReceivedCustomIDLists_keeps_its_entries")
	nd.Assert(len(q.RegisteredSideChainNames) == nNames, "list_RegisteredSideChainNames_keeps_its_entries")
	nd.Assert(len(q.RegisteredMagicNumbers) == nMagic, "list_RegisteredMagicNumbers_keeps_its_entries")
	nd.Assert(len(q.RegisteredGenesisHashes) == nGenesis, "list_RegisteredGenesisHashes_keeps_its_entries")
	nd.Assert(bytes.Equal(a, b), "re_encoding_the_decoded_proposal_frame_gives_the_same_bytes")
	// NewProposalKeyFrame pre-seeds the registered side-chain lists
	used := NewProposalKeyFrame()
	used.ReservedCustomIDLists = []string{"stale"}
	used.PendingReceivedCustomIDMap["stale"] = struct{}{}
	zzDecodeInto(used, a, "decoding_into_a_used_proposal_frame_gives_the_same_state")
}
