//go:build verif

package state

import (
	"github.com/elastos/Elastos.ELA/common"
	"github.com/elastos/Elastos.ELA/core/contract"
	pg "github.com/elastos/Elastos.ELA/core/contract/program"
	common2 "github.com/elastos/Elastos.ELA/core/types/common"
	"github.com/elastos/Elastos.ELA/core/types/interfaces"
	"github.com/elastos/Elastos.ELA/core/types/outputpayload"
	"github.com/elastos/Elastos.ELA/core/types/payload"
	"github.com/elastos/Elastos.ELA/zzverif/nd"
)

// zzApplyAndRollback: one transaction is processed at height zzH as part of a
// block (Committee.processTransaction, then the commit of the CR history as
// ProcessBlock does), the block is rolled back, and every member of the
// three key frames must equal its value before the block. Proposal states
// touched by the scenario are compared by the caller.
func zzApplyAndRollback(c *Committee, tx interfaces.Transaction) {
	st := c.state.StateKeyFrame.Snapshot()
	// KeyFrame.Snapshot leaves the next members, the claimed DPoS keys and the
	// part proposal results out (it serves an RPC view, not the checkpoint);
	// they are copied here
	kf := c.KeyFrame.Snapshot()
	kf.NextMembers = copyMembersMap(c.NextMembers)
	kf.ClaimedDPoSKeys = copyClaimedDPoSKeysMap(c.ClaimedDPoSKeys)
	kf.NextClaimedDPoSKeys = copyClaimedDPoSKeysMap(c.NextClaimedDPoSKeys)
	mg := zzCopyManager(c.manager)
	c.state.History.Commit(zzH - 1)
	nd.NoPanic("process", func() {
		c.processTransaction(tx, zzH)
		c.state.History.Commit(zzH)
	})
	nd.Reach("processed")
	nd.NoPanic("rollback", func() {
		nd.Assert(c.state.History.RollbackTo(zzH-1) == nil, "rollback_of_one_block_succeeds")
	})
	zzAssertSameState(&c.state.StateKeyFrame, st)
	zzAssertSameCommittee(&c.KeyFrame, kf)
	zzAssertSameManager(c.manager, mg)
}

// zzCandidate: candidate i registered in c with arbitrary votes and heights
func zzCandidate(c *Committee, i int, st CandidateState) *Candidate {
	code := zzCRCode(i)
	cid, _ := GetCIDByCode(code)
	did, _ := GetDIDByCode(code)
	dc, _ := contract.CreateDepositContractByCode(code)
	cand := &Candidate{Info: payload.CRInfo{Code: code, CID: *cid, DID: *did, NickName: string([]byte{'n', byte('0' + i)}), Url: "u", Location: nd.U64("location")},
		State: st, Votes: zzCRAmount("candidateVotes"), RegisterHeight: nd.U32("registerHeight"), DepositHash: *dc.ToProgramHash()}
	s := c.state
	s.Candidates[*cid] = cand
	s.Nicknames[cand.Info.NickName] = struct{}{}
	s.CodeCIDMap[common.BytesToHexString(code)] = *cid
	s.DepositHashCIDMap[cand.DepositHash] = *cid
	s.DepositInfo[*cid] = &DepositInfo{DepositAmount: zzCRAmount("depositAmount"), Penalty: zzCRAmount("penalty"), TotalAmount: zzCRAmount("totalAmount")}
	return cand
}

// ZZ_C22_register: a RegisterCR transaction (first registration, or a new one
// by a CID whose deposit bookkeeping still exists) with 1..2 outputs, each to
// the deposit address or elsewhere.
func ZZ_C22_register() {
	c := zzCommittee(zzCRConfig())
	code := zzCRCode(0)
	cid, _ := GetCIDByCode(code)
	did, _ := GetDIDByCode(code)
	dc, _ := contract.CreateDepositContractByCode(code)
	dh := *dc.ToProgramHash()
	if nd.Bool("registeredBefore") {
		c.state.CodeCIDMap[common.BytesToHexString(code)] = *cid
		c.state.DepositHashCIDMap[dh] = *cid
		c.state.DepositInfo[*cid] = &DepositInfo{DepositAmount: zzCRAmount("depositAmount"), Penalty: zzCRAmount("penalty"), TotalAmount: zzCRAmount("totalAmount")}
	}
	tx := &zzCRTx{typ: common2.RegisterCR, id: common.Uint256{0x22, 1}, pld: &payload.CRInfo{Code: code, CID: *cid, DID: *did, NickName: "nn", Url: "u", Location: nd.U64("location")}}
	for i, zzn := 0, nd.Choose("outputs", 2)+1; i < zzn; i++ {
		o := &common2.Output{Value: zzCRAmount("outputValue"), ProgramHash: common.Uint168{0x21, 9}}
		if nd.Bool("toDepositAddress") {
			o.ProgramHash = dh
		}
		tx.outs = append(tx.outs, o)
	}
	zzApplyAndRollback(c, tx)
}

// ZZ_C22_update: an UpdateCR transaction of a pending or active candidate
// keeping or changing the nickname.
func ZZ_C22_update() {
	c := zzCommittee(zzCRConfig())
	st := Pending
	if nd.Bool("active") {
		st = Active
	}
	cand := zzCandidate(c, 0, st)
	info := cand.Info
	info.Url = "v"
	info.Location = nd.U64("newLocation")
	if nd.Bool("newNickname") {
		info.NickName = "zz"
	}
	tx := &zzCRTx{typ: common2.UpdateCR, id: common.Uint256{0x22, 2}, pld: &info}
	zzApplyAndRollback(c, tx)
}

// ZZ_C22_unregister: an UnregisterCR transaction of a pending or active
// candidate (whose cancel height is 0, as for every candidate not cancelled).
func ZZ_C22_unregister() {
	c := zzCommittee(zzCRConfig())
	st := Pending
	if nd.Bool("active") {
		st = Active
	}
	cand := zzCandidate(c, 0, st)
	tx := &zzCRTx{typ: common2.UnregisterCR, id: common.Uint256{0x22, 3}, pld: &payload.UnregisterCR{CID: cand.Info.CID}}
	zzApplyAndRollback(c, tx)
}

// ZZ_C22_returndeposit: a ReturnCRDepositCoin transaction of a cancelled
// candidate spending 1..2 recorded deposit outputs, with 0..2 outputs each
// being change to the deposit address or not; optionally the same CID also
// has a candidate of an earlier session.
func ZZ_C22_returndeposit() {
	c := zzCommittee(zzCRConfig())
	cand := zzCandidate(c, 0, Canceled)
	cand.CancelHeight = nd.U32("cancelHeight")
	nd.Assume(cand.CancelHeight < zzH)
	delete(c.state.Nicknames, cand.Info.NickName)
	if nd.Bool("earlierCandidacy") {
		old := *cand
		old.State = CandidateState(nd.Choose("earlierState", 4))
		c.state.HistoryCandidates[1] = map[common.Uint168]*Candidate{cand.Info.CID: &old}
		c.state.CurrentSession = 2
	}
	tx := &zzCRTx{typ: common2.ReturnCRDepositCoin, id: common.Uint256{0x22, 4}, pld: &payload.ReturnDepositCoin{},
		progs: []*pg.Program{{Code: cand.Info.Code, Parameter: []byte{}}}}
	for i, zzn := 0, nd.Choose("inputs", 2)+1; i < zzn; i++ {
		in := &common2.Input{Previous: common2.OutPoint{TxID: common.Uint256{0xA0}, Index: uint16(i)}}
		c.state.DepositOutputs[in.ReferKey()] = zzCRAmount("recordedDepositOutput")
		tx.ins = append(tx.ins, in)
	}
	for i, zzn := 0, nd.Choose("outputs", 3); i < zzn; i++ {
		o := &common2.Output{Value: zzCRAmount("outputValue"), ProgramHash: common.Uint168{0x21, 9}}
		if nd.Bool("change") {
			o.ProgramHash = cand.DepositHash
		}
		tx.outs = append(tx.outs, o)
	}
	zzApplyAndRollback(c, tx)
}

func zzStake(i int) (code []byte, hash common.Uint168) {
	code = zzCRCode(i)
	ct, _ := contract.CreateStakeContractByCode(code)
	return code, *ct.ToProgramHash()
}

// ZZ_C22_voting: a Voting transaction with one content of type CRC,
// CRCProposal or CRCImpeachment (1..2 entries for the existing candidate /
// agreed proposal / elected member or for an unknown target), by a stake
// address that has or has not voted in that category before.
func ZZ_C22_voting() {
	c := zzCommittee(zzCRConfig())
	cand := zzCandidate(c, 0, Active)
	member := &CRMember{Info: payload.CRInfo{CID: common.Uint168{0x67, 5}, DID: common.Uint168{0x67, 6}}, MemberState: MemberElected, ImpeachmentVotes: zzCRAmount("impeachmentVotes")}
	c.Members[member.Info.DID] = member
	ph := common.Uint256{0x99}
	prop := &ProposalState{Status: CRAgreed, VotersRejectAmount: zzCRAmount("rejectAmount"), CRVotes: map[common.Uint168]payload.VoteResult{},
		WithdrawnBudgets: map[uint8]common.Fixed64{}, WithdrawableBudgets: map[uint8]common.Fixed64{}, BudgetsStatus: map[uint8]BudgetStatus{}}
	if nd.Bool("proposalStillRegistered") {
		prop.Status = Registered
	}
	c.manager.Proposals[ph] = prop
	pc := zzCopyProposal(prop)
	code, stake := zzStake(7)

	var vt outputpayload.VoteType
	var target, unknown []byte
	var used map[common.Uint168][]payload.VotesWithLockTime
	switch nd.Choose("category", 3) {
	case 0:
		vt, target, unknown, used = outputpayload.CRC, cand.Info.CID.Bytes(), common.Uint168{0x67, 0xEE}.Bytes(), c.state.UsedCRVotes
	case 1:
		vt, target, unknown, used = outputpayload.CRCProposal, ph.Bytes(), common.Uint256{0x98}.Bytes(), c.state.UsedCRCProposalVotes
	default:
		vt, target, unknown, used = outputpayload.CRCImpeachment, member.Info.CID.Bytes(), common.Uint168{0x67, 0xEE}.Bytes(), c.state.UsedCRImpeachmentVotes
	}
	if nd.Bool("votedBefore") {
		used[stake] = []payload.VotesWithLockTime{{Candidate: target, Votes: zzCRAmount("earlierVotes"), LockTime: 7}}
	}
	content := payload.VotesContent{VoteType: vt}
	for i, zzn := 0, nd.Choose("entries", 2)+1; i < zzn; i++ {
		cd := target
		// a CRC vote names a candidate of the current voting period (the
		// transaction's context check refuses any other, and the used CR
		// votes are cleared when the candidates are); proposal and
		// impeachment votes for unknown targets are ignored by the committee
		if vt != outputpayload.CRC && nd.Bool("unknownTarget") {
			cd = unknown
		}
		content.VotesInfo = append(content.VotesInfo, payload.VotesWithLockTime{Candidate: cd, Votes: zzCRAmount("votes"), LockTime: 9})
	}
	tx := &zzCRTx{typ: common2.Voting, id: common.Uint256{0x22, 5}, pld: &payload.Voting{Contents: []payload.VotesContent{content}},
		progs: []*pg.Program{{Code: code, Parameter: []byte{}}}}
	zzApplyAndRollback(c, tx)
	zzAssertSameProposal(prop, pc)
}

// ZZ_C22_voteoutput: a TransferAsset transaction (version 0x09) with one vote
// output carrying a CRC, CRCProposal or CRCImpeachment content for one or two
// targets (each with its own amount), which optionally also spends an earlier
// vote output of any category (one or two targets).
func ZZ_C22_voteoutput() {
	c := zzCommittee(zzCRConfig())
	cand := zzCandidate(c, 0, Active)
	cand2 := zzCandidate(c, 1, Active)
	member := &CRMember{Info: payload.CRInfo{CID: common.Uint168{0x67, 5}, DID: common.Uint168{0x67, 6}}, MemberState: MemberElected, ImpeachmentVotes: zzCRAmount("impeachmentVotes")}
	c.Members[member.Info.DID] = member
	member2 := &CRMember{Info: payload.CRInfo{CID: common.Uint168{0x67, 7}, DID: common.Uint168{0x67, 8}}, MemberState: MemberInactive, ImpeachmentVotes: zzCRAmount("impeachmentVotes2")}
	c.Members[member2.Info.DID] = member2
	ph, ph2 := common.Uint256{0x99}, common.Uint256{0x9A}
	prop := &ProposalState{Status: CRAgreed, VotersRejectAmount: zzCRAmount("rejectAmount"), CRVotes: map[common.Uint168]payload.VoteResult{},
		WithdrawnBudgets: map[uint8]common.Fixed64{}, WithdrawableBudgets: map[uint8]common.Fixed64{}, BudgetsStatus: map[uint8]BudgetStatus{}}
	prop2 := &ProposalState{Status: CRAgreed, VotersRejectAmount: zzCRAmount("rejectAmount2"), CRVotes: map[common.Uint168]payload.VoteResult{},
		WithdrawnBudgets: map[uint8]common.Fixed64{}, WithdrawableBudgets: map[uint8]common.Fixed64{}, BudgetsStatus: map[uint8]BudgetStatus{}}
	c.manager.Proposals[ph], c.manager.Proposals[ph2] = prop, prop2
	pc, pc2 := zzCopyProposal(prop), zzCopyProposal(prop2)
	cv1, cv2 := cand.Votes, cand2.Votes

	// a vote output of one category for one or two targets with their own amounts
	mk := func(name string) *common2.Output {
		var vt outputpayload.VoteType
		var targets [][]byte
		switch nd.Choose(name, 3) {
		case 0:
			vt, targets = outputpayload.CRC, [][]byte{cand.Info.CID.Bytes(), cand2.Info.CID.Bytes()}
		case 1:
			vt, targets = outputpayload.CRCProposal, [][]byte{ph.Bytes(), ph2.Bytes()}
		default:
			vt, targets = outputpayload.CRCImpeachment, [][]byte{member.Info.CID.Bytes(), member2.Info.CID.Bytes()}
		}
		content := outputpayload.VoteContent{VoteType: vt}
		for i, zzn := 0, nd.Choose(name+"Targets", 2)+1; i < zzn; i++ {
			content.CandidateVotes = append(content.CandidateVotes, outputpayload.CandidateVotes{Candidate: targets[i], Votes: zzCRAmount("outputVotes")})
		}
		return &common2.Output{Type: common2.OTVote, Value: zzCRAmount("voteOutputValue"), ProgramHash: common.Uint168{0x21, 9},
			Payload: &outputpayload.VoteOutput{Version: outputpayload.VoteProducerAndCRVersion, Contents: []outputpayload.VoteContent{content}}}
	}
	tx := &zzCRTx{typ: common2.TransferAsset, txver: common2.TxVersion09, id: common.Uint256{0x22, 6}, pld: &payload.TransferAsset{}}
	refs := map[*common2.Input]common2.Output{}
	if nd.Bool("spendsEarlierVote") {
		in := &common2.Input{Previous: common2.OutPoint{TxID: common.Uint256{0xB0}, Index: 0}}
		c.state.Votes[in.ReferKey()] = struct{}{}
		refs[in] = *mk("earlierCategory")
		tx.ins = append(tx.ins, in)
	}
	c.state.GetTxReference = func(interfaces.Transaction) (map[*common2.Input]common2.Output, error) { return refs, nil }
	if nd.Bool("castsVote") {
		tx.outs = append(tx.outs, mk("category"))
	}
	zzApplyAndRollback(c, tx)
	zzAssertSameProposal(prop, pc)
	zzAssertSameProposal(prop2, pc2)
	nd.Assert(cand.Votes == cv1 && cand2.Votes == cv2, "rollback_restores_each_candidates_votes")
}

// ZZ_C22_funds: a transaction paying 1..2 outputs to the CR assets, CR
// expenses, destroy or another address and spending 0..2 recorded CR assets /
// CR expenses outputs.
func ZZ_C22_funds() {
	c := zzCommittee(zzCRConfig())
	c.CRCFoundationBalance, c.CRCCommitteeBalance, c.DestroyedAmount = zzCRAmount("foundationBalance"), zzCRAmount("committeeBalance"), zzCRAmount("destroyed")
	c.CRAssetsAddressUTXOCount = nd.U32("utxoCount")
	tx := &zzCRTx{typ: common2.TransferAsset, id: common.Uint256{0x22, 7}, pld: &payload.TransferAsset{}}
	for i, zzn := 0, nd.Choose("inputs", 3); i < zzn; i++ {
		in := &common2.Input{Previous: common2.OutPoint{TxID: common.Uint256{0xC0}, Index: uint16(i)}}
		switch nd.Choose("inputKind", 3) {
		case 0:
			c.state.CRCFoundationOutputs[in.Previous.ReferKey()] = zzCRAmount("recordedFoundationOutput")
		case 1:
			c.state.CRCCommitteeOutputs[in.Previous.ReferKey()] = zzCRAmount("recordedCommitteeOutput")
		}
		tx.ins = append(tx.ins, in)
	}
	for i, zzn := 0, nd.Choose("outputs", 2)+1; i < zzn; i++ {
		o := &common2.Output{Value: zzCRAmount("outputValue")}
		switch nd.Choose("outputKind", 4) {
		case 0:
			o.ProgramHash = zzAssetsHash
		case 1:
			o.ProgramHash = zzExpensesHash
		case 2:
			o.ProgramHash = zzDestroyHash
		default:
			o.ProgramHash = common.Uint168{0x21, 9}
		}
		tx.outs = append(tx.outs, o)
	}
	zzApplyAndRollback(c, tx)
}
