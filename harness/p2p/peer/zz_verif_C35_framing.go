//go:build verif

package peer

import (
	"errors"
	"io"
	"net"
	"time"

	"github.com/elastos/Elastos.ELA/common"
	"github.com/elastos/Elastos.ELA/core/types"
	"github.com/elastos/Elastos.ELA/p2p"
	"github.com/elastos/Elastos.ELA/p2p/msg"
	"github.com/elastos/Elastos.ELA/zzverif/nd"
)

// zzConn: a scripted in-memory connection (the statement's observation point
// is "ReadMessage over an in-memory connection").
type zzConn struct {
	net.Conn
	in   []byte
	pos  int
	out  []byte
}

func (c *zzConn) Read(p []byte) (int, error) {
	if c.pos >= len(c.in) {
		return 0, io.EOF
	}
	n := 0
	for n < len(p) && c.pos < len(c.in) {
		p[n] = c.in[c.pos]
		n++
		c.pos++
	}
	return n, nil
}
func (c *zzConn) Write(p []byte) (int, error) {
	c.out = append(c.out, p...)
	return len(p), nil
}
func (c *zzConn) SetReadDeadline(t time.Time) error  { return nil }
func (c *zzConn) SetWriteDeadline(t time.Time) error { return nil }

var zzKnown = []string{p2p.CmdVersion, p2p.CmdVerAck, p2p.CmdGetAddr, p2p.CmdAddr, p2p.CmdPing, p2p.CmdPong}

func zzPeer() *Peer {
	p := &Peer{}
	p.cfg.CreateMessage = func(hdr p2p.Header, r net.Conn) (p2p.Message, error) {
		return nil, errors.New("unknown command")
	}
	return p
}

// ZZ_C35_read: 24 fully symbolic header bytes followed by 0..9 symbolic payload
// bytes on the connection. A successful read implies: magic equal, command
// NUL-terminated and one of the peer's commands, declared length equal to the
// bytes consumed and not above the command's maximum, checksum = first four
// bytes of the double SHA-256 of the payload; and whatever the header says,
// nothing larger than the 32 MiB message cap is allocated.
func ZZ_C35_read() {
	avail := nd.Choose("payloadAvailable", 10)
	hdr := nd.Bytes("header", 24)
	payload := nd.Bytes("payload", avail)
	conn := &zzConn{in: append(append([]byte{}, hdr...), payload...)}
	magic := nd.U32("magic")
	nd.MaxLen(10)
	nd.AllocLimit(32 << 20)
	var m p2p.Message
	var err error
	nd.NoPanic("ReadMessage", func() { m, err = p2p.ReadMessage(conn, magic, time.Second, zzPeer().createMessage) })
	nd.Reach("returned")
	if err != nil {
		return
	}
	nd.Reach("accepted")
	gotMagic := uint32(hdr[0]) | uint32(hdr[1])<<8 | uint32(hdr[2])<<16 | uint32(hdr[3])<<24
	nd.Assert(gotMagic == magic, "accepted_message_has_the_network_magic")
	declared := uint32(hdr[16]) | uint32(hdr[17])<<8 | uint32(hdr[18])<<16 | uint32(hdr[19])<<24
	consumed := conn.pos - 24
	nd.Assert(uint32(consumed) == declared, "declared_length_equals_bytes_consumed")
	nd.Assert(declared <= m.MaxLength(), "declared_length_within_command_maximum")
	// command: NUL-terminated, equals the returned message's command
	cmd := m.CMD()
	okCmd := len(cmd) < 12
	for i := 0; okCmd && i < 12; i++ {
		if i < len(cmd) {
			okCmd = hdr[4+i] == cmd[i]
		} else {
			okCmd = hdr[4+i] == 0
		}
	}
	nd.Assert(okCmd, "command_field_is_the_nul_padded_command")
	known := false
	for _, k := range zzKnown {
		if k == cmd {
			known = true
		}
	}
	nd.Assert(known, "command_is_known")
	if consumed >= 0 && consumed <= avail {
		sum := common.Sha256D(payload[:consumed])
		nd.Assert(hdr[20] == sum[0] && hdr[21] == sum[1] && hdr[22] == sum[2] && hdr[23] == sum[3], "checksum_is_double_sha256_of_payload")
	}
}

func zzRoundTrip(m p2p.Message, fresh p2p.Message) (p2p.Message, error) {
	conn := &zzConn{}
	magic := nd.U32("magic")
	err := p2p.WriteMessage(conn, magic, m, time.Second, func(p2p.Message) (*types.DposBlock, bool) { return nil, false })
	nd.Assert(err == nil, "write_succeeds")
	if err != nil {
		return nil, err
	}
	rc := &zzConn{in: conn.out}
	got, err := p2p.ReadMessage(rc, magic, time.Second, zzPeer().createMessage)
	nd.Assert(err == nil, "written_message_is_read_back")
	if err == nil {
		nd.Assert(rc.pos == len(rc.in), "read_consumes_exactly_what_was_written")
	}
	return got, err
}

// ZZ_C35_roundtrip: a message written by the node is read back as an equal
// message (ping, pong, verack, getaddr, version, addr with one address).
func ZZ_C35_roundtrip() {
	switch nd.Choose("kind", 5) {
	case 0:
		m := &msg.Ping{Nonce: nd.U64("nonce")}
		got, err := zzRoundTrip(m, nil)
		if err == nil {
			g, ok := got.(*msg.Ping)
			nd.Assert(ok && g.Nonce == m.Nonce, "ping_round_trips")
		}
	case 1:
		m := &msg.Pong{}
		m.Nonce = nd.U64("nonce")
		got, err := zzRoundTrip(m, nil)
		if err == nil {
			g, ok := got.(*msg.Pong)
			nd.Assert(ok && g.Nonce == m.Nonce, "pong_round_trips")
		}
	case 2:
		got, err := zzRoundTrip(&msg.VerAck{}, nil)
		if err == nil {
			_, ok := got.(*msg.VerAck)
			nd.Assert(ok, "verack_round_trips")
		}
	case 3:
		m := &msg.Version{Version: nd.U32("version"), Services: nd.U64("services"), Port: nd.U16("port"),
			Nonce: nd.U64("nonce"), Height: nd.U64("height"), Relay: nd.Bool("relay")}
		ts := nd.U32("timestamp")
		m.Timestamp = time.Unix(int64(ts), 0)
		m.NodeVersion = string(nd.Bytes("nodeVersion", nd.Choose("nodeVersionLen", 3)))
		got, err := zzRoundTrip(m, nil)
		if err == nil {
			g, ok := got.(*msg.Version)
			nd.Assert(ok, "version_round_trips_type")
			if ok {
				nd.Assert(g.Version == m.Version && g.Services == m.Services && g.Port == m.Port && g.Nonce == m.Nonce &&
					g.Height == m.Height && g.Relay == m.Relay && g.Timestamp.Unix() == m.Timestamp.Unix(), "version_fields_round_trip")
				if m.Version >= 80000 { // pact.CRProposalVersion
					nd.Assert(g.NodeVersion == m.NodeVersion, "version_node_version_round_trips")
				}
			}
		}
	case 4:
		na := &p2p.NetAddress{Services: nd.U64("services"), Port: nd.U16("port")}
		na.Timestamp = time.Unix(int64(nd.U32("timestamp")), 0)
		na.IP = net.IP(nd.Bytes("ip", 16))
		m := msg.NewAddr([]*p2p.NetAddress{na})
		got, err := zzRoundTrip(m, nil)
		if err == nil {
			g, ok := got.(*msg.Addr)
			nd.Assert(ok && len(g.AddrList) == 1, "addr_round_trips_count")
			if ok && len(g.AddrList) == 1 {
				a := g.AddrList[0]
				same := a.Services == na.Services && a.Port == na.Port && a.Timestamp.Unix() == na.Timestamp.Unix() && len(a.IP) == 16
				for i := 0; same && i < 16; i++ {
					same = a.IP[i] == na.IP[i]
				}
				nd.Assert(same, "addr_fields_round_trip")
			}
		}
	}
	nd.Reach("done")
}
