//go:build verif

package p2p

import (
	"bytes"
	"io"
	"net"
	"time"

	"github.com/elastos/Elastos.ELA/common"
	"github.com/elastos/Elastos.ELA/core/types"
	common2 "github.com/elastos/Elastos.ELA/core/types/common"
	"github.com/elastos/Elastos.ELA/core/types/payload"
	"github.com/elastos/Elastos.ELA/zzverif/nd"
)

type zzSink struct {
	net.Conn
	out []byte
}

func (c *zzSink) Write(p []byte) (int, error)        { c.out = append(c.out, p...); return len(p), nil }
func (c *zzSink) SetWriteDeadline(t time.Time) error { return nil }

type zzBlockMsg struct{ b *types.DposBlock }

func (m *zzBlockMsg) CMD() string                  { return CmdBlock }
func (m *zzBlockMsg) MaxLength() uint32            { return 8 << 20 }
func (m *zzBlockMsg) Serialize(w io.Writer) error  { return m.b.Serialize(w) }
func (m *zzBlockMsg) Deserialize(r io.Reader) error { return m.b.Deserialize(r) }

// ZZ_C15_sendcache: the serialized-block send cache of WriteMessage. Blocks
// from a pool of 3 (with or without confirm) are sent in an arbitrary sequence
// of 4 sends; every send must put exactly header + fresh serialization of that
// block on the wire, and the cache (both levels) must stay within
// BlocksCacheSize entries.
func ZZ_C15_sendcache() {
	mtx.Lock()
	blockHashesCache = make([]common.Uint256, 0, BlocksCacheSize)
	blockConfirmsCache = make([]bool, 0, BlocksCacheSize)
	blocksCache = make(map[common.Uint256]map[bool][]byte)
	mtx.Unlock()
	var pool []*types.DposBlock
	for i := 0; i < 3; i++ {
		b := &types.DposBlock{Block: &types.Block{Header: common2.Header{Version: 0, Nonce: uint32(i + 1), Height: uint32(10 + i)}}}
		pool = append(pool, b)
	}
	sends := 4
	if nd.Tier() > 0 {
		sends = 5
	}
	for s := 0; s < sends; s++ {
		b := pool[nd.Choose("block", 3)]
		withConfirm := nd.Choose("haveConfirm", 2) == 1
		cp := &types.DposBlock{Block: b.Block, HaveConfirm: withConfirm}
		if withConfirm {
			cp.Confirm = &payload.Confirm{}
			cp.Confirm.Proposal.Sponsor = []byte{1}
			cp.Confirm.Proposal.Sign = []byte{2}
		}
		want := new(bytes.Buffer)
		cp.Serialize(want)
		conn := &zzSink{}
		err := WriteMessage(conn, 7, &zzBlockMsg{cp}, time.Second, func(Message) (*types.DposBlock, bool) { return cp, true })
		nd.Assert(err == nil, "send_succeeds")
		if err == nil {
			nd.Assert(len(conn.out) == HeaderSize+want.Len() && bytes.Equal(conn.out[HeaderSize:], want.Bytes()), "wire_bytes_equal_fresh_serialization")
		}
		nd.Assert(len(blockHashesCache) <= BlocksCacheSize && len(blockConfirmsCache) <= BlocksCacheSize, "eviction_queue_within_bound")
		nd.Assert(len(blocksCache) <= BlocksCacheSize, "cache_map_within_bound")
		inner := 0
		for _, m := range blocksCache {
			inner += len(m)
		}
		nd.Assert(inner <= BlocksCacheSize, "cached_serializations_within_bound")
	}
	nd.Reach("done")
}
