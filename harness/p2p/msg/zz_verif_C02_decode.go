//go:build verif

package msg

import (
	"bytes"

	"github.com/elastos/Elastos.ELA/zzverif/nd"
)

const zzC02Limit = 8 << 20

// The inv and addr decoders read their elements through encoding/binary.Read
// (reflection), which the engine cannot encode: they are outside this claim.

// ZZ_C02_getblocks: block locator decoder.
func ZZ_C02_getblocks() {
	data := nd.Bytes("input", 4+32+32)
	r := bytes.NewReader(data)
	nd.AllocLimit(zzC02Limit)
	m := &GetBlocks{}
	nd.NoPanic("GetBlocks.Deserialize", func() { m.Deserialize(r) })
	nd.Reach("returned")
}
