//go:build verif

package utils

import (
	"github.com/elastos/Elastos.ELA/zzverif/nd"
)

// ZZ_C20_seek: heights 1..4 are committed with 1-2 additive changes each
// (arbitrary deltas); then two seeks to arbitrary heights, a commit of a new
// height, and a rollback to an arbitrary height. After every step the state
// must equal the prefix sum for the height the history claims to be at.
// "Within capacity" = not more than the retained number of heights below the
// best height. Changes within one height are additive (they commute), as in
// the callers; non-commuting changes in one height are outside this claim.
func ZZ_C20_seek() {
	const H = 4
	capc := nd.Choose("capacity", 4) + 2 // 2..5
	h := NewHistory(capc)
	var x int64
	var S [H + 2]int64
	for ht := 1; ht <= H; ht++ {
		k := 1 + ht%2 // quick: 2,1,2,1 changes per height
		if nd.Tier() > 0 {
			k = nd.Choose("changes", 3) + 1
		}
		for j := 0; j < k; j++ {
			d := int64(nd.U16("delta"))
			h.Append(uint32(ht), func() { x += d }, func() { x -= d })
		}
		h.Commit(uint32(ht))
		S[ht] = x
	}
	retained := capc
	if retained > H {
		retained = H
	}
	low := H - retained // lowest height that can still be reached

	at := H
	for i := 0; i < 2; i++ {
		t := nd.Choose("seek", H+1)
		err := h.SeekTo(uint32(t))
		if t >= low {
			nd.Assert(err == nil, "seek_within_capacity_succeeds")
		}
		if err == nil {
			at = t
		}
		nd.Assert(x == S[at], "state_after_seek")
	}
	nd.Reach("seeked")

	// a new height arrives while seeked: same result as never having seeked
	d := int64(nd.U16("delta"))
	h.Append(H+1, func() { x += d }, func() { x -= d })
	h.Commit(H + 1)
	S[H+1] = S[H] + d
	nd.Assert(x == S[H+1], "commit_after_seek_equals_never_seeked")
	nd.Assert(h.Height() == H+1, "height_after_commit")

	retained2 := capc
	if retained2 > H+1 {
		retained2 = H + 1
	}
	low2 := H + 1 - retained2
	t := nd.Choose("rollback", H+2)
	if t >= low2 {
		err := h.RollbackTo(uint32(t))
		nd.Assert(err == nil, "rollback_within_capacity_succeeds")
		nd.Assert(x == S[t], "state_after_rollback")
		nd.Assert(h.Height() == uint32(t), "height_after_rollback")
		// and moving forward again from there
		if t < H+1 {
			d2 := int64(nd.U16("delta"))
			h.Append(uint32(t+1), func() { x += d2 }, func() { x -= d2 })
			h.Commit(uint32(t + 1))
			nd.Assert(x == S[t]+d2, "commit_after_rollback")
		}
	}
	nd.Reach("done")
}

// ZZ_C20_mixed: heights 1..4 committed with additive changes, where one height
// may be committed in two batches (two Commit calls for the same height, as
// happens when two components share a height); then an optional seek, a
// rollback to any height still within capacity (also while the state is
// seeked below or above the target), a commit of the next height, and a final
// rollback. After every step the state equals the prefix sum of the height the
// history claims. Capacity counts distinct heights.
func ZZ_C20_mixed() {
	const H = 4
	capc := nd.Choose("capacity", 3) + 2 // 2..4
	h := NewHistory(capc)
	var x int64
	var S [H + 3]int64
	dup := nd.Choose("doubleCommitHeight", H+1) // 0 = none
	for ht := 1; ht <= H; ht++ {
		n := 1
		if ht == dup {
			n = 2
		}
		for b := 0; b < n; b++ {
			d := int64(nd.U16("delta"))
			h.Append(uint32(ht), func() { x += d }, func() { x -= d })
			h.Commit(uint32(ht))
		}
		S[ht] = x
		nd.Assert(h.Height() == uint32(ht), "height_after_commit")
	}
	// Heights still held (ghost of the retention rule stated in Commit: when
	// `capacity` distinct heights are already held, a commit first drops the
	// oldest height — also when it adds a second batch to the newest height).
	var held []int
	for ht := 1; ht <= H; ht++ {
		n := 1
		if ht == dup {
			n = 2
		}
		for b := 0; b < n; b++ {
			if len(held) >= capc {
				held = held[1:]
			}
			if len(held) == 0 || held[len(held)-1] != ht {
				held = append(held, ht)
			}
		}
	}
	low := held[0] - 1 // the lowest height that can still be reached
	at := H
	if nd.Choose("seekFirst", 2) == 1 {
		t := low + nd.Choose("seek", H-low+1)
		err := h.SeekTo(uint32(t))
		nd.Assert(err == nil, "seek_within_capacity_succeeds")
		if err == nil {
			at = t
		}
		nd.Assert(x == S[at], "state_after_seek")
	}
	nd.Reach("prepared")
	t := low + nd.Choose("rollback", H-low) // a height below the best height
	err := h.RollbackTo(uint32(t))
	nd.Assert(err == nil, "rollback_within_capacity_succeeds")
	nd.Assert(h.Height() == uint32(t), "height_after_rollback")
	nd.Assert(x == S[t], "state_after_rollback_equals_prefix_sum")
	// the next height arrives
	d := int64(nd.U16("delta"))
	h.Append(uint32(t+1), func() { x += d }, func() { x -= d })
	h.Commit(uint32(t + 1))
	S[t+1] = S[t] + d
	nd.Assert(x == S[t+1], "commit_after_rollback_equals_prefix_sum")
	// and it can be undone again
	err = h.RollbackTo(uint32(t))
	nd.Assert(err == nil && x == S[t], "second_rollback_restores_prefix_sum")
	nd.Reach("done")
}
