//go:build verif

package common

import (
	"bytes"

	"github.com/elastos/Elastos.ELA/zzverif/nd"
)

// ZZ_C02_varbytes: ReadVarBytes with an arbitrary field limit never allocates
// more than that limit (nor more than the 8 MiB message cap when the limit is
// below it), never panics, and returns exactly the announced bytes.
func ZZ_C02_varbytes() {
	data := nd.Bytes("input", 12)
	max := nd.U32("maxAllowed")
	nd.Assume(max <= 8<<20)
	r := bytes.NewReader(data)
	nd.AllocLimit(8 << 20)
	var out []byte
	var err error
	nd.NoPanic("ReadVarBytes", func() { out, err = ReadVarBytes(r, max, "field") })
	nd.Reach("returned")
	if err == nil {
		nd.Assert(uint32(len(out)) <= max, "length_within_limit")
		nd.Assert(len(out) <= 11, "no_more_than_input")
	}
}
