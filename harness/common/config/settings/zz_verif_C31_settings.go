//go:build verif

package settings

import (
	"github.com/elastos/Elastos.ELA/common/config"
	"github.com/elastos/Elastos.ELA/zzverif/nd"
)

func zzLower(b byte) byte {
	if b >= 'A' && b <= 'Z' {
		return b + 32
	}
	return b
}

// zzIsMainName: case-insensitive "", "mainnet", "main" (ASCII bytes; names
// with non-ASCII bytes are never one of the three).
func zzIsMainName(s []byte) bool {
	for _, w := range []string{"", "mainnet", "main"} {
		if len(s) != len(w) {
			continue
		}
		ok := true
		for i := range s {
			if zzLower(s[i]) != w[i] {
				ok = false
			}
		}
		if ok {
			return true
		}
	}
	return false
}

// ZZ_C31_settings: whatever heights the local configuration carries, after
// enforcement mainnet has the two coordinated constants and every other
// network name has the policy disabled (both MaxUint32).
func ZZ_C31_settings() {
	n := nd.Choose("nameLen", 9) // 0..8 bytes
	name := nd.Bytes("activeNet", n)
	for i := range name {
		nd.Assume(name[i] < 0x80) // ASCII names; multi-byte UTF-8 case folding outside the claim
	}
	cfg := &config.Configuration{}
	cfg.ActiveNet = string(name)
	cfg.CrossChainUTXOFreezeHeight = nd.U32("localFreeze")
	cfg.CrossChainUTXORestrictionHeight = nd.U32("localRestriction")
	enforceCrossChainUTXORestrictionHeights(cfg)
	nd.Reach("enforced")
	if zzIsMainName(name) {
		nd.Reach("mainnet")
		nd.Assert(cfg.CrossChainUTXOFreezeHeight == 2256110, "mainnet_freeze_height_is_coordinated_constant")
		nd.Assert(cfg.CrossChainUTXORestrictionHeight == 2256724, "mainnet_restriction_height_is_coordinated_constant")
	} else {
		nd.Assert(cfg.CrossChainUTXOFreezeHeight == 0xffffffff, "other_networks_policy_disabled_freeze")
		nd.Assert(cfg.CrossChainUTXORestrictionHeight == 0xffffffff, "other_networks_policy_disabled_restriction")
	}
}
