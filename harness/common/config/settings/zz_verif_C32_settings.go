//go:build verif

package settings

import (
	"github.com/elastos/Elastos.ELA/common/config"
	"github.com/elastos/Elastos.ELA/zzverif/nd"
)

// ZZ_C32_settings: on mainnet the frozen list after enforcement is the
// coordinated one whatever the local list was; after Sterilize-style
// resolution every entry has a program hash (so the check cannot skip it).
func ZZ_C32_settings() {
	names := []string{"", "mainnet", "MainNet", "main", "MAIN"}
	cfg := &config.Configuration{}
	cfg.ActiveNet = names[nd.Choose("name", len(names))]
	nl := nd.Choose("localEntries", 3)
	for i := 0; i < nl; i++ {
		cfg.FrozenAddresses = append(cfg.FrozenAddresses, config.FrozenAddress{Address: "local", DisableStartHeight: nd.U32("localStart")})
	}
	enforceFrozenAddresses(cfg)
	nd.Reach("enforced")
	nd.Assert(len(cfg.FrozenAddresses) == 1, "mainnet_list_has_the_coordinated_entry")
	if len(cfg.FrozenAddresses) == 1 {
		nd.Assert(cfg.FrozenAddresses[0].Address == "EfduuvdDcAgif8njgXNJUfsBumQf9yYP72", "mainnet_frozen_address_is_coordinated")
		nd.Assert(cfg.FrozenAddresses[0].DisableStartHeight == 2256110, "mainnet_frozen_start_is_freeze_height")
	}
}
