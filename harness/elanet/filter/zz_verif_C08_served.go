//go:build verif

package filter

import (
	"github.com/elastos/Elastos.ELA/common"
	"github.com/elastos/Elastos.ELA/core/transaction"
	common2 "github.com/elastos/Elastos.ELA/core/types/common"
	"github.com/elastos/Elastos.ELA/core/types/interfaces"
	"github.com/elastos/Elastos.ELA/core/types/payload"
	"github.com/elastos/Elastos.ELA/crypto"
	"github.com/elastos/Elastos.ELA/zzverif/nd"
)

// zzWatch: a transaction filter that matches exactly the chosen transactions
// (which transactions a real filter matches is C39's subject)
type zzWatch struct {
	TxFilter
	ids map[common.Uint256]bool
}

func (w *zzWatch) MatchConfirmed(tx interfaces.Transaction) bool { return w.ids[tx.Hash()] }

// ZZ_C08_served: the server side's own builder and checker (this package has
// a second copy of the merkle-block code, the one the node serves SPV peers
// with): for every transaction count 1..7 and every match pattern the merkle
// block built by NewMerkleBlock verifies with CheckMerkleBlock, the root it
// recomputes is the block's real merkle root, and it yields exactly the
// matched transaction ids in block order.
func ZZ_C08_served() {
	n := nd.Choose("transactions", 7) + 1
	var txs []interfaces.Transaction
	var ids []common.Uint256
	w := &zzWatch{ids: map[common.Uint256]bool{}}
	var want []common.Uint256
	for i := 0; i < n; i++ {
		tx := transaction.CreateTransaction(common2.TxVersion09, common2.TransferAsset, 0, &payload.TransferAsset{},
			nil, nil, nil, uint32(1000+i), nil)
		txs = append(txs, tx)
		ids = append(ids, tx.Hash())
		if nd.Choose("watched", 2) == 1 {
			w.ids[tx.Hash()] = true
			want = append(want, tx.Hash())
		}
	}
	root, _ := crypto.ComputeRoot(ids)
	mb, idx := NewMerkleBlock(txs, &Filter{filter: w})
	mb.Header = &common2.Header{MerkleRoot: root}
	nd.Assert(len(idx) == len(want), "every_watched_transaction_is_matched")
	var got []*common.Uint256
	var err error
	nd.NoPanic("CheckMerkleBlock", func() { got, err = CheckMerkleBlock(*mb) })
	nd.Reach("checked")
	nd.Assert(err == nil, "served_merkle_block_verifies_against_the_block_root")
	if err != nil {
		return
	}
	nd.Assert(len(got) == len(want), "client_recovers_as_many_ids_as_matched")
	if len(got) == len(want) {
		for i := range got {
			nd.Assert(*got[i] == want[i], "client_recovers_exactly_the_matched_ids_in_order")
		}
	}
}
