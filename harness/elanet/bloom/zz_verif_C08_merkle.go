//go:build verif

package bloom

import (
	"github.com/elastos/Elastos.ELA/auxpow"
	"github.com/elastos/Elastos.ELA/common"
	"github.com/elastos/Elastos.ELA/core/transaction"
	"github.com/elastos/Elastos.ELA/core/types"
	common2 "github.com/elastos/Elastos.ELA/core/types/common"
	"github.com/elastos/Elastos.ELA/core/types/interfaces"
	"github.com/elastos/Elastos.ELA/core/types/payload"
	"github.com/elastos/Elastos.ELA/crypto"
	"github.com/elastos/Elastos.ELA/p2p/msg"
	"github.com/elastos/Elastos.ELA/zzverif/nd"
)

// zzC08block: a block of n distinct (concrete) transfer transactions whose
// header carries the real merkle root, and the transaction ids.
func zzC08block(n int) (*types.Block, []common.Uint256) {
	b := &types.Block{}
	var ids []common.Uint256
	for i := 0; i < n; i++ {
		tx := transaction.CreateTransaction(common2.TxVersion09, common2.TransferAsset, 0, &payload.TransferAsset{},
			nil, nil, nil, uint32(1000+i), nil)
		b.Transactions = append(b.Transactions, interfaces.Transaction(tx))
		ids = append(ids, tx.Hash())
	}
	root, _ := crypto.ComputeRoot(ids)
	b.Header.MerkleRoot = root
	return b, ids
}

// zzC08serve: the merkle block the node serves for a filter that watches the
// transactions selected by an arbitrary pattern.
func zzC08serve(n int) (*msg.MerkleBlock, []uint32, []common.Uint256, []bool) {
	blk, ids := zzC08block(n)
	f := LoadFilter(&msg.FilterLoad{Filter: make([]byte, 64), HashFuncs: 3, Tweak: 5})
	want := make([]bool, n)
	for i := 0; i < n; i++ {
		if nd.Choose("watched", 2) == 1 {
			want[i] = true
			f.AddHash(&ids[i])
		}
	}
	mb, idx := NewMerkleBlock(blk, f)
	return mb, idx, ids, want
}

// ZZ_C08_complete: for every transaction count 1..7 and every
// match pattern, the served merkle block verifies against the block's merkle
// root and yields exactly the matched transaction ids in block order; every
// watched transaction is among them; and the single-transaction branch derived
// from the merkle block recomputes the root.
func ZZ_C08_complete() {
	n := nd.Choose("transactions", 7) + 1
	mb, idx, ids, want := zzC08serve(n)
	var got []*common.Uint256
	var err error
	nd.NoPanic("CheckMerkleBlock", func() { got, err = CheckMerkleBlock(*mb) })
	nd.Reach("checked")
	nd.Assert(err == nil, "served_merkle_block_verifies_against_the_block_root")
	if err != nil {
		return
	}
	nd.Assert(len(got) == len(idx), "client_recovers_as_many_ids_as_matched")
	if len(got) == len(idx) {
		for i := range got {
			nd.Assert(*got[i] == ids[idx[i]], "client_recovers_exactly_the_matched_ids_in_order")
		}
	}
	for i := range want {
		if want[i] {
			found := false
			for _, j := range idx {
				if int(j) == i {
					found = true
				}
			}
			nd.Assert(found, "every_watched_transaction_is_matched")
		}
	}
	root := mb.Header.(*common2.Header).MerkleRoot
	for _, j := range idx {
		var br *MerkleBranch
		nd.NoPanic("GetTxMerkleBranch", func() { br, err = GetTxMerkleBranch(*mb, &ids[j]) })
		nd.Assert(err == nil && br != nil, "branch_can_be_derived_for_a_matched_transaction")
		if err == nil && br != nil {
			nd.Assert(auxpow.GetMerkleRoot(ids[j], br.Branches, br.Index) == root, "single_transaction_branch_recomputes_the_root")
		}
	}
}

// ZZ_C08_flags: take a served merkle block and replace its flag bytes by
// arbitrary ones (every corruption of the flags, not only single bits): the
// check never panics, and if it still succeeds every id it returns is a
// transaction of the block.
func ZZ_C08_flags() {
	n := nd.Choose("transactions", 4) + 1
	mb, _, ids, _ := zzC08serve(n)
	mb.Flags = nd.Bytes("flags", len(mb.Flags)+nd.Choose("extraFlagByte", 2))
	var got []*common.Uint256
	var err error
	nd.NoPanic("CheckMerkleBlock", func() { got, err = CheckMerkleBlock(*mb) })
	nd.Reach("checked")
	if err == nil {
		nd.Reach("accepted")
		for _, g := range got {
			in := false
			for i := range ids {
				if *g == ids[i] {
					in = true
				}
			}
			nd.Assert(in, "accepted_proof_returns_only_transactions_of_the_block")
		}
	}
}

// ZZ_C08_hashes: replace one hash of a served merkle block by an arbitrary
// different value (every corruption of that hash): verification fails.
// SHA-256 is collision-free by assumption (a symbolic input hashing to a value
// computed for a concrete input must be that input).
func ZZ_C08_hashes() {
	n := nd.Choose("transactions", 4) + 1
	mb, _, _, _ := zzC08serve(n)
	k := nd.Choose("corruptedHash", len(mb.Hashes))
	var bad common.Uint256
	copy(bad[:], nd.Bytes("corrupted", 32))
	nd.Assume(bad != *mb.Hashes[k])
	mb.Hashes[k] = &bad
	var err error
	nd.NoPanic("CheckMerkleBlock", func() { _, err = CheckMerkleBlock(*mb) })
	nd.Reach("checked")
	nd.Assert(err != nil, "corrupted_hash_never_verifies_against_the_root")
}
