//go:build verif

package bloom

import (
	"github.com/elastos/Elastos.ELA/common"
	common2 "github.com/elastos/Elastos.ELA/core/types/common"
	"github.com/elastos/Elastos.ELA/core/types/outputpayload"
	"github.com/elastos/Elastos.ELA/core/types/payload"
	"github.com/elastos/Elastos.ELA/core/transaction"
	"github.com/elastos/Elastos.ELA/p2p/msg"
	"github.com/elastos/Elastos.ELA/zzverif/nd"
)

func zzC39filter() (*Filter, []byte) {
	return zzC39filterN(4, 3)
}

func zzC39filterN(nmax, hmax int) (*Filter, []byte) {
	nd.AbstractArith()
	if nd.Tier() > 0 {
		nmax, hmax = 2*nmax, 3
	}
	n := nd.Choose("filterLen", nmax) + 1 // non-empty filters (the empty one is a C03 question)
	data := nd.Bytes("filter", n)
	hf := uint32(nd.Choose("hashFuncs", hmax) + 1)
	tweak := nd.U32("tweak")
	return LoadFilter(&msg.FilterLoad{Filter: data, HashFuncs: hf, Tweak: tweak}), data
}

// ZZ_C39_addmatch: for every filter content, hash count, tweak and elements
// x, y: after Add(x); Add(y) both match and no bit was cleared.
func ZZ_C39_addmatch() {
	bf, data := zzC39filter()
	before := append([]byte{}, data...)
	lmax := 6
	if nd.Tier() > 0 {
		lmax = 10
	}
	x := nd.Bytes("x", nd.Choose("xLen", lmax))
	y := nd.Bytes("y", nd.Choose("yLen", 3)*2)
	nd.NoPanic("Add", func() {
		bf.Add(x)
		bf.Add(y)
	})
	nd.Reach("added")
	nd.Assert(bf.Matches(x), "first_added_element_still_matches")
	nd.Assert(bf.Matches(y), "last_added_element_matches")
	for i := range before {
		nd.Assert(data[i]&before[i] == before[i], "bits_are_only_ever_set")
	}
}

// ZZ_C39_outpoint: an added outpoint matches; AddHash'd hash matches.
func ZZ_C39_outpoint() {
	bf, _ := zzC39filter()
	var op common2.OutPoint
	copy(op.TxID[:], nd.Bytes("txid", 32))
	op.Index = nd.U16("index")
	bf.AddOutPoint(&op)
	var h common.Uint256
	copy(h[:], nd.Bytes("hash", 32))
	bf.AddHash(&h)
	nd.Reach("added")
	nd.Assert(bf.MatchesOutPoint(&op), "added_outpoint_matches")
	nd.Assert(bf.Matches(h[:]), "added_hash_matches")
}

// ZZ_C39_tx: a transaction that pays to a watched program hash matches and
// its new outpoint is matched afterwards; a transaction that spends a watched
// outpoint matches.
func ZZ_C39_tx() {
	bf, _ := zzC39filterN(2, 2)
	nd.Assume(bf.msg.Tweak != 0xffffffff) // the side-chain SPV mode is ZZ_C39_spv
	var watched common.Uint168
	copy(watched[:], nd.Bytes("watched", 21))
	var wop common2.OutPoint
	copy(wop.TxID[:], nd.Bytes("watchedTxid", 32))
	wop.Index = nd.U16("watchedIndex")
	mode := nd.Choose("mode", 2)
	if mode == 0 {
		bf.Add(watched[:])
	} else {
		bf.AddOutPoint(&wop)
	}
	tx := transaction.CreateTransaction(common2.TxVersion09, common2.TransferAsset, 0, &payload.TransferAsset{},
		nil, nil, nil, 0, nil)
	k := nd.Choose("outs", 2) + 1
	pos := nd.Choose("pos", k)
	var outs []*common2.Output
	for i := 0; i < k; i++ {
		o := &common2.Output{Payload: &outputpayload.DefaultOutput{}}
		if mode == 0 && i == pos {
			o.ProgramHash = watched
		} else {
			copy(o.ProgramHash[:], nd.Bytes("otherHash", 21))
		}
		outs = append(outs, o)
	}
	tx.SetOutputs(outs)
	m := nd.Choose("ins", 2) + 1
	ipos := nd.Choose("ipos", m)
	var ins []*common2.Input
	for i := 0; i < m; i++ {
		inp := &common2.Input{}
		if mode == 1 && i == ipos {
			inp.Previous = wop
		} else {
			copy(inp.Previous.TxID[:], nd.Bytes("otherTxid", 32))
			inp.Previous.Index = nd.U16("otherIndex")
		}
		ins = append(ins, inp)
	}
	tx.SetInputs(ins)
	if nd.Choose("txidAlsoWatched", 2) == 1 {
		// the transaction's own id is in the filter as well (a wallet that
		// created the transaction watches it): the outputs must still be processed
		h := tx.Hash()
		bf.AddHash(&h)
	}
	matched := bf.MatchTxAndUpdate(tx)
	nd.Reach("decided")
	nd.Assert(matched, "relevant_transaction_matches")
	if mode == 0 {
		nd.Assert(bf.MatchesOutPoint(common2.NewOutPoint(tx.Hash(), uint16(pos))), "outpoint_paying_watched_hash_added_to_filter")
	}
}

// ZZ_C39_spv: side-chain SPV filters (tweak MaxUint32) match a transaction
// paying to a watched hash and a transaction of a watched type.
func ZZ_C39_spv() {
	nd.AbstractArith()
	n := nd.Choose("filterLen", 3) + 1
	data := nd.Bytes("filter", n)
	hf := uint32(nd.Choose("hashFuncs", 3) + 1)
	fl := &msg.FilterLoad{Filter: data, HashFuncs: hf, Tweak: 0xffffffff}
	mode := nd.Choose("mode", 2)
	ty := common2.TxType(nd.U8("type"))
	if mode == 1 {
		fl.TxTypes = []common2.TxType{common2.TxType(nd.U8("otherType")), ty}
	}
	bf := LoadFilter(fl)
	var watched common.Uint168
	copy(watched[:], nd.Bytes("watched", 21))
	bf.Add(watched[:])
	tx := transaction.CreateTransaction(common2.TxVersion09, common2.TransferAsset, 0, &payload.TransferAsset{},
		nil, nil, nil, 0, nil)
	if mode == 1 {
		tx.SetTxType(ty)
	}
	o0 := &common2.Output{Payload: &outputpayload.DefaultOutput{}}
	copy(o0.ProgramHash[:], nd.Bytes("otherHash", 21))
	o1 := &common2.Output{Payload: &outputpayload.DefaultOutput{}}
	if mode == 0 {
		o1.ProgramHash = watched
	}
	tx.SetOutputs([]*common2.Output{o0, o1})
	nd.Reach("built")
	nd.Assert(bf.MatchTxAndUpdate(tx), "spv_filter_matches_watched_hash_or_type")
}
