//go:build verif

package state

import (
	"github.com/elastos/Elastos.ELA/common"
	pg "github.com/elastos/Elastos.ELA/core/contract/program"
	common2 "github.com/elastos/Elastos.ELA/core/types/common"
	"github.com/elastos/Elastos.ELA/core/types/interfaces"
	"github.com/elastos/Elastos.ELA/zzverif/nd"
)

// zzStTx: the DPoS state reads only these members of a transaction (this
// package cannot import core/transaction).
type zzStTx struct {
	interfaces.Transaction
	typ   common2.TxType
	ver   byte
	txver common2.TransactionVersion
	pld   interfaces.Payload
	id    common.Uint256
	ins   []*common2.Input
	outs  []*common2.Output
	progs []*pg.Program
}

func (t *zzStTx) TxType() common2.TxType              { return t.typ }
func (t *zzStTx) Version() common2.TransactionVersion { return t.txver }
func (t *zzStTx) PayloadVersion() byte                { return t.ver }
func (t *zzStTx) Payload() interfaces.Payload         { return t.pld }
func (t *zzStTx) Hash() common.Uint256                { return t.id }
func (t *zzStTx) Inputs() []*common2.Input            { return t.ins }
func (t *zzStTx) Outputs() []*common2.Output          { return t.outs }
func (t *zzStTx) Programs() []*pg.Program             { return t.progs }

func zzStAmount(name string) common.Fixed64 {
	v := common.Fixed64(nd.U64(name))
	nd.Assume(uint64(v) <= 1<<60)
	return v
}
