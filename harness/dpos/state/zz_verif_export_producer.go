//go:build verif

package state

import "github.com/elastos/Elastos.ELA/common"

// ZZNewProducer: an active producer with the given deposit bookkeeping,
// registered under its owner key (harnesses outside this package cannot set
// the unexported fields).
func ZZNewProducer(s *State, ownerKey []byte, total, deposit, penalty common.Fixed64,
	identity ProducerIdentity, stakeUntil uint32) *Producer {
	p := &Producer{totalAmount: total, depositAmount: deposit, penalty: penalty,
		state: Active, identity: identity}
	p.info.OwnerKey = ownerKey
	p.info.NodePublicKey = ownerKey
	p.info.StakeUntil = stakeUntil
	k := common.BytesToHexString(ownerKey)
	s.NodeOwnerKeys[k] = k
	s.ActivityProducers[k] = p
	return p
}
