//go:build verif

package state

import (
	"github.com/elastos/Elastos.ELA/common/config"
	"github.com/elastos/Elastos.ELA/utils"
	"github.com/elastos/Elastos.ELA/zzverif/nd"
)

func zzC21state() *State {
	s := &State{StateKeyFrame: NewStateKeyFrame(), ChainParams: &config.Configuration{}}
	s.History = utils.NewHistory(maxHistoryCapacity)
	s.ChainParams.DPoSConfiguration.RevertToPOWStartHeight = nd.U32("revertToPOWStartHeight")
	s.LastIrreversibleHeight = nd.U32("lastIrreversibleHeight")
	s.DPOSStartHeight = nd.U32("dposStartHeight")
	s.DPOSWorkHeight = nd.U32("dposWorkHeight")
	if nd.Bool("pow") {
		s.ConsensusAlgorithm = POW
	} else {
		s.ConsensusAlgorithm = DPOS
	}
	return s
}

// ZZ_C21_lih: the irreversible-height bookkeeping of one block is exactly
// undone by rolling that block back, from an arbitrary pre-state of the four
// scalar fields it touches (a scalar save/restore needs no validity
// precondition): process(h); Commit(h); RollbackTo(h-1) restores
// LastIrreversibleHeight, DPOSStartHeight, DPOSWorkHeight and the consensus
// algorithm.
func ZZ_C21_lih() {
	s := zzC21state()
	h := nd.U32("height")
	nd.Assume(h >= 2 && h < 0xfffffff0)
	// the history already holds the previous height
	s.History.Commit(h - 1)
	lih, start, work, alg := s.LastIrreversibleHeight, s.DPOSStartHeight, s.DPOSWorkHeight, s.ConsensusAlgorithm
	s.tryUpdateLastIrreversibleHeight(h)
	s.History.Commit(h)
	nd.Reach("processed")
	if s.LastIrreversibleHeight != lih {
		nd.Reach("advanced")
	}
	err := s.History.RollbackTo(h - 1)
	nd.Assert(err == nil, "rollback_of_one_block_succeeds")
	nd.Assert(s.LastIrreversibleHeight == lih, "rollback_restores_last_irreversible_height")
	nd.Assert(s.DPOSStartHeight == start, "rollback_restores_dpos_start_height")
	nd.Assert(s.DPOSWorkHeight == work && s.ConsensusAlgorithm == alg, "rollback_leaves_other_fields_alone")
}

// ZZ_C21_lih_monotone (C30's state half): processing a block never moves the
// last irreversible height backwards, from any pre-state satisfying the
// invariant I(h-1): LastIrreversibleHeight <= DPOSStartHeight <= (h-1)+1, and
// it re-establishes I(h) (so the invariant is inductive; the "+1" is needed
// because at the PoW->DPoS switch height both the reset and the increment run).
func ZZ_C21_lih_monotone() {
	s := zzC21state()
	h := nd.U32("height")
	nd.Assume(h >= IrreversibleHeight+2 && h < 0xfffffff0)
	nd.Assume(s.LastIrreversibleHeight <= s.DPOSStartHeight && s.DPOSStartHeight <= h)
	s.History.Commit(h - 1)
	lih := s.LastIrreversibleHeight
	s.tryUpdateLastIrreversibleHeight(h)
	s.History.Commit(h)
	nd.Reach("processed")
	nd.Assert(s.LastIrreversibleHeight >= lih, "last_irreversible_height_never_decreases")
	nd.Assert(s.LastIrreversibleHeight <= s.DPOSStartHeight && s.DPOSStartHeight <= h+1, "invariant_is_inductive")
}
