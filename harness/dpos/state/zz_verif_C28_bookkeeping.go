//go:build verif

package state

import (
	"github.com/elastos/Elastos.ELA/common"
	"github.com/elastos/Elastos.ELA/common/config"
	pg "github.com/elastos/Elastos.ELA/core/contract/program"
	common2 "github.com/elastos/Elastos.ELA/core/types/common"
	"github.com/elastos/Elastos.ELA/utils"
	"github.com/elastos/Elastos.ELA/zzverif/nd"
)

// ZZ_C28_bookkeeping: one return-deposit transaction applied to the state
// (returnDeposit, then processDeposit for its change outputs, then commit).
// From any producer bookkeeping with amounts in [0, 2^60] and any recorded
// values of the 1..2 spent deposit outputs (0..1 outputs in the quick tier, 0..2 in the thorough tier), if the transaction satisfies what
// its context check demands (recorded inputs - change <= available amount,
// change <= inputs), then afterwards the available amount is exactly the old
// one minus (inputs - change) and is not negative; rolling the height back
// restores the old bookkeeping exactly.
func ZZ_C28_bookkeeping() {
	cfg := &config.Configuration{MinTransactionFee: 100}
	s := &State{StateKeyFrame: NewStateKeyFrame(), ChainParams: cfg}
	s.History = utils.NewHistory(maxHistoryCapacity)
	// the P-256 base point, compressed: a key the deposit address can be derived from
	key, _ := common.HexStringToBytes("036b17d1f2e12c4247f8bce6e563a440f277037d812deb33a0f4a13945d898c296")
	total, locked, penalty := zzStAmount("totalAmount"), zzStAmount("depositAmount"), zzStAmount("penalty")
	p := ZZNewProducer(s, key, total, locked, penalty, DPoSV1, 0)
	if nd.Bool("producerCanceled") {
		p.state = Canceled
		delete(s.ActivityProducers, common.BytesToHexString(key))
		s.CanceledProducers[common.BytesToHexString(key)] = p
	}
	dh, err := GetOwnerKeyDepositProgramHash(key)
	nd.Assert(err == nil, "deposit_hash_derivable")
	p.depositHash = *dh
	available := p.AvailableAmount()

	tx := &zzStTx{typ: common2.ReturnDepositCoin, id: common.Uint256{0xD5}}
	tx.progs = []*pg.Program{{Code: append(append([]byte{33}, key...), common.STANDARD), Parameter: []byte{}}}
	var in, change common.Fixed64
	for i, zzn := 0, nd.Choose("inputs", 2)+1; i < zzn; i++ {
		ip := &common2.Input{Previous: common2.OutPoint{TxID: common.Uint256{0xA0}, Index: uint16(i)}}
		v := zzStAmount("recordedDepositOutput")
		s.DepositOutputs[ip.ReferKey()] = v
		in += v
		tx.ins = append(tx.ins, ip)
	}
	for i, zzn := 0, nd.Choose("outputs", 2+nd.Tier()); i < zzn; i++ {
		o := &common2.Output{Value: zzStAmount("outputValue"), ProgramHash: common.Uint168{0x21, 7}}
		if nd.Bool("outputIsChange") {
			o.ProgramHash = *dh
			change += o.Value
		}
		tx.outs = append(tx.outs, o)
	}
	// what ReturnDepositCoinTransaction.SpecialContextCheck and the fee check guarantee
	nd.Assume(change <= in)
	nd.Assume(in-change <= available)

	const h = 100
	nd.NoPanic("apply", func() {
		s.returnDeposit(tx, h)
		s.processDeposit(tx, h)
		s.History.Commit(h)
	})
	nd.Reach("applied")
	nd.Assert(p.AvailableAmount() == available-(in-change), "available_amount_decreases_by_exactly_what_left_the_deposit_address")
	nd.Assert(p.AvailableAmount() >= 0, "available_amount_is_never_negative")
	nd.Assert(p.totalAmount >= 0, "total_amount_is_never_negative")
	nd.NoPanic("rollback", func() { s.History.RollbackTo(h - 1) })
	nd.Assert(p.totalAmount == total && p.depositAmount == locked && p.penalty == penalty,
		"rollback_restores_the_bookkeeping")
}
