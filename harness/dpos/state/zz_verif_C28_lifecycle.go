//go:build verif

package state

import (
	"github.com/elastos/Elastos.ELA/common"
	"github.com/elastos/Elastos.ELA/common/config"
	common2 "github.com/elastos/Elastos.ELA/core/types/common"
	"github.com/elastos/Elastos.ELA/core/types/interfaces"
	"github.com/elastos/Elastos.ELA/core/types/payload"
	crstate "github.com/elastos/Elastos.ELA/cr/state"
	"github.com/elastos/Elastos.ELA/utils"
	"github.com/elastos/Elastos.ELA/zzverif/nd"
)

type zzCancelTx struct {
	interfaces.Transaction
	pld *payload.ProcessProducer
}

func (t *zzCancelTx) TxType() common2.TxType      { return common2.CancelProducer }
func (t *zzCancelTx) Payload() interfaces.Payload { return t.pld }
func (t *zzCancelTx) Outputs() []*common2.Output  { return nil }
func (t *zzCancelTx) Inputs() []*common2.Input    { return nil }
func (t *zzCancelTx) Hash() common.Uint256        { return common.Uint256{0xCA} }

// ZZ_C28_lifecycle: the locked deposit of one producer over the twelve blocks
// 100..111 (per block: processTransactions, updateProducersDepositCoin,
// commit — the deposit-relevant part of ProcessBlock), for every combination
// of: identity DPoS 1.0 / 1.0+2.0 / 2.0 (locked deposit 5000 / 5000 / 2000 ELA
// as registration and update set it), DPoS 2.0 activation at any of the
// heights 101..108 or far in the future, stake end at any of the heights
// 100..107, a cancel transaction (when the transaction check admits one: not
// for DPoS 2.0, for 1.0+2.0 only after the stake end) at any of the heights
// 101..106 or never, deposit lock-up 3 blocks. After every block the locked
// deposit is not negative and never above what was locked at the start, and
// the available amount is never more than total - penalty; a producer that
// has been cancelled for longer than the lock-up has no locked deposit left;
// one that is still active has its minimum locked (5000 ELA before DPoS 2.0
// is active for 1.0 identities, 2000 ELA afterwards).
func ZZ_C28_lifecycle() {
	cfg := &config.Configuration{}
	cfg.CRConfiguration.DepositLockupBlocks = 3
	cfg.EnableActivateIllegalHeight = 0xffffffff
	s := &State{StateKeyFrame: NewStateKeyFrame(), ChainParams: cfg}
	s.History = utils.NewHistory(maxHistoryCapacity)
	s.DPoSV2ActiveHeight = 0xfffffff0
	if a := nd.Choose("v2ActiveAt", 9); a < 8 {
		s.DPoSV2ActiveHeight = uint32(101 + a)
	}
	key, _ := common.HexStringToBytes("036b17d1f2e12c4247f8bce6e563a440f277037d812deb33a0f4a13945d898c296")
	identity := []ProducerIdentity{DPoSV1, DPoSV1V2, DPoSV2}[nd.Choose("identity", 3)]
	locked := common.Fixed64(crstate.MinDepositAmount)
	var stakeUntil uint32
	if identity == DPoSV2 {
		locked = crstate.MinDPoSV2DepositAmount
	}
	if identity != DPoSV1 {
		stakeUntil = uint32(100 + nd.Choose("stakeUntil", 8))
	}
	total, penalty := zzStAmount("totalAmount"), zzStAmount("penalty")
	p := ZZNewProducer(s, key, total, locked, penalty, identity, stakeUntil)
	p.info.NickName = "nn"
	s.Nicknames["nn"] = struct{}{}
	cancelAt := uint32(0)
	if c := nd.Choose("cancelAt", 7); c < 6 {
		cancelAt = uint32(101 + c)
	}
	// a cancel transaction in the very block that activates DPoS 2.0 is a
	// recorded known finding (the activation step still sees the producer
	// active and releases its deposit, the lock-up end releases it again): its
	// assertions carry their own ids so that nothing else is masked
	sfx := ""
	if cancelAt == s.DPoSV2ActiveHeight {
		sfx = "_cancel_in_the_activation_block"
	}
	// second recorded known finding: a 1.0+2.0 producer's cancel transaction in
	// the first block after its stake end (and after the activation), which is
	// also the block that cancels it automatically: both cancellations apply
	expiry := stakeUntil
	if s.DPoSV2ActiveHeight > expiry {
		expiry = s.DPoSV2ActiveHeight
	}
	if identity == DPoSV1V2 && cancelAt == expiry+1 {
		sfx = "_cancel_in_the_stake_expiry_block"
	}
	s.History.Commit(99)
	for h := uint32(100); h < 112; h++ {
		var txs []interfaces.Transaction
		// what CancelProducerTransaction.SpecialContextCheck admits
		if h == cancelAt && p.state != Canceled && p.state != Illegal && p.state != Returned &&
			(identity == DPoSV1 || (identity == DPoSV1V2 && h > stakeUntil)) {
			txs = append(txs, &zzCancelTx{pld: &payload.ProcessProducer{OwnerKey: key}})
		}
		nd.NoPanic("block", func() {
			s.processTransactions(txs, h)
			s.updateProducersDepositCoin(h)
			s.History.Commit(h)
		})
		nd.Assert(p.depositAmount >= 0, "locked_deposit_is_never_negative"+sfx)
		nd.Assert(p.depositAmount <= locked, "locked_deposit_never_grows"+sfx)
		nd.Assert(p.AvailableAmount() <= total-penalty, "available_amount_is_at_most_total_minus_penalty"+sfx)
		if p.state == Active {
			if identity == DPoSV2 || h >= s.DPoSV2ActiveHeight {
				nd.Assert(p.depositAmount == crstate.MinDPoSV2DepositAmount, "active_producer_has_its_minimum_locked"+sfx)
			} else {
				nd.Assert(p.depositAmount == crstate.MinDepositAmount, "active_producer_has_its_minimum_locked"+sfx)
			}
		}
		if p.state == Canceled && p.cancelHeight != 0 && h-p.cancelHeight > cfg.CRConfiguration.DepositLockupBlocks {
			nd.Assert(p.depositAmount == 0, "nothing_stays_locked_after_the_lock_up_of_a_cancelled_producer"+sfx)
		}
	}
	nd.Reach("twelve_blocks_processed")
	if p.state == Canceled {
		nd.Reach("cancelled")
	}
}
