//go:build verif

package state

import (
	"bytes"

	"github.com/elastos/Elastos.ELA/common"
	common2 "github.com/elastos/Elastos.ELA/core/types/common"
	"github.com/elastos/Elastos.ELA/core/types/payload"
	"github.com/elastos/Elastos.ELA/zzverif/nd"
)

func zzH168(name string) common.Uint168 {
	var h common.Uint168
	copy(h[:], nd.Bytes(name, 21))
	return h
}

func zzH256(name string) common.Uint256 {
	var h common.Uint256
	copy(h[:], nd.Bytes(name, 32))
	return h
}

func zzStr(name string) string { return string(nd.Bytes(name, 2)) }

// zzProducer: a producer with every scalar field arbitrary and one entry in
// each of its vote maps.
func zzProducer() *Producer {
	p := &Producer{}
	p.info = payload.ProducerInfo{OwnerKey: nd.Bytes("ownerKey", 2), NodePublicKey: nd.Bytes("nodeKey", 2), NickName: zzStr("nick"),
		Url: zzStr("url"), Location: nd.U64("location"), NetAddress: zzStr("netAddr"), StakeUntil: nd.U32("stakeUntil"), Signature: nd.Bytes("signature", 2)}
	p.state = ProducerState(nd.U8("state"))
	p.identity = ProducerIdentity(nd.U8("identity"))
	p.registerHeight, p.cancelHeight, p.inactiveSince = nd.U32("registerHeight"), nd.U32("cancelHeight"), nd.U32("inactiveSince")
	p.activateRequestHeight, p.illegalHeight = nd.U32("activateRequestHeight"), nd.U32("illegalHeight")
	p.penalty, p.votes, p.dposV2Votes = common.Fixed64(nd.I64("penalty")), common.Fixed64(nd.I64("votes")), common.Fixed64(nd.I64("dposV2Votes"))
	dv := payload.DetailedVoteInfo{BlockHeight: nd.U32("voteHeight"), PayloadVersion: nd.U8("votePayloadVersion"), VoteType: 1,
		Info: []payload.VotesWithLockTime{{Candidate: nd.Bytes("candidate", 2), Votes: common.Fixed64(nd.I64("voteAmount")), LockTime: nd.U32("lockTime")}}}
	copy(dv.TransactionHash[:], nd.Bytes("voteTx", 32))
	p.detailedDPoSV2Votes = map[common.Uint168]map[common.Uint256]payload.DetailedVoteInfo{zzH168("stakeAddr"): {dv.ReferKey(): dv}}
	// a stake address whose votes have all been cancelled or have expired keeps
	// an empty vote map (later changes write into it)
	if nd.Bool("addressWithNoVotesLeft") {
		p.detailedDPoSV2Votes[common.Uint168{0x54, 0xEE}] = map[common.Uint256]payload.DetailedVoteInfo{}
	}
	p.expiredNFTVotes = map[common.Uint168]payload.DetailedVoteInfo{zzH168("nftStakeAddr"): dv}
	p.depositAmount, p.totalAmount = common.Fixed64(nd.I64("depositAmount")), common.Fixed64(nd.I64("totalAmount"))
	p.depositHash = zzH168("depositHash")
	p.selected, p.workedInRound = nd.Bool("selected"), nd.Bool("workedInRound")
	p.randomCandidateInactiveCount, p.inactiveCountingHeight = nd.U32("rcInactiveCount"), nd.U32("inactiveCountingHeight")
	p.lastUpdateInactiveHeight, p.inactiveCount, p.inactiveCountV2 = nd.U32("lastUpdateInactiveHeight"), nd.U32("inactiveCount"), nd.U32("inactiveCountV2")
	return p
}

// ZZ_C23_producer: Producer.Serialize -> Deserialize reproduces every field.
func ZZ_C23_producer() {
	p := zzProducer()
	buf := new(bytes.Buffer)
	nd.Assert(p.Serialize(buf) == nil, "serialize_succeeds")
	q := &Producer{}
	r := bytes.NewReader(buf.Bytes())
	nd.Assert(q.Deserialize(r) == nil, "own_encoding_decodes")
	nd.Reach("decoded")
	nd.Assert(r.Len() == 0, "decoding_consumes_exactly_the_encoding")
	nd.Assert(bytes.Equal(q.info.OwnerKey, p.info.OwnerKey) && bytes.Equal(q.info.NodePublicKey, p.info.NodePublicKey) && q.info.NickName == p.info.NickName &&
		q.info.Url == p.info.Url && q.info.Location == p.info.Location && q.info.NetAddress == p.info.NetAddress && q.info.StakeUntil == p.info.StakeUntil &&
		bytes.Equal(q.info.Signature, p.info.Signature), "producer_info_round_trips")
	nd.Assert(q.state == p.state && q.identity == p.identity && q.registerHeight == p.registerHeight && q.cancelHeight == p.cancelHeight &&
		q.inactiveSince == p.inactiveSince && q.activateRequestHeight == p.activateRequestHeight && q.illegalHeight == p.illegalHeight, "producer_heights_and_state_round_trip")
	nd.Assert(q.penalty == p.penalty && q.votes == p.votes && q.dposV2Votes == p.dposV2Votes && q.depositAmount == p.depositAmount &&
		q.totalAmount == p.totalAmount && q.depositHash == p.depositHash, "producer_amounts_round_trip")
	nd.Assert(q.selected == p.selected && q.workedInRound == p.workedInRound && q.randomCandidateInactiveCount == p.randomCandidateInactiveCount &&
		q.inactiveCountingHeight == p.inactiveCountingHeight && q.lastUpdateInactiveHeight == p.lastUpdateInactiveHeight &&
		q.inactiveCount == p.inactiveCount && q.inactiveCountV2 == p.inactiveCountV2, "producer_counters_round_trip")
	nd.Assert(len(q.detailedDPoSV2Votes) == len(p.detailedDPoSV2Votes) && len(q.expiredNFTVotes) == 1, "producer_vote_maps_keep_their_entries")
	for k := range p.detailedDPoSV2Votes {
		nd.Assert(q.detailedDPoSV2Votes[k] != nil, "every_stake_address_keeps_its_vote_map")
	}
	again := new(bytes.Buffer)
	q.Serialize(again)
	nd.Assert(bytes.Equal(again.Bytes(), buf.Bytes()), "re_encoding_the_decoded_producer_gives_the_same_bytes")
}

// ZZ_C23_keyframe: StateKeyFrame.Serialize -> Deserialize reproduces every
// scalar field and every map (one arbitrary entry each; producers compared
// through their own encoding, which ZZ_C23_producer shows to be faithful).
func ZZ_C23_keyframe() {
	s := NewStateKeyFrame()
	s.NodeOwnerKeys[zzStr("k1")] = zzStr("v1")
	s.CurrentCRNodeOwnerKeys[zzStr("k2")] = zzStr("v2")
	s.NextCRNodeOwnerKeys[zzStr("k3")] = zzStr("v3")
	prod := &Producer{}
	prod.info.OwnerKey = nd.Bytes("ownerKey", 2)
	prod.votes = common.Fixed64(nd.I64("votes"))
	which := nd.Choose("producerMap", 7)
	maps := []map[string]*Producer{s.PendingProducers, s.ActivityProducers, s.InactiveProducers, s.CanceledProducers, s.IllegalProducers, s.PendingCanceledProducers, s.DposV2EffectedProducers}
	maps[which]["owner"] = prod
	s.Votes[zzStr("vote")] = struct{}{}
	s.NFTIDInfoHashMap[zzH256("nftID")] = payload.NFTInfo{ReferKey: zzH256("nftRefer"), GenesisBlockHash: zzH256("nftGenesis")}
	s.DposV2VoteRights[zzH168("rightsAddr")] = common.Fixed64(nd.I64("rights"))
	s.UsedDposVotes[zzH168("usedAddr")] = []payload.VotesWithLockTime{{Candidate: nd.Bytes("usedCandidate", 2), Votes: common.Fixed64(nd.I64("usedVotes")), LockTime: nd.U32("usedLock")}}
	s.UsedDposV2Votes[zzH168("usedV2Addr")] = common.Fixed64(nd.I64("usedV2"))
	s.DepositOutputs[zzStr("deposit")] = common.Fixed64(nd.I64("depositAmount"))
	s.DPoSV2RewardInfo[zzStr("reward")] = common.Fixed64(nd.I64("rewardAmount"))
	s.DposV2RewardClaimingInfo[zzStr("claiming")] = common.Fixed64(nd.I64("claimingAmount"))
	s.DposV2RewardClaimedInfo[zzStr("claimed")] = common.Fixed64(nd.I64("claimedAmount"))
	s.Nicknames[zzStr("nick")] = struct{}{}
	s.SpecialTxHashes[zzH256("specialTx")] = struct{}{}
	s.PreBlockArbiters[zzStr("preArbiter")] = struct{}{}
	s.ProducerDepositMap[zzH168("producerDeposit")] = struct{}{}
	s.WithdrawableTxInfo[zzH256("withdrawTx")] = common2.OutputInfo{Recipient: zzH168("recipient"), Amount: common.Fixed64(nd.I64("withdrawAmount"))}
	s.ClaimingRewardAddr[zzH256("claimTx")] = zzH168("claimAddr")
	s.VotesWithdrawableTxInfo[zzH256("votesWithdrawTx")] = common2.OutputInfo{Recipient: zzH168("votesRecipient"), Amount: common.Fixed64(nd.I64("votesWithdrawAmount"))}
	s.EmergencyInactiveArbiters[zzStr("emergency")] = struct{}{}
	s.LastRandomCandidateOwner = zzStr("lastRandomOwner")
	s.VersionStartHeight, s.VersionEndHeight, s.LastRandomCandidateHeight = nd.U32("versionStart"), nd.U32("versionEnd"), nd.U32("lastRandomHeight")
	s.DPOSWorkHeight, s.LastBlockTimestamp, s.RevertToPOWBlockHeight = nd.U32("dposWorkHeight"), nd.U32("lastBlockTimestamp"), nd.U32("revertToPOWBlockHeight")
	s.ConsensusAlgorithm = ConsesusAlgorithm(nd.U8("consensusAlgorithm"))
	s.NeedRevertToDPOSTX, s.NeedNextTurnDPOSInfo, s.NoProducers, s.NoClaimDPOSNode = nd.Bool("needRevert"), nd.Bool("needNextTurn"), nd.Bool("noProducers"), nd.Bool("noClaimDPOSNode")
	s.LastIrreversibleHeight, s.DPOSStartHeight, s.DPoSV2ActiveHeight = nd.U32("lastIrreversibleHeight"), nd.U32("dposStartHeight"), nd.U32("dposV2ActiveHeight")

	buf := new(bytes.Buffer)
	nd.Assert(s.Serialize(buf) == nil, "serialize_succeeds")
	q := &StateKeyFrame{}
	r := bytes.NewReader(buf.Bytes())
	err := q.Deserialize(r)
	nd.Assert(err == nil, "own_encoding_decodes")
	if err != nil {
		return
	}
	nd.Reach("decoded")
	nd.Assert(r.Len() == 0, "decoding_consumes_exactly_the_encoding")
	nd.Assert(q.LastRandomCandidateOwner == s.LastRandomCandidateOwner && q.VersionStartHeight == s.VersionStartHeight && q.VersionEndHeight == s.VersionEndHeight &&
		q.LastRandomCandidateHeight == s.LastRandomCandidateHeight && q.DPOSWorkHeight == s.DPOSWorkHeight && q.ConsensusAlgorithm == s.ConsensusAlgorithm &&
		q.LastBlockTimestamp == s.LastBlockTimestamp && q.RevertToPOWBlockHeight == s.RevertToPOWBlockHeight, "scalar_fields_round_trip")
	nd.Assert(q.NeedRevertToDPOSTX == s.NeedRevertToDPOSTX && q.NeedNextTurnDPOSInfo == s.NeedNextTurnDPOSInfo && q.NoProducers == s.NoProducers &&
		q.NoClaimDPOSNode == s.NoClaimDPOSNode, "flags_round_trip")
	nd.Assert(q.LastIrreversibleHeight == s.LastIrreversibleHeight && q.DPOSStartHeight == s.DPOSStartHeight && q.DPoSV2ActiveHeight == s.DPoSV2ActiveHeight, "irreversible_and_v2_heights_round_trip")
	nd.Assert(len(q.NodeOwnerKeys) == 1, "map_NodeOwnerKeys_keeps_its_entry")
	nd.Assert(len(q.CurrentCRNodeOwnerKeys) == 1, "map_CurrentCRNodeOwnerKeys_keeps_its_entry")
	nd.Assert(len(q.NextCRNodeOwnerKeys) == 1, "map_NextCRNodeOwnerKeys_keeps_its_entry")
	nd.Assert(len(q.Votes) == 1, "map_Votes_keeps_its_entry")
	nd.Assert(len(q.NFTIDInfoHashMap) == 1, "map_NFTIDInfoHashMap_keeps_its_entry")
	nd.Assert(len(q.DposV2VoteRights) == 1, "map_DposV2VoteRights_keeps_its_entry")
	nd.Assert(len(q.UsedDposVotes) == 1, "map_UsedDposVotes_keeps_its_entry")
	nd.Assert(len(q.UsedDposV2Votes) == 1, "map_UsedDposV2Votes_keeps_its_entry")
	nd.Assert(len(q.DepositOutputs) == 1, "map_DepositOutputs_keeps_its_entry")
	nd.Assert(len(q.DPoSV2RewardInfo) == 1, "map_DPoSV2RewardInfo_keeps_its_entry")
	nd.Assert(len(q.DposV2RewardClaimingInfo) == 1, "map_DposV2RewardClaimingInfo_keeps_its_entry")
	nd.Assert(len(q.DposV2RewardClaimedInfo) == 1, "map_DposV2RewardClaimedInfo_keeps_its_entry")
	nd.Assert(len(q.Nicknames) == 1, "map_Nicknames_keeps_its_entry")
	nd.Assert(len(q.SpecialTxHashes) == 1, "map_SpecialTxHashes_keeps_its_entry")
	nd.Assert(len(q.PreBlockArbiters) == 1, "map_PreBlockArbiters_keeps_its_entry")
	nd.Assert(len(q.ProducerDepositMap) == 1, "map_ProducerDepositMap_keeps_its_entry")
	nd.Assert(len(q.WithdrawableTxInfo) == 1, "map_WithdrawableTxInfo_keeps_its_entry")
	nd.Assert(len(q.ClaimingRewardAddr) == 1, "map_ClaimingRewardAddr_keeps_its_entry")
	nd.Assert(len(q.VotesWithdrawableTxInfo) == 1, "map_VotesWithdrawableTxInfo_keeps_its_entry")
	nd.Assert(len(q.EmergencyInactiveArbiters) == 1, "map_EmergencyInactiveArbiters_keeps_its_entry")
	qmaps := []map[string]*Producer{q.PendingProducers, q.ActivityProducers, q.InactiveProducers, q.CanceledProducers, q.IllegalProducers, q.PendingCanceledProducers, q.DposV2EffectedProducers}
	for i := range qmaps {
		if i == which {
			nd.Assert(len(qmaps[i]) == 1, "producer_stays_in_its_map")
		} else {
			nd.Assert(len(qmaps[i]) == 0, "producer_appears_in_no_other_map")
		}
	}
	again := new(bytes.Buffer)
	q.Serialize(again)
	nd.Assert(bytes.Equal(again.Bytes(), buf.Bytes()), "re_encoding_the_decoded_keyframe_gives_the_same_bytes")
	// restoring into a frame that the constructor built and that already
	// holds other content gives the same state
	q2 := NewStateKeyFrame()
	q2.Nicknames["stale"] = struct{}{}
	q2.DepositOutputs["stale"] = 1
	q2.LastBlockTimestamp = 77
	nd.Assert(q2.Deserialize(bytes.NewReader(buf.Bytes())) == nil, "own_encoding_decodes_into_a_used_frame")
	again2 := new(bytes.Buffer)
	q2.Serialize(again2)
	nd.Assert(bytes.Equal(again2.Bytes(), buf.Bytes()), "decoding_into_a_used_frame_gives_the_same_state")
}
