//go:build verif

package state

import (
	"bytes"
	"encoding/hex"

	"github.com/elastos/Elastos.ELA/common"
	"github.com/elastos/Elastos.ELA/common/config"
	"github.com/elastos/Elastos.ELA/core/contract"
	pg "github.com/elastos/Elastos.ELA/core/contract/program"
	common2 "github.com/elastos/Elastos.ELA/core/types/common"
	"github.com/elastos/Elastos.ELA/core/types/interfaces"
	"github.com/elastos/Elastos.ELA/core/types/outputpayload"
	"github.com/elastos/Elastos.ELA/core/types/payload"
	crstate "github.com/elastos/Elastos.ELA/cr/state"
	"github.com/elastos/Elastos.ELA/utils"
	"github.com/elastos/Elastos.ELA/zzverif/nd"
)

// zzFields: the DPoS state frame as field -> entry -> bytes. Producers are
// their own encoding (ZZ_C23_producer shows it faithful). Amount maps are
// compared as total functions (an absent entry and an entry of 0 are the same
// balance), a producer's empty vote map of a stake address as absent; every
// other map strictly.
type zzFields map[string]map[string][]byte

func zzAmt(v common.Fixed64) []byte {
	b := make([]byte, 8)
	for i := 0; i < 8; i++ {
		b[i] = byte(uint64(v) >> (8 * uint(i)))
	}
	return b
}

func zzU32(vs ...uint32) []byte {
	var b []byte
	for _, v := range vs {
		b = append(b, byte(v), byte(v>>8), byte(v>>16), byte(v>>24))
	}
	return b
}

func zzFlag(vs ...bool) []byte {
	var b []byte
	for _, v := range vs {
		if v {
			b = append(b, 1)
		} else {
			b = append(b, 0)
		}
	}
	return b
}

func zzDposFields(s *StateKeyFrame) zzFields {
	f := zzFields{}
	put := func(field, key string, v []byte) {
		if f[field] == nil {
			f[field] = map[string][]byte{}
		}
		f[field][key] = v
	}
	for _, field := range []string{"NodeOwnerKeys", "CurrentCRNodeOwnerKeys", "NextCRNodeOwnerKeys", "PendingProducers", "ActivityProducers",
		"InactiveProducers", "CanceledProducers", "IllegalProducers", "PendingCanceledProducers", "DposV2EffectedProducers", "Votes",
		"DposV2VoteRights", "UsedDposVotes", "UsedDposV2Votes", "DepositOutputs", "DPoSV2RewardInfo", "DposV2RewardClaimingInfo",
		"DposV2RewardClaimedInfo", "Nicknames", "ProducerDepositMap", "WithdrawableTxInfo", "ClaimingRewardAddr", "VotesWithdrawableTxInfo", "SpecialTxHashes", "scalars"} {
		f[field] = map[string][]byte{}
	}
	for k, v := range s.NodeOwnerKeys {
		put("NodeOwnerKeys", k, []byte(v))
	}
	for k, v := range s.CurrentCRNodeOwnerKeys {
		put("CurrentCRNodeOwnerKeys", k, []byte(v))
	}
	for k, v := range s.NextCRNodeOwnerKeys {
		put("NextCRNodeOwnerKeys", k, []byte(v))
	}
	pm := map[string]map[string]*Producer{"PendingProducers": s.PendingProducers, "ActivityProducers": s.ActivityProducers, "InactiveProducers": s.InactiveProducers,
		"CanceledProducers": s.CanceledProducers, "IllegalProducers": s.IllegalProducers, "PendingCanceledProducers": s.PendingCanceledProducers,
		"DposV2EffectedProducers": s.DposV2EffectedProducers}
	for field, m := range pm {
		for k, p := range m {
			// a stake address whose vote map is empty and one that has no map
			// are the same (no votes); the encoding distinguishes them
			q := *p
			q.detailedDPoSV2Votes = nil
			for a, votes := range p.detailedDPoSV2Votes {
				if len(votes) != 0 {
					if q.detailedDPoSV2Votes == nil {
						q.detailedDPoSV2Votes = map[common.Uint168]map[common.Uint256]payload.DetailedVoteInfo{}
					}
					q.detailedDPoSV2Votes[a] = votes
				}
			}
			buf := new(bytes.Buffer)
			q.Serialize(buf)
			put(field, k, append([]byte{}, buf.Bytes()...))
		}
	}
	for k := range s.Votes {
		put("Votes", k, []byte{1})
	}
	for k, v := range s.DposV2VoteRights {
		if v != 0 {
			put("DposV2VoteRights", string(k[:]), zzAmt(v))
		}
	}
	for k, vs := range s.UsedDposVotes {
		var b []byte
		for _, v := range vs {
			b = append(append(append(b, v.Candidate...), zzAmt(v.Votes)...), zzU32(v.LockTime)...)
		}
		put("UsedDposVotes", string(k[:]), append([]byte{byte(len(vs))}, b...))
	}
	for k, v := range s.UsedDposV2Votes {
		if v != 0 {
			put("UsedDposV2Votes", string(k[:]), zzAmt(v))
		}
	}
	am := map[string]map[string]common.Fixed64{"DepositOutputs": s.DepositOutputs, "DPoSV2RewardInfo": s.DPoSV2RewardInfo,
		"DposV2RewardClaimingInfo": s.DposV2RewardClaimingInfo, "DposV2RewardClaimedInfo": s.DposV2RewardClaimedInfo}
	for field, m := range am {
		for k, v := range m {
			if v != 0 || field == "DepositOutputs" {
				put(field, k, zzAmt(v))
			}
		}
	}
	for k := range s.Nicknames {
		put("Nicknames", k, []byte{1})
	}
	for k := range s.ProducerDepositMap {
		put("ProducerDepositMap", string(k[:]), []byte{1})
	}
	for k := range s.SpecialTxHashes {
		put("SpecialTxHashes", string(k[:]), []byte{1})
	}
	for k, v := range s.WithdrawableTxInfo {
		put("WithdrawableTxInfo", string(k[:]), append(append([]byte{}, v.Recipient[:]...), zzAmt(v.Amount)...))
	}
	for k, v := range s.ClaimingRewardAddr {
		put("ClaimingRewardAddr", string(k[:]), append([]byte{}, v[:]...))
	}
	for k, v := range s.VotesWithdrawableTxInfo {
		put("VotesWithdrawableTxInfo", string(k[:]), append(append([]byte{}, v.Recipient[:]...), zzAmt(v.Amount)...))
	}
	put("scalars", "heights", zzU32(s.VersionStartHeight, s.VersionEndHeight, s.LastRandomCandidateHeight, s.DPOSWorkHeight, s.LastBlockTimestamp,
		s.RevertToPOWBlockHeight, s.LastIrreversibleHeight, s.DPOSStartHeight, s.DPoSV2ActiveHeight, uint32(s.ConsensusAlgorithm)))
	put("scalars", "flags", zzFlag(s.NeedRevertToDPOSTX, s.NeedNextTurnDPOSInfo, s.NoProducers, s.NoClaimDPOSNode))
	put("scalars", "owner", []byte(s.LastRandomCandidateOwner))
	return f
}

func zzAssertSameDpos(now, was zzFields) {
	for field, w := range was {
		n := now[field]
		ok := len(n) == len(w)
		for k, v := range w {
			if x, in := n[k]; !in || !bytes.Equal(x, v) {
				ok = false
			}
		}
		nd.Assert(ok, "rollback_restores_"+field)
	}
}

const zzDH = 100 // the height of the block that is processed and rolled back

func zzDposState() *State {
	cfg := &config.Configuration{MinTransactionFee: 100}
	cfg.CRConfiguration.DepositLockupBlocks = 10
	cfg.DPoSV2EffectiveVotes = 8000
	cfg.EnableActivateIllegalHeight = 0
	s := &State{StateKeyFrame: NewStateKeyFrame(), ChainParams: cfg}
	s.History = utils.NewHistory(maxHistoryCapacity)
	s.DPoSV2ActiveHeight = 50
	return s
}

// zzDposApplyAndRollback: one block at height zzDH with the given transactions
// (processTransactions, updateProducersDepositCoin, commit — the part of
// ProcessBlock that changes producers, votes and deposits) is processed and
// rolled back; every member of the state frame must equal its value before.
func zzDposApplyAndRollback(s *State, txs []interfaces.Transaction) {
	was := zzDposFields(s.StateKeyFrame)
	s.History.Commit(zzDH - 1)
	nd.NoPanic("process", func() {
		s.processTransactions(txs, zzDH)
		s.updateProducersDepositCoin(zzDH)
		s.History.Commit(zzDH)
	})
	nd.Reach("processed")
	nd.NoPanic("rollback", func() {
		nd.Assert(s.History.RollbackTo(zzDH-1) == nil, "rollback_of_one_block_succeeds")
	})
	zzAssertSameDpos(zzDposFields(s.StateKeyFrame), was)
}

// four points of P-256 (the base point and three generated keys): deposit and
// stake addresses are derived by decoding the key
var zzDposKeys = []string{
	"036b17d1f2e12c4247f8bce6e563a440f277037d812deb33a0f4a13945d898c296",
	"026672f050ac366a24df91ab93b812844adc994666afcee2c2c83627c948f5d9ca",
	"0363906812330708752c77d1dde80bc3672628eb4cd6ed78943bf84268db07cdb4",
	"0374fda22fe34a6db57431294afef2f97af8090fd6f7613041729ddb40388a55b7",
}

func zzDposKey(i int) []byte {
	b, _ := hex.DecodeString(zzDposKeys[i%len(zzDposKeys)])
	return b
}

// zzDposProducer: producer i in the given state (and its map) with arbitrary
// votes and amounts, node key = owner key
func zzDposProducer(s *State, i int, st ProducerState, identity ProducerIdentity, stakeUntil uint32) *Producer {
	key := zzDposKey(i)
	p := &Producer{state: st, identity: identity, votes: zzStAmount("producerVotes"), totalAmount: zzStAmount("totalAmount"),
		depositAmount: zzStAmount("depositAmount"), penalty: zzStAmount("penalty"), registerHeight: nd.U32("registerHeight"),
		activateRequestHeight: 0xffffffff}
	p.info = payload.ProducerInfo{OwnerKey: key, NodePublicKey: key, NickName: string([]byte{'p', byte('0' + i)}), Url: "u", Location: nd.U64("location"),
		NetAddress: "a", StakeUntil: stakeUntil}
	dh, _ := GetOwnerKeyDepositProgramHash(key)
	p.depositHash = *dh
	k := hex.EncodeToString(key)
	s.NodeOwnerKeys[k] = k
	s.ProducerDepositMap[*dh] = struct{}{}
	switch st {
	case Pending:
		s.PendingProducers[k] = p
	case Active:
		s.ActivityProducers[k] = p
	case Inactive:
		s.InactiveProducers[k] = p
	case Canceled:
		s.CanceledProducers[k] = p
	case Illegal:
		s.IllegalProducers[k] = p
	}
	if st != Canceled {
		s.Nicknames[p.info.NickName] = struct{}{}
	}
	return p
}

// ZZ_C21_register: a RegisterProducer transaction (DPoS 1.0 or, with a stake
// end, 2.0) with 1..2 outputs to the deposit address or elsewhere.
func ZZ_C21_register() {
	s := zzDposState()
	key := zzDposKey(0)
	dh, _ := GetOwnerKeyDepositProgramHash(key)
	info := &payload.ProducerInfo{OwnerKey: key, NodePublicKey: zzDposKey(1), NickName: "nn", Url: "u", Location: nd.U64("location"), NetAddress: "a"}
	if nd.Bool("dposV2") {
		info.StakeUntil = 5000
	}
	tx := &zzStTx{typ: common2.RegisterProducer, id: common.Uint256{0x21, 1}, pld: info}
	for i, zzn := 0, nd.Choose("outputs", 2)+1; i < zzn; i++ {
		o := &common2.Output{Value: zzStAmount("outputValue"), ProgramHash: common.Uint168{0x21, 9}}
		if nd.Bool("toDepositAddress") {
			o.ProgramHash = *dh
		}
		tx.outs = append(tx.outs, o)
	}
	zzDposApplyAndRollback(s, []interfaces.Transaction{tx})
}

// ZZ_C21_update: an UpdateProducer transaction of a pending or active producer
// of any identity, keeping or changing nickname and node key, with or without
// a stake end (a 1.0 producer becomes 1.0+2.0).
func ZZ_C21_update() {
	s := zzDposState()
	st := []ProducerState{Pending, Active}[nd.Choose("state", 2)]
	identity := []ProducerIdentity{DPoSV1, DPoSV1V2, DPoSV2}[nd.Choose("identity", 3)]
	var stake uint32
	if identity != DPoSV1 {
		stake = 5000
	}
	p := zzDposProducer(s, 0, st, identity, stake)
	info := p.info
	info.Url = "v"
	info.Location = nd.U64("newLocation")
	if nd.Bool("newNickname") {
		info.NickName = "zz"
	}
	if nd.Bool("newNodeKey") {
		info.NodePublicKey = zzDposKey(1)
	}
	// a producer with a stake end keeps one (the transaction check demands it)
	if identity != DPoSV1 || nd.Bool("addsStake") {
		info.StakeUntil = 6000
	}
	tx := &zzStTx{typ: common2.UpdateProducer, id: common.Uint256{0x21, 2}, pld: &info}
	zzDposApplyAndRollback(s, []interfaces.Transaction{tx})
}

// ZZ_C21_cancel: a CancelProducer transaction of a pending, active or inactive
// producer (whose cancel height is 0, as for every producer not cancelled).
func ZZ_C21_cancel() {
	s := zzDposState()
	st := []ProducerState{Pending, Active, Inactive}[nd.Choose("state", 3)]
	p := zzDposProducer(s, 0, st, DPoSV1, 0)
	p.registerHeight = zzDH - 2 // not yet six confirmations: a pending producer stays pending in this block
	tx := &zzStTx{typ: common2.CancelProducer, id: common.Uint256{0x21, 3}, pld: &payload.ProcessProducer{OwnerKey: p.info.OwnerKey}}
	zzDposApplyAndRollback(s, []interfaces.Transaction{tx})
}

// ZZ_C21_activate: an ActivateProducer transaction of an inactive or illegal
// producer that has no activation request pending.
func ZZ_C21_activate() {
	s := zzDposState()
	st := []ProducerState{Inactive, Illegal}[nd.Choose("state", 2)]
	p := zzDposProducer(s, 0, st, DPoSV1, 0)
	tx := &zzStTx{typ: common2.ActivateProducer, id: common.Uint256{0x21, 4}, pld: &payload.ActivateProducer{NodePublicKey: p.info.NodePublicKey}}
	zzDposApplyAndRollback(s, []interfaces.Transaction{tx})
}

// ZZ_C21_perblock: a block without transactions that makes a pending producer
// active (six confirmations), activates an inactive or illegal producer whose
// request is six blocks old, cancels a DPoS 2.0 producer whose stake has
// ended, or releases the deposit of a producer cancelled DepositLockupBlocks
// ago.
func ZZ_C21_perblock() {
	s := zzDposState()
	switch nd.Choose("event", 5) {
	case 0:
		p := zzDposProducer(s, 0, Pending, DPoSV1, 0)
		p.registerHeight = zzDH - 5
	case 1:
		p := zzDposProducer(s, 0, Inactive, DPoSV1, 0)
		p.activateRequestHeight = zzDH - 5
	case 2:
		p := zzDposProducer(s, 0, Illegal, DPoSV1, 0)
		p.activateRequestHeight = zzDH - 5
	case 3:
		st := []ProducerState{Active, Inactive, Illegal}[nd.Choose("state", 3)]
		identity := []ProducerIdentity{DPoSV2, DPoSV1V2}[nd.Choose("identity", 2)]
		zzDposProducer(s, 0, st, identity, zzDH-1)
	default:
		p := zzDposProducer(s, 0, Canceled, DPoSV1, 0)
		p.cancelHeight = zzDH - 10
	}
	zzDposApplyAndRollback(s, nil)
}

func zzDposStake(i int) (code []byte, hash common.Uint168) {
	code = append(append([]byte{33}, zzDposKey(i)...), common.STANDARD)
	ct, _ := contract.CreateStakeContractByCode(code)
	return code, *ct.ToProgramHash()
}

// ZZ_C21_voting: a Voting transaction with one Delegate content (1..2 entries
// for two DPoS 1.0 producers or an unknown key; the stake address has or has
// not voted before) or one DposV2 content (1..2 entries for a DPoS 2.0
// producer whose vote rights before the block are 7999, 8000 or 8001 against
// an effectiveness threshold of 8000, or 0), lock time such that the vote
// weight is exactly 1.
func ZZ_C21_voting() {
	s := zzDposState()
	code, stake := zzDposStake(2)
	var content payload.VotesContent
	if nd.Bool("dposV2Content") {
		p := zzDposProducer(s, 0, Active, DPoSV2, 50000)
		before := []common.Fixed64{0, 7999, 8000, 8001}[nd.Choose("rightsBefore", 4)]
		if before != 0 {
			dv := payload.DetailedVoteInfo{StakeProgramHash: stake, TransactionHash: common.Uint256{0x77}, BlockHeight: 10, VoteType: outputpayload.DposV2,
				Info: []payload.VotesWithLockTime{{Candidate: p.info.OwnerKey, Votes: before, LockTime: 10 + 7200}}}
			p.detailedDPoSV2Votes = map[common.Uint168]map[common.Uint256]payload.DetailedVoteInfo{stake: {dv.ReferKey(): dv}}
			p.dposV2Votes = before
			s.UsedDposV2Votes[stake] = before
			if before >= 8000 {
				s.DposV2EffectedProducers[hex.EncodeToString(p.info.OwnerKey)] = p
			}
		}
		content = payload.VotesContent{VoteType: outputpayload.DposV2}
		for i, zzn := 0, nd.Choose("entries", 2)+1; i < zzn; i++ {
			v := []common.Fixed64{1, 8000}[nd.Choose("votes", 2)]
			content.VotesInfo = append(content.VotesInfo, payload.VotesWithLockTime{Candidate: p.info.OwnerKey, Votes: v, LockTime: zzDH + 7200 + uint32(i)*72000})
		}
	} else {
		a := zzDposProducer(s, 0, Active, DPoSV1, 0)
		b := zzDposProducer(s, 1, Active, DPoSV1, 0)
		if nd.Bool("votedBefore") {
			s.UsedDposVotes[stake] = []payload.VotesWithLockTime{{Candidate: a.info.OwnerKey, Votes: zzStAmount("earlierVotes")}}
		}
		content = payload.VotesContent{VoteType: outputpayload.Delegate}
		for i, zzn := 0, nd.Choose("entries", 2)+1; i < zzn; i++ {
			cd := [][]byte{a.info.OwnerKey, b.info.OwnerKey, zzDposKey(3)}[nd.Choose("candidate", 3)]
			content.VotesInfo = append(content.VotesInfo, payload.VotesWithLockTime{Candidate: cd, Votes: zzStAmount("votes")})
		}
	}
	tx := &zzStTx{typ: common2.Voting, ver: payload.VoteVersion, id: common.Uint256{0x21, 5}, pld: &payload.Voting{Contents: []payload.VotesContent{content}},
		progs: []*pg.Program{{Code: code, Parameter: []byte{}}}}
	zzDposApplyAndRollback(s, []interfaces.Transaction{tx})
}

// ZZ_C21_rights: transactions that move vote rights and rewards: a stake
// (ExchangeVotes), a vote return, a reward claim, and the two real-withdraw
// transactions paying pending returns / claims, for a stake address that has
// or has not an entry yet.
func ZZ_C21_rights() {
	s := zzDposState()
	code, stake := zzDposStake(2)
	if nd.Bool("hasRights") {
		s.DposV2VoteRights[stake] = zzStAmount("rights")
	}
	to := common.Uint168{0x21, 0x70}
	var tx *zzStTx
	switch nd.Choose("kind", 4) {
	case 0:
		tx = &zzStTx{typ: common2.ExchangeVotes, id: common.Uint256{0x21, 6}, pld: &payload.ExchangeVotes{},
			outs: []*common2.Output{{Value: zzStAmount("stakeValue"), Payload: &outputpayload.ExchangeVotesOutput{StakeAddress: stake}}}}
	case 1:
		tx = &zzStTx{typ: common2.ReturnVotes, ver: payload.ReturnVotesSchnorrVersion, id: common.Uint256{0x21, 7},
			pld: &payload.ReturnVotes{ToAddr: to, Value: zzStAmount("returnValue")}, progs: []*pg.Program{{Code: code, Parameter: []byte{}}}}
	case 2:
		h := common.Uint256{0x21, 0x0A}
		s.VotesWithdrawableTxInfo[h] = common2.OutputInfo{Recipient: to, Amount: zzStAmount("pendingReturn")}
		if nd.Bool("secondPendingReturn") {
			s.VotesWithdrawableTxInfo[common.Uint256{0x21, 0x0B}] = common2.OutputInfo{Recipient: to, Amount: 5}
		}
		tx = &zzStTx{typ: common2.VotesRealWithdraw, id: common.Uint256{0x21, 8},
			pld: &payload.VotesRealWithdrawPayload{VotesRealWithdraw: []payload.VotesRealWidhdraw{{ReturnVotesTXHash: h, StakeAddress: stake, Value: 5}}}}
	default:
		tx = &zzStTx{typ: common2.TransferAsset, id: common.Uint256{0x21, 9}, pld: &payload.TransferAsset{}}
	}
	zzDposApplyAndRollback(s, []interfaces.Transaction{tx})
}

// ZZ_C21_returndeposit: a ReturnDepositCoin transaction of a producer that is
// active, inactive or cancelled (the transaction check admits any producer
// whose available amount covers what leaves the deposit address), spending
// 1..2 recorded deposit outputs, with 0..2 outputs each being change to the
// deposit address or not.
func ZZ_C21_returndeposit() {
	s := zzDposState()
	st := []ProducerState{Active, Inactive, Canceled}[nd.Choose("state", 3)]
	p := zzDposProducer(s, 0, st, DPoSV1, 0)
	if st == Canceled {
		p.cancelHeight = zzDH - 50
	}
	code := append(append([]byte{33}, p.info.OwnerKey...), common.STANDARD)
	tx := &zzStTx{typ: common2.ReturnDepositCoin, id: common.Uint256{0x21, 0x20}, pld: &payload.ReturnDepositCoin{},
		progs: []*pg.Program{{Code: code, Parameter: []byte{}}}}
	for i, zzn := 0, nd.Choose("inputs", 2)+1; i < zzn; i++ {
		in := &common2.Input{Previous: common2.OutPoint{TxID: common.Uint256{0xA0}, Index: uint16(i)}}
		s.DepositOutputs[in.ReferKey()] = zzStAmount("recordedDepositOutput")
		tx.ins = append(tx.ins, in)
	}
	for i, zzn := 0, nd.Choose("outputs", 3); i < zzn; i++ {
		o := &common2.Output{Value: zzStAmount("outputValue"), ProgramHash: common.Uint168{0x21, 9}}
		if nd.Bool("change") {
			o.ProgramHash = p.depositHash
		}
		tx.outs = append(tx.outs, o)
	}
	zzDposApplyAndRollback(s, []interfaces.Transaction{tx})
}

// ZZ_C21_modes: transactions that change the consensus mode and other scalar
// bookkeeping: RevertToPOW (accepted while the consensus is DPoS), RevertToDPOS
// (while it is PoW), NextTurnDPOSInfo, UpdateVersion, and a council member's
// claim-node transaction for the current or next committee (the member has or
// has not claimed a node before); every scalar is arbitrary before the block.
func ZZ_C21_modes() {
	s := zzDposState()
	s.NoProducers, s.NoClaimDPOSNode = nd.Bool("noProducers"), nd.Bool("noClaimDPOSNode")
	s.NeedRevertToDPOSTX, s.NeedNextTurnDPOSInfo = nd.Bool("needRevertToDPOS"), nd.Bool("needNextTurnInfo")
	s.DPOSWorkHeight, s.RevertToPOWBlockHeight = nd.U32("dposWorkHeight"), nd.U32("revertToPOWBlockHeight")
	s.VersionStartHeight, s.VersionEndHeight = nd.U32("versionStart"), nd.U32("versionEnd")
	nd.Assume(s.DPOSWorkHeight == 0 || s.DPOSWorkHeight > zzDH) // no pending switch falls on this block
	var tx *zzStTx
	switch nd.Choose("kind", 5) {
	case 0:
		s.ConsensusAlgorithm = DPOS
		tx = &zzStTx{typ: common2.RevertToPOW, id: common.Uint256{0x21, 0x30}, pld: &payload.RevertToPOW{WorkingHeight: zzDH}}
	case 1:
		s.ConsensusAlgorithm = POW
		s.DPOSWorkHeight = 0
		tx = &zzStTx{typ: common2.RevertToDPOS, id: common.Uint256{0x21, 0x31}, pld: &payload.RevertToDPOS{WorkHeightInterval: 10}}
	case 2:
		tx = &zzStTx{typ: common2.NextTurnDPOSInfo, id: common.Uint256{0x21, 0x32}, pld: &payload.NextTurnDPOSInfo{}}
	case 3:
		tx = &zzStTx{typ: common2.UpdateVersion, id: common.Uint256{0x21, 0x33}, pld: &payload.UpdateVersion{StartHeight: nd.U32("newStart"), EndHeight: nd.U32("newEnd")}}
	default:
		did := common.Uint168{0x67, 6}
		code := append(append([]byte{33}, zzDposKey(1)...), common.STANDARD)
		members := []*crstate.CRMember{{Info: payload.CRInfo{DID: did, Code: code}}}
		next := nd.Bool("nextCommittee")
		s.getCurrentCRMembers = func() []*crstate.CRMember {
			if next {
				return nil
			}
			return members
		}
		s.getNextCRMembers = func() []*crstate.CRMember {
			if next {
				return members
			}
			return nil
		}
		owner := hex.EncodeToString(zzDposKey(1))
		if nd.Bool("claimedBefore") {
			if next {
				s.NextCRNodeOwnerKeys[hex.EncodeToString(zzDposKey(2))] = owner
			} else {
				s.CurrentCRNodeOwnerKeys[hex.EncodeToString(zzDposKey(2))] = owner
			}
		}
		ver := byte(payload.CurrentCRClaimDPoSNodeVersion)
		if next {
			ver = payload.NextCRClaimDPoSNodeVersion
		}
		tx = &zzStTx{typ: common2.CRCouncilMemberClaimNode, ver: ver, id: common.Uint256{0x21, 0x34},
			pld: &payload.CRCouncilMemberClaimNode{NodePublicKey: zzDposKey(3), CRCouncilCommitteeDID: did}}
	}
	zzDposApplyAndRollback(s, []interfaces.Transaction{tx})
}

func (t *zzStTx) GetSpecialTxHash() (common.Uint256, error) { return t.id, nil }

// ZZ_C21_illegal: an illegal-evidence transaction (here: side-chain illegal
// data naming one signer) against a producer that is active, inactive (with
// or without a pending activation request), illegal or cancelled, before and
// after the height from which illegal behaviour costs a penalty.
func ZZ_C21_illegal() {
	s := zzDposState()
	s.ChainParams.DPoSConfiguration.DPoSV2IllegalPenalty = 20000000000
	if nd.Bool("beforePenaltyHeight") {
		s.ChainParams.CRConfiguration.ChangeCommitteeNewCRHeight = zzDH + 1
		s.DPoSV2ActiveHeight = zzDH + 1
	}
	st := []ProducerState{Active, Inactive, Illegal, Canceled}[nd.Choose("state", 4)]
	p := zzDposProducer(s, 0, st, DPoSV1, 0)
	switch st {
	case Inactive:
		if nd.Bool("activationRequested") {
			p.activateRequestHeight = zzDH - 2
		}
		p.inactiveSince = zzDH - 20
	case Illegal:
		p.illegalHeight = zzDH - 30
		if nd.Bool("activationRequested") {
			p.activateRequestHeight = zzDH - 2
		}
	case Canceled:
		p.cancelHeight = zzDH - 50
	}
	tx := &zzStTx{typ: common2.IllegalSidechainEvidence, id: common.Uint256{0x21, 0x40},
		pld: &payload.SidechainIllegalData{IllegalSigner: p.info.NodePublicKey}}
	zzDposApplyAndRollback(s, []interfaces.Transaction{tx})
}

// ZZ_C21_emergency: an InactiveArbitrators (emergency) transaction naming one
// arbiter whose producer is active or already inactive (with arbitrary
// penalty, selection flag, inactive-since height and, when inactive, possibly a
// pending activation request).
func ZZ_C21_emergency() {
	s := zzDposState()
	s.ChainParams.DPoSConfiguration.EmergencyInactivePenalty = 50000000000
	st := []ProducerState{Active, Inactive}[nd.Choose("state", 2)]
	p := zzDposProducer(s, 0, st, DPoSV1, 0)
	p.selected = nd.Bool("selected")
	if st == Inactive {
		p.inactiveSince = zzDH - 20
		if nd.Bool("activationRequested") {
			p.activateRequestHeight = zzDH - 2
		}
	}
	tx := &zzStTx{typ: common2.InactiveArbitrators, id: common.Uint256{0x21, 0x50},
		pld: &payload.InactiveArbitrators{Arbitrators: [][]byte{p.info.NodePublicKey}}}
	zzDposApplyAndRollback(s, []interfaces.Transaction{tx})
}
