//go:build verif

package state

import (
	"github.com/elastos/Elastos.ELA/common/config"
	"github.com/elastos/Elastos.ELA/zzverif/nd"
)

// ZZ_C25_majority: for every arbiter count n (taken from configuration, so it
// is a symbolic integer) the number of distinct signers that
// HasArbitersMajorityCount accepts is strictly more than two thirds of n, and
// every count strictly above two thirds is accepted (no off-by-one either way).
func ZZ_C25_majority() {
	max := 1024
	if nd.Tier() > 0 {
		max = 100000
	}
	n := int(nd.U32("arbiters"))
	nd.Assume(n >= 1 && n <= max)
	num := int(nd.U32("signers"))
	nd.Assume(num <= max+1)
	a := &Arbiters{ChainParams: &config.Configuration{}}
	a.ChainParams.DPoSConfiguration.NormalArbitratorsCount = n
	m := a.GetArbitersMajorityCount()
	nd.Reach("computed")
	nd.Assert(m >= 0 && m < n, "majority_count_below_n")
	ok := a.HasArbitersMajorityCount(num)
	if ok {
		nd.Assert(3*num > 2*n, "accepted_needs_more_than_two_thirds")
	} else {
		nd.Assert(3*num <= 2*n, "more_than_two_thirds_is_accepted")
	}
}

// ZZ_C25_current: same, when the count is the length of the current arbiter
// list (length enumerated).
func ZZ_C25_current() {
	k := 72
	if nd.Tier() > 0 {
		k = 400
	}
	n := nd.Choose("current_arbiters", k) + 1
	num := int(nd.U16("signers"))
	a := &Arbiters{ChainParams: &config.Configuration{}}
	a.CurrentArbitrators = make([]ArbiterMember, n)
	// a non-empty current list takes precedence over configuration
	a.ChainParams.DPoSConfiguration.NormalArbitratorsCount = int(nd.U16("configured"))
	nd.Reach("computed")
	if a.HasArbitersMajorityCount(num) {
		nd.Assert(3*num > 2*n, "accepted_needs_more_than_two_thirds")
	} else {
		nd.Assert(3*num <= 2*n, "more_than_two_thirds_is_accepted")
	}
	// minority: num >= n - majority  <=>  the remaining n-num cannot reach a quorum
	if a.HasArbitersMinorityCount(num) && num <= n {
		nd.Assert(!a.HasArbitersMajorityCount(n-num), "minority_blocks_quorum")
	}
}
