//go:build verif

package state

import (
	"math/rand"
	"time"

	"github.com/elastos/Elastos.ELA/common"
	"github.com/elastos/Elastos.ELA/common/config"
	"github.com/elastos/Elastos.ELA/core/types"
	common2 "github.com/elastos/Elastos.ELA/core/types/common"
	"github.com/elastos/Elastos.ELA/core/types/outputpayload"
	"github.com/elastos/Elastos.ELA/core/types/payload"
	"github.com/elastos/Elastos.ELA/zzverif/nd"
)

// zzC24eras: the era boundaries the selection code may look at, each before
// or after the evaluated height (100)
var zzC24v2Start, zzC24noCRC uint32

func zzC24arbiters(nonce uint32) *Arbiters {
	cfg := &config.Configuration{}
	cfg.DPoSV2StartHeight = zzC24v2Start
	cfg.DPoSConfiguration.NoCRCDPOSNodeHeight = zzC24noCRC
	cfg.DPoSConfiguration.NormalArbitratorsCount = 4
	cfg.DPoSConfiguration.CandidatesCount = 6
	blk := &types.Block{Header: common2.Header{Version: 1, Nonce: nonce, Height: 99}}
	a := &Arbiters{ChainParams: cfg}
	a.getBlockByHeight = func(uint32) (*types.Block, error) { return blk, nil }
	return a
}

// ZZ_C24_candidate: the candidate index chosen for a block height is a
// function of chain data only. The function is evaluated twice on the same
// chain data (same previous block, same counts); every value drawn from the
// process-global math/rand source is arbitrary (another goroutine may draw
// from it or reseed it between any two accesses — treap priorities, p2p
// nonces, the address manager all use it), a locally seeded generator is a
// deterministic function of its seed. The two results must be equal.
//
// Native replay of a schedule-dependent violation: one goroutine hammers the
// global source while this one evaluates the function repeatedly on a fixed
// block; reproduced iff two different indices are observed within 5 s
// (probabilistic by nature; labelled as such in the evidence). The era
// boundaries DPoSV2StartHeight and NoCRCDPOSNodeHeight lie before or after the
// evaluated height.
func ZZ_C24_candidate() {
	nonce := nd.U32("prevBlockNonce")
	unclaimed := nd.Choose("unclaimed", 2)
	voted := 8 + nd.Choose("votedProducers", 4)
	zzC24v2Start = []uint32{0, 50, 150, 0xffffffff}[nd.Choose("dposV2StartHeight", 4)]
	zzC24noCRC = []uint32{0, 50, 150}[nd.Choose("noCRCDPOSNodeHeight", 3)]
	if !nd.Symbolic() {
		zzC24native(nonce, unclaimed, voted)
		return
	}
	a := zzC24arbiters(nonce)
	i1, err1 := a.getCandidateIndexAtRandom(100, unclaimed, voted)
	i2, err2 := a.getCandidateIndexAtRandom(100, unclaimed, voted)
	nd.Reach("evaluated")
	nd.Assert((err1 == nil) == (err2 == nil), "same_chain_data_same_verdict")
	if err1 == nil && err2 == nil {
		nd.Reach("both_chose")
		nd.Assert(i1 == i2, "candidate_index_depends_on_chain_data_only")
	}
}

func zzC24native(nonce uint32, unclaimed, voted int) {
	a := zzC24arbiters(nonce)
	stop := make(chan struct{})
	for g := 0; g < 4; g++ {
		go func() {
			for {
				select {
				case <-stop:
					return
				default:
					rand.Int()
				}
			}
		}()
	}
	defer close(stop)
	first, err := a.getCandidateIndexAtRandom(100, unclaimed, voted)
	if err != nil {
		return
	}
	deadline := time.Now().Add(5 * time.Second)
	for time.Now().Before(deadline) {
		i, _ := a.getCandidateIndexAtRandom(100, unclaimed, voted)
		if i != first {
			nd.Assert(false, "candidate_index_depends_on_chain_data_only")
			return
		}
	}
}

// ZZ_C24_sorted: the producer ranking used for arbiter election is independent
// of map iteration order: 3 producers with arbitrary votes (ties allowed) and
// distinct node keys are ranked twice, each time with a solver-chosen
// iteration order of the producer map; both rankings must be identical.
func ZZ_C24_sorted() {
	nd.MapOrderNondet()
	st := &State{StateKeyFrame: NewStateKeyFrame()}
	var ps []*Producer
	for i := 0; i < 3; i++ {
		p := &Producer{}
		p.info.NodePublicKey = []byte{nd.U8("nodeKey")}
		p.info.OwnerKey = []byte{byte(0x40 + i)}
		p.votes = common.Fixed64(nd.U8("votes")) + 1
		ps = append(ps, p)
	}
	nd.Assume(ps[0].info.NodePublicKey[0] != ps[1].info.NodePublicKey[0] &&
		ps[0].info.NodePublicKey[0] != ps[2].info.NodePublicKey[0] &&
		ps[1].info.NodePublicKey[0] != ps[2].info.NodePublicKey[0]) // node keys are unique among registered producers
	for i, p := range ps {
		st.ActivityProducers[string([]byte{byte('a' + i)})] = p
	}
	a := &Arbiters{State: st, ChainParams: &config.Configuration{}}
	r1 := a.getSortedProducers()
	r2 := a.getSortedProducers()
	if !nd.Symbolic() {
		// natively the iteration order of a Go map is re-randomised on every
		// range statement: repeat until two rankings differ (or 500 trials)
		for trial := 0; trial < 500 && len(r1) == 3 && len(r2) == 3 &&
			r1[0] == r2[0] && r1[1] == r2[1] && r1[2] == r2[2]; trial++ {
			r2 = a.getSortedProducers()
		}
	}
	nd.Reach("ranked")
	nd.Assert(len(r1) == 3 && len(r2) == 3, "every_voted_producer_is_ranked")
	if len(r1) == 3 && len(r2) == 3 {
		for i := range r1 {
			nd.Assert(r1[i] == r2[i], "ranking_is_independent_of_map_iteration_order")
		}
		for i := 0; i+1 < 3; i++ {
			nd.Assert(r1[i].votes >= r1[i+1].votes, "ranking_is_by_votes_descending")
		}
	}
}

// ZZ_C24_history: the choice for a height depends on the chain it is computed
// on, not on what this node computed before: after the block below that height
// was replaced (reorganisation), the node's choice equals the choice of a node
// that only ever saw the new chain.
func ZZ_C24_history() {
	nonceA, nonceB := nd.U32("orphanedBlockNonce"), nd.U32("newBlockNonce")
	voted := 8 + nd.Choose("votedProducers", 4)
	a := zzC24arbiters(nonceA)
	_, errA := a.getCandidateIndexAtRandom(100, 0, voted)
	newBlk := &types.Block{Header: common2.Header{Version: 1, Nonce: nonceB, Height: 99}}
	a.getBlockByHeight = func(uint32) (*types.Block, error) { return newBlk, nil }
	i2, err2 := a.getCandidateIndexAtRandom(100, 0, voted)
	fresh := zzC24arbiters(nonceB)
	i3, err3 := fresh.getCandidateIndexAtRandom(100, 0, voted)
	nd.Reach("evaluated")
	nd.Assert(errA == nil && err2 == nil && err3 == nil, "choices_are_made")
	nd.Assert(i2 == i3, "choice_after_a_reorganisation_equals_the_choice_of_a_fresh_node")
}

// ZZ_C24_sortedv2: the DPoS 2.0 ranking (getSortedProducersDposV2) of three
// active producers whose vote rights are 9000, 9000 and one of 8500 / 9000 /
// 9500 (ties included; threshold 8000; vote weight exactly 1) with distinct
// node keys, each ranking under a solver-chosen iteration order of the
// producer map: two rankings are identical, descending by vote rights, and
// ties are broken by node key.
func ZZ_C24_sortedv2() {
	nd.MapOrderNondet()
	cfg := &config.Configuration{}
	cfg.DPoSV2EffectiveVotes = 8000
	st := &State{StateKeyFrame: NewStateKeyFrame(), ChainParams: cfg}
	stake := common.Uint168{0x54, 1}
	rights := []common.Fixed64{9000, 9000, []common.Fixed64{8500, 9000, 9500}[nd.Choose("thirdRights", 3)]}
	keys := [][]byte{{3}, {1}, {2}}
	var ps []*Producer
	for i := 0; i < 3; i++ {
		p := &Producer{state: Active}
		p.info.NodePublicKey = keys[i]
		p.info.OwnerKey = []byte{byte(0x40 + i)}
		dv := payload.DetailedVoteInfo{StakeProgramHash: stake, TransactionHash: common.Uint256{0x77, byte(i)}, BlockHeight: 10, VoteType: outputpayload.DposV2,
			Info: []payload.VotesWithLockTime{{Candidate: p.info.OwnerKey, Votes: rights[i], LockTime: 10 + 7200}}}
		p.detailedDPoSV2Votes = map[common.Uint168]map[common.Uint256]payload.DetailedVoteInfo{stake: {dv.ReferKey(): dv}}
		ps = append(ps, p)
		st.ActivityProducers[string([]byte{byte('a' + i)})] = p
	}
	a := &Arbiters{State: st, ChainParams: cfg}
	r1 := a.getSortedProducersDposV2()
	r2 := a.getSortedProducersDposV2()
	if !nd.Symbolic() {
		for trial := 0; trial < 500 && len(r1) == 3 && len(r2) == 3 &&
			r1[0] == r2[0] && r1[1] == r2[1] && r1[2] == r2[2]; trial++ {
			r2 = a.getSortedProducersDposV2()
		}
	}
	nd.Reach("ranked")
	nd.Assert(len(r1) == 3 && len(r2) == 3, "every_effective_producer_is_ranked")
	if len(r1) == 3 && len(r2) == 3 {
		for i := range r1 {
			nd.Assert(r1[i] == r2[i], "v2_ranking_is_independent_of_map_iteration_order")
		}
		for i := 0; i+1 < 3; i++ {
			x, y := r1[i].GetTotalDPoSV2VoteRights(), r1[i+1].GetTotalDPoSV2VoteRights()
			nd.Assert(x > y || (x == y && r1[i].info.NodePublicKey[0] < r1[i+1].info.NodePublicKey[0]), "v2_ranking_is_by_vote_rights_then_node_key")
		}
	}
}
