//go:build verif

package manager

import (
	"os"
	"time"

	"github.com/elastos/Elastos.ELA/dpos/log"
	"github.com/elastos/Elastos.ELA/dpos/state"
	"github.com/elastos/Elastos.ELA/zzverif/nd"
)

type zzArbiters struct {
	state.Arbitrators // nil: only the two methods below are ever called
	n                 int
}

func (a *zzArbiters) GetArbitersCount() int                        { return a.n }
func (a *zzArbiters) GetNextOnDutyArbitrator(offset uint32) []byte { return []byte{byte(offset)} }

type zzListener struct{ calls int }

func (l *zzListener) OnViewChanged(isOnDuty bool) { l.calls++ }

// natively the dpos logger must exist (the engine stubs dpos/log.*)
func zzInitLog() {
	if !nd.Symbolic() {
		d, _ := os.MkdirTemp("", "zzverif-log-")
		log.Init(d, 255, 0, 0)
	}
}

func zzNewView(n int, tol time.Duration, start time.Time) *view {
	return &view{publicKey: []byte{1}, signTolerance: tol, viewStartTime: start,
		arbitrators: &zzArbiters{n: n}, listener: &zzListener{}}
}

// zzC26times draws a view start t0 and polling instants t0 <= t1 <= t2 <= t3
// (millisecond granularity) within a window of w seconds.
func zzC26times(w int64) (t0, t1, t2, t3 time.Time) {
	base := int64(1_600_000_000) * 1_000_000_000
	d1 := int64(nd.U32("d1_ms"))
	d2 := int64(nd.U32("d2_ms"))
	d3 := int64(nd.U32("d3_ms"))
	nd.Assume(d1 <= d2 && d2 <= d3 && d3 <= w*1000)
	t0 = time.Unix(0, base)
	t1 = time.Unix(0, base+d1*1_000_000)
	t2 = time.Unix(0, base+d2*1_000_000)
	t3 = time.Unix(0, base+d3*1_000_000)
	return
}

// ZZ_C26_v0: the pre-V1 schedule (offset = elapsed / tolerance).
func ZZ_C26_v0() {
	zzInitLog()
	w := int64(90)
	if nd.Tier() > 0 {
		w = 3600
	}
	// symbolic-by-symbolic 64-bit division does not terminate in any back end:
	// the tolerance is enumerated (configured values are whole seconds)
	tol := []time.Duration{1 * time.Second, 2 * time.Second, 5 * time.Second, 7 * time.Second, 10 * time.Second}[nd.Choose("tolerance", 5)]
	t0, t1, t2, t3 := zzC26times(w)
	o0 := nd.U32("offset0")
	nd.Assume(o0 < 1000)

	one := zzNewView(4, tol, t0)
	offOne := o0
	one.ChangeView(&offOne, t3)

	steps := zzNewView(4, tol, t0)
	offSteps := o0
	steps.ChangeView(&offSteps, t1)
	mid1 := offSteps
	steps.ChangeView(&offSteps, t2)
	mid2 := offSteps
	steps.ChangeView(&offSteps, t3)
	nd.Reach("evaluated")
	nd.Assert(offOne == offSteps, "v0_stepwise_eq_oneshot_offset")
	nd.Assert(one.viewStartTime.Equal(steps.viewStartTime), "v0_stepwise_eq_oneshot_remainder")
	nd.Assert(o0 <= mid1 && mid1 <= mid2 && mid2 <= offSteps, "v0_monotone")
}

// ZZ_C26_v1: the V1 schedule, one evaluation versus three.
func ZZ_C26_v1() {
	zzInitLog()
	w := int64(60)
	nmax := 6
	if nd.Tier() > 0 {
		w = 400
		nmax = 36
	}
	n := nd.Choose("arbiters", nmax) + 1
	tolMs := int64(nd.U16("tolerance_ms"))
	nd.Assume(tolMs >= 1000 && tolMs <= 10000)
	tol := time.Duration(tolMs) * time.Millisecond
	t0, t1, t2, t3 := zzC26times(w)
	o0 := nd.U32("offset0")
	nd.Assume(o0 < uint32(3*n))

	one := zzNewView(n, tol, t0)
	offOne := o0
	one.ChangeViewV1(&offOne, t3)

	steps := zzNewView(n, tol, t0)
	offSteps := o0
	steps.ChangeViewV1(&offSteps, t1)
	mid1 := offSteps
	steps.ChangeViewV1(&offSteps, t2)
	mid2 := offSteps
	steps.ChangeViewV1(&offSteps, t3)
	nd.Reach("evaluated")
	nd.Assert(o0 <= mid1 && mid1 <= mid2 && mid2 <= offSteps, "v1_monotone")
	// an evaluation that starts at an offset >= n (one full round) uses the
	// "first slot" formula; the two cases are told apart so that the known
	// defect of the latter does not mask anything in the former.
	if o0 < uint32(n) && mid1 < uint32(n) && mid2 < uint32(n) {
		nd.Assert(offOne == offSteps, "v1_stepwise_eq_oneshot_within_round")
		nd.Assert(one.viewStartTime.Equal(steps.viewStartTime), "v1_remainder_within_round")
	} else {
		nd.Assert(offOne == offSteps, "v1_stepwise_eq_oneshot_beyond_round")
	}
}
