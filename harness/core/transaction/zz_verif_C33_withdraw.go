//go:build verif

package transaction

import (
	"crypto/elliptic"
	"math/big"

	"github.com/elastos/Elastos.ELA/blockchain"
	"github.com/elastos/Elastos.ELA/common"
	"github.com/elastos/Elastos.ELA/common/config"
	"github.com/elastos/Elastos.ELA/core/contract"
	pg "github.com/elastos/Elastos.ELA/core/contract/program"
	common2 "github.com/elastos/Elastos.ELA/core/types/common"
	"github.com/elastos/Elastos.ELA/core/types/outputpayload"
	"github.com/elastos/Elastos.ELA/core/types/payload"
	"github.com/elastos/Elastos.ELA/crypto"
	"github.com/elastos/Elastos.ELA/dpos/state"
	"github.com/elastos/Elastos.ELA/zzverif/nd"
)

func (a *zzArbiters) GetArbitrators() []*state.ArbiterInfo { return a.cross }

type zzUsedStore struct {
	blockchain.IChainStore
	used map[common.Uint256]bool
}

func (s *zzUsedStore) IsSidechainTxHashDuplicate(h common.Uint256) bool { return s.used[h] }

// ZZ_C33_v0: a (pre-Schnorr) side-chain withdrawal passes its special context
// check only if every referenced output is a cross-chain UTXO, none of its
// side-chain transaction hashes was withdrawn before, and its program is an
// m-of-n script whose keys are exactly the current normal cross-chain arbiters
// with m at least the required count. Arbiters: 3, each normal or not; script:
// 2..3 key slots each holding an arbiter key or a foreign key, arbitrary m and
// n bytes.
func ZZ_C33_v0() {
	arb := &zzArbiters{}
	normal := 0
	for i := 0; i < 3; i++ {
		isN := nd.Bool("arbiterIsNormal")
		arb.cross = append(arb.cross, &state.ArbiterInfo{NodePublicKey: zzKeyBytes(i), IsNormal: isN})
		if isN {
			normal++
		}
	}
	store := &zzUsedStore{used: map[common.Uint256]bool{}}
	old := blockchain.DefaultLedger
	blockchain.DefaultLedger = &blockchain.Ledger{Arbitrators: arb, Store: store}
	defer func() { blockchain.DefaultLedger = old }()

	cfg := &config.Configuration{}
	cfg.SchnorrStartHeight = 0xffffffff
	cfg.CRConfiguration.CRClaimDPOSNodeStartHeight = 10
	cfg.DPoSConfiguration.DPOSNodeCrossChainHeight = 20
	cfg.DPoSConfiguration.NormalArbitratorsCount = 1 // required signatures: 2
	// script
	slots := nd.Choose("keySlots", 2) + 2
	code := []byte{nd.U8("mByte")}
	var inScript [4]bool
	for i := 0; i < slots; i++ {
		k := nd.Choose("slotKey", 4) // 0..2 arbiters, 3 a foreign key
		inScript[k] = true
		code = append(code, 33)
		code = append(code, zzKeyBytes(k)...)
	}
	code = append(code, nd.U8("nByte"), common.CROSSCHAIN)
	// payload and references
	h := common.Uint256{0x5D, byte(nd.Choose("sideHash", 2))}
	if nd.Bool("hashAlreadyWithdrawn") {
		store.used[h] = true
	}
	tx := &WithdrawFromSideChainTransaction{}
	tx.SetTxType(common2.WithdrawFromSideChain)
	tx.SetPayloadVersion(payload.WithdrawFromSideChainVersion)
	tx.SetPayload(&payload.WithdrawFromSideChain{SideChainTransactionHashes: []common.Uint256{h}})
	tx.SetPrograms([]*pg.Program{{Code: code, Parameter: []byte{}}})
	tx.references = map[*common2.Input]common2.Output{}
	allCross := true
	for i, zzn := 0, nd.Choose("references", 2)+1; i < zzn; i++ {
		var o common2.Output
		o.ProgramHash[0] = nd.U8("prefix")
		if o.ProgramHash[0] != 0x4B {
			allCross = false
		}
		tx.references[&common2.Input{Sequence: uint32(i)}] = o
	}
	tx.parameters = &TransactionParameters{Transaction: tx, BlockHeight: 100, Config: cfg}
	var err error
	nd.NoPanic("SpecialContextCheck", func() {
		err2, _ := tx.SpecialContextCheck()
		if err2 != nil {
			err = err2
		}
	})
	nd.Reach("decided")
	if err == nil {
		nd.Reach("accepted")
		nd.Assert(allCross, "accepted_withdrawal_spends_only_cross_chain_utxos")
		nd.Assert(!store.used[h], "a_withdrawn_side_chain_hash_is_never_withdrawn_again")
		for i := 0; i < 3; i++ {
			if arb.cross[i].IsNormal {
				nd.Assert(inScript[i], "script_names_every_normal_arbiter")
			} else {
				nd.Assert(!inScript[i], "script_names_only_normal_arbiters")
			}
		}
		nd.Assert(!inScript[3], "script_names_no_foreign_key")
		nd.Assert(slots == normal, "script_has_one_slot_per_normal_arbiter")
		m := int(code[0]) - 0x51 + 1
		nd.Assert(m >= 2, "required_signature_count_is_at_least_the_quorum")
	}
}

// ZZ_C33_v1: a payload-version-1 side-chain withdrawal (side-chain hashes in
// withdraw outputs) passes its special context check only if every referenced
// output is a cross-chain UTXO, no withdraw output — wherever it stands among
// 1..3 outputs, plain outputs included — names a side-chain transaction hash
// that was withdrawn before, and its program is an m-of-n script whose keys
// are exactly the current normal arbiters with m at least the quorum.
// Arbiters: 3, the third normal or not; script: exact, one key short, one key
// replaced by a foreign key, or one foreign key more; m in 1..3, n in 2..4;
// 1..2 outputs (3 in the thorough tier); reference prefixes X, E or 8.
func ZZ_C33_v1() {
	arb := &zzArbiters{}
	normal := 0
	for i := 0; i < 3; i++ {
		isN := i < 2 || nd.Bool("thirdArbiterIsNormal")
		arb.cross = append(arb.cross, &state.ArbiterInfo{NodePublicKey: zzKeyBytes(i), IsNormal: isN})
		if isN {
			normal++
		}
	}
	store := &zzUsedStore{used: map[common.Uint256]bool{}}
	old := blockchain.DefaultLedger
	blockchain.DefaultLedger = &blockchain.Ledger{Arbitrators: arb, Store: store}
	defer func() { blockchain.DefaultLedger = old }()

	cfg := &config.Configuration{}
	cfg.SchnorrStartHeight = 0xffffffff
	cfg.CRConfiguration.CRClaimDPOSNodeStartHeight = 10
	cfg.DPoSConfiguration.DPOSNodeCrossChainHeight = 20
	cfg.DPoSConfiguration.NormalArbitratorsCount = 1 // required signatures: 2
	var keys []int
	for i := 0; i < normal; i++ {
		keys = append(keys, i)
	}
	shape := nd.Choose("scriptShape", 4)
	switch shape {
	case 1:
		keys = keys[:len(keys)-1]
	case 2:
		keys[len(keys)-1] = 3
	case 3:
		keys = append(keys, 3)
	}
	code := []byte{byte(0x51 + nd.Choose("m", 3))}
	for _, k := range keys {
		code = append(code, 33)
		code = append(code, zzKeyBytes(k)...)
	}
	code = append(code, byte(0x52+nd.Choose("n", 3)), common.CROSSCHAIN)

	hs := []common.Uint256{{0x5D, 0}, {0x5D, 1}}
	for i := range hs {
		if nd.Bool("hashAlreadyWithdrawn") {
			store.used[hs[i]] = true
		}
	}
	tx := &WithdrawFromSideChainTransaction{}
	tx.SetTxType(common2.WithdrawFromSideChain)
	tx.SetPayloadVersion(payload.WithdrawFromSideChainVersionV1)
	tx.SetPayload(&payload.WithdrawFromSideChain{})
	tx.SetPrograms([]*pg.Program{{Code: code, Parameter: []byte{}}})
	replays := false
	for i, zzn := 0, nd.Choose("outputs", 2+nd.Tier())+1; i < zzn; i++ {
		o := &common2.Output{ProgramHash: common.Uint168{0x21, 9}, Payload: &outputpayload.DefaultOutput{}}
		if k := nd.Choose("outputKind", 3); k > 0 {
			o.Type = common2.OTWithdrawFromSideChain
			o.Payload = &outputpayload.Withdraw{SideChainTransactionHash: hs[k-1]}
			if store.used[hs[k-1]] {
				replays = true
			}
		}
		tx.SetOutputs(append(tx.Outputs(), o))
	}
	tx.references = map[*common2.Input]common2.Output{}
	allCross := true
	for i, zzn := 0, nd.Choose("references", 2)+1; i < zzn; i++ {
		var o common2.Output
		o.ProgramHash[0] = []byte{0x4B, 0x21, 0x12}[nd.Choose("prefix", 3)]
		if o.ProgramHash[0] != 0x4B {
			allCross = false
		}
		tx.references[&common2.Input{Sequence: uint32(i)}] = o
	}
	tx.parameters = &TransactionParameters{Transaction: tx, BlockHeight: 100, Config: cfg}
	var err error
	nd.NoPanic("SpecialContextCheck", func() {
		err2, _ := tx.SpecialContextCheck()
		if err2 != nil {
			err = err2
		}
	})
	nd.Reach("decided")
	if err == nil {
		nd.Reach("accepted")
		nd.Assert(allCross, "accepted_withdrawal_spends_only_cross_chain_utxos")
		nd.Assert(!replays, "a_withdrawn_side_chain_hash_is_never_withdrawn_again")
		nd.Assert(shape == 0, "script_names_exactly_the_normal_arbiters")
		m := int(code[0]) - 0x51 + 1
		nd.Assert(m >= 2, "required_signature_count_is_at_least_the_quorum")
	}
}

// zzArbiterKey: natively the compressed public key of the P-256 private
// scalar i+1 (a point on the curve, so that the real aggregation works);
// under the engine, where curve arithmetic is stubbed, a placeholder.
func zzArbiterKey(i int) []byte {
	if nd.Symbolic() {
		return zzKeyBytes(i)
	}
	x, y := elliptic.P256().ScalarBaseMult([]byte{byte(i + 1)})
	k := make([]byte, 33)
	k[0] = 2 + byte(y.Bit(0))
	x.FillBytes(k[1:])
	return k
}

// ZZ_C33_v2: a Schnorr (payload version 2) side-chain withdrawal at or above
// the restriction height whose program is the script of the aggregate key of
// the arbiters its signer list names passes its special context check only if
// it spends only cross-chain UTXOs, names at least 2/3+1 signers, and every
// signer index names an existing arbiter and appears once. 36 current
// cross-chain arbiters (so that indexes above 31 exist), member count 3,
// 2..4 signer indexes of arbitrary byte value. Under the engine the curve
// arithmetic (Unmarshal / Add / Marshal / DecodePoint) is stubbed and the
// aggregate script is a fixed Schnorr script equal to the program's code,
// i.e. "the program is the one for the named signers"; natively the program
// is computed with the real functions from the signer list of the vector.
func ZZ_C33_v2() {
	nd.Stub("crypto.Unmarshal")
	nd.Stub("crypto.Marshal")
	nd.Stub("crypto.DecodePoint")
	nd.Stub("(crypto/elliptic.Curve).Add")
	fixed := append([]byte{0x51, 33}, zzKeyBytes(9)...)
	nd.StubReturn("core/contract.CreateSchnorrRedeemScript", fixed)
	const n = 36
	arb := &zzArbiters{}
	// under the engine the arbiters' keys are never looked at (stubs), so the
	// 36 list entries are one object: a symbolic index then selects it without
	// a 36-way case split
	shared := &state.ArbiterInfo{NodePublicKey: zzKeyBytes(0), IsNormal: true}
	for i := 0; i < n; i++ {
		if nd.Symbolic() {
			arb.cross = append(arb.cross, shared)
		} else {
			arb.cross = append(arb.cross, &state.ArbiterInfo{NodePublicKey: zzArbiterKey(i), IsNormal: true})
		}
	}
	old := blockchain.DefaultLedger
	blockchain.DefaultLedger = &blockchain.Ledger{Arbitrators: arb}
	defer func() { blockchain.DefaultLedger = old }()
	cfg := &config.Configuration{}
	cfg.CRConfiguration.MemberCount = 3
	cfg.CRConfiguration.CRClaimDPOSNodeStartHeight = 10
	cfg.DPoSConfiguration.DPOSNodeCrossChainHeight = 20
	cfg.CrossChainUTXORestrictionHeight = 50
	k := nd.Choose("signerCount", 3) + 2
	signers := nd.Bytes("signers", k)
	code := fixed
	if !nd.Symbolic() {
		// the script of the aggregate of the named arbiters (an index beyond the
		// list names nobody: such a list must be refused whatever the program)
		Px, Py := new(big.Int), new(big.Int)
		for _, s := range signers {
			if int(s) < n {
				x, y := crypto.Unmarshal(crypto.Curve, arb.cross[s].NodePublicKey)
				Px, Py = crypto.Curve.Add(Px, Py, x, y)
			}
		}
		if pk, err := crypto.DecodePoint(crypto.Marshal(crypto.Curve, Px, Py)); err == nil {
			code, _ = contract.CreateSchnorrRedeemScript(pk)
		}
	}
	pld := &payload.WithdrawFromSideChain{Signers: signers}
	tx := &WithdrawFromSideChainTransaction{}
	tx.SetTxType(common2.WithdrawFromSideChain)
	tx.SetPayloadVersion(payload.WithdrawFromSideChainVersionV2)
	tx.SetPayload(pld)
	tx.SetPrograms([]*pg.Program{{Code: code, Parameter: make([]byte, 64)}})
	tx.references = map[*common2.Input]common2.Output{}
	allCross := true
	for i, zzn := 0, nd.Choose("references", 2)+1; i < zzn; i++ {
		var o common2.Output
		o.ProgramHash[0] = []byte{0x4B, 0x21, 0x12}[nd.Choose("prefix", 3)]
		if o.ProgramHash[0] != 0x4B {
			allCross = false
		}
		tx.references[&common2.Input{Sequence: uint32(i)}] = o
	}
	tx.parameters = &TransactionParameters{Transaction: tx, BlockHeight: 100, Config: cfg}
	var err error
	nd.NoPanic("SpecialContextCheck", func() {
		err2, _ := tx.SpecialContextCheck()
		if err2 != nil {
			err = err2
		}
	})
	nd.Reach("decided")
	if err == nil {
		nd.Reach("accepted")
		nd.Assert(allCross, "accepted_withdrawal_spends_only_cross_chain_utxos")
		nd.Assert(k >= 3, "accepted_withdrawal_names_at_least_the_quorum_of_signers")
		inRange, distinct := true, true
		for i := range signers {
			if int(signers[i]) >= n {
				inRange = false
			}
			for j := 0; j < i; j++ {
				if signers[i] == signers[j] {
					distinct = false
				}
			}
		}
		nd.Assert(inRange, "every_signer_index_names_an_existing_arbiter")
		nd.Assert(distinct, "a_signer_index_appears_only_once")
	}
}
