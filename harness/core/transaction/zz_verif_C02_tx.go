//go:build verif

package transaction

import (
	"bytes"

	"github.com/elastos/Elastos.ELA/zzverif/nd"
)

// ZZ_C02_tx: the transaction wire decoder (GetTransactionByBytes + Deserialize,
// the entry point for every tx, block and mempool message) on L fully symbolic
// bytes: no panic, no allocation sized by the input above the message cap, and
// the decoded element counts fit the input (every attribute, input, output and
// program consumes at least one input byte, so a truncated stream announcing N
// elements must not produce N elements).
func zzC02tx(focus int) {
	L := 16
	if nd.Tier() > 0 {
		L = 24
	}
	data := nd.Bytes("input", L)
	// A transfer transaction (empty payload). The sections attribute / input /
	// output / program are what every type shares. To keep the number of parse
	// paths within reach, the sections BEFORE the focused one are concretely
	// empty; the focused section and everything after it is symbolic.
	if nd.Tier() == 0 || focus < 3 {
		nd.Assume(data[0] == 0x02 && data[1] == 0x00)
		for i := 0; i < 3-focus; i++ {
			nd.Assume(data[2+i] == 0x00)
		}
	}
	if focus == 3 && nd.Tier() == 0 {
		// each attribute forks on ~10 usage values x 4 length classes: at most two
		// announced attributes in the quick tier
		nd.Assume(data[2] <= 2)
		L = 12
		data = data[:L]
	}
	nd.MaxLen(2) // symbolic var-bytes lengths are split into 0,1,2 and "longer" (which then hits EOF or the cap)
	r := bytes.NewReader(data)
	// the largest by-design cap on a single var-bytes field is 16 MiB
	// (common.MaxVarStringLength, attribute data); 32 MiB is the p2p message cap
	nd.AllocLimit(32 << 20)
	var n int
	nd.NoPanic("Transaction.Deserialize", func() {
		tx, err := GetTransactionByBytes(r)
		if err != nil {
			return
		}
		tx.Deserialize(r)
		n = len(tx.Attributes()) + len(tx.Inputs()) + len(tx.Outputs()) + len(tx.Programs())
	})
	nd.Reach("returned")
	nd.Assert(n <= L, "decoded_elements_fit_input")
}

func ZZ_C02_tx_programs()   { zzC02tx(0) }
func ZZ_C02_tx_outputs()    { zzC02tx(1) }
func ZZ_C02_tx_inputs()     { zzC02tx(2) }
func ZZ_C02_tx_attributes() { zzC02tx(3) }
