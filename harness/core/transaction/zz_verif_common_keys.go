//go:build verif

package transaction

import (
	"encoding/hex"

	"github.com/elastos/Elastos.ELA/crypto"
	"github.com/elastos/Elastos.ELA/zzverif/nd"
)

// three real P-256 key pairs (generated once with crypto/ecdsa)
type zzKey struct{ priv, pub []byte }

func zzHex(s string) []byte { b, _ := hex.DecodeString(s); return b }

var zzKeys = []zzKey{
	{zzHex("7890008a6642bc4ba5b663cc21e4045541c36b62787d6fd895b6df6a7a6bae3a"), zzHex("026672f050ac366a24df91ab93b812844adc994666afcee2c2c83627c948f5d9ca")},
	{zzHex("13f69168aa25a6c9169b3c3cd38dc4ee54dbbb36fc73b2a78ffb8954270aa861"), zzHex("0363906812330708752c77d1dde80bc3672628eb4cd6ed78943bf84268db07cdb4")},
	{zzHex("7af9d6cb553e4411e2d33e957d8a9c24260f77ddfc5d1ab8b663228d2da4a2d1"), zzHex("0374fda22fe34a6db57431294afef2f97af8090fd6f7613041729ddb40388a55b7")},
}

// zzSign: key k signs data (perfect-cryptography model under the engine, a
// real ECDSA signature natively).
func zzSign(k int, data []byte) []byte {
	return nd.Sig("signature", zzKeys[k].pub, data, func() []byte {
		s, _ := crypto.Sign(zzKeys[k].priv, data)
		return s
	}, false)
}

func zzStandardCode(k int) []byte {
	c := append([]byte{33}, zzKeys[k].pub...)
	return append(c, 0xAC)
}

// zzMultiCode: m-of-n over the given keys (in the given order)
func zzMultiCode(m int, keys []int) []byte {
	c := []byte{byte(0x50 + m)}
	for _, k := range keys {
		c = append(c, 33)
		c = append(c, zzKeys[k].pub...)
	}
	c = append(c, byte(0x50+len(keys)), 0xAE)
	return c
}
