//go:build verif

package transaction

import (
	common2 "github.com/elastos/Elastos.ELA/core/types/common"
	"github.com/elastos/Elastos.ELA/zzverif/nd"
)

// ZZ_C31_policy: the cross-chain UTXO emergency policy, decided for every
// transaction type byte (all 256 values; the ones GetTransaction knows yield a
// real transaction object), every payload version byte, every mix of 0..3
// referenced outputs with arbitrary address prefix bytes, and all heights.
// The oracle is written from the statement with literal protocol values
// (0x4B = cross-chain prefix, 0x07 withdraw, 0x51 deposit return) so that it
// does not share helpers with the implementation.
func ZZ_C31_policy() {
	ty := common2.TxType(nd.U8("type"))
	tx, err := GetTransaction(ty)
	if err != nil {
		return
	}
	tx.SetTxType(ty)
	pv := nd.U8("payloadVersion")
	tx.SetPayloadVersion(pv)
	m := nd.Choose("refs", 4) // 0..3 referenced outputs
	refs := map[*common2.Input]common2.Output{}
	nCC := 0
	for j := 0; j < m; j++ {
		p := nd.U8("prefix")
		var o common2.Output
		o.ProgramHash[0] = p
		o.ProgramHash[1] = nd.U8("hash1")
		inp := &common2.Input{}
		inp.Previous.Index = uint16(j)
		refs[inp] = o
		if p == 0x4B {
			nCC++
		}
	}
	h := nd.U32("height")
	fz := nd.U32("freeze")
	rs := nd.U32("restriction")
	nd.Assume(fz <= rs) // configured invariant: the freeze window precedes the restriction height
	accepted := checkTransactionCrossChainUTXO(tx, refs, h, fz, rs) == nil
	nd.Reach("decided")
	if nCC == 0 {
		nd.Assert(accepted, "no_crosschain_utxo_is_unaffected")
		return
	}
	if h < fz {
		nd.Assert(accepted, "before_freeze_is_unaffected")
		return
	}
	if h < rs {
		nd.Reach("in_freeze_window")
		nd.Assert(!accepted, "freeze_window_rejects_every_crosschain_spend")
		return
	}
	nd.Reach("after_restriction")
	allowed := false
	if ty == 0x07 {
		allowed = pv <= 2
	} else if ty == 0x51 {
		allowed = pv == 0 && nCC == m
	}
	if allowed {
		nd.Reach("after_restriction_allowed")
		nd.Assert(accepted, "authorized_bridge_tx_accepted_after_restriction")
	} else {
		nd.Assert(!accepted, "only_withdraw_v0_v1_v2_or_legacy_deposit_return_may_spend")
	}
}
