//go:build verif

package transaction

import (
	"math/bits"

	"github.com/elastos/Elastos.ELA/common"
	"github.com/elastos/Elastos.ELA/common/config"
	"github.com/elastos/Elastos.ELA/core"
	common2 "github.com/elastos/Elastos.ELA/core/types/common"
	"github.com/elastos/Elastos.ELA/core/types/interfaces"
	"github.com/elastos/Elastos.ELA/core/types/outputpayload"
	"github.com/elastos/Elastos.ELA/zzverif/nd"
)

// maxSupplySela bounds every previously accepted output: the value of an
// existing UTXO can never exceed everything ever issued (33M ELA at genesis
// + 4%/year; 10^16 sela = 100M ELA is a generous ceiling).
const zzMaxSupplySela = int64(10_000_000_000_000_000)

type zzU128 struct{ hi, lo uint64 }

func (a zzU128) add(v uint64) zzU128 {
	lo, c := bits.Add64(a.lo, v, 0)
	return zzU128{a.hi + c, lo}
}
func (a zzU128) le(b zzU128) bool {
	return a.hi < b.hi || (a.hi == b.hi && a.lo <= b.lo)
}

// zzC01tx builds a transaction of type ty with k outputs of arbitrary value
// and m referenced outputs (values of existing UTXOs).
func zzC01tx(ty common2.TxType, k, m int) (interfaces.Transaction, map[*common2.Input]common2.Output, *TransactionParameters) {
	tx, _ := GetTransaction(ty)
	tx.SetTxType(ty)
	tx.SetVersion(common2.TransactionVersion(nd.U8("version")))
	var outs []*common2.Output
	for i := 0; i < k; i++ {
		o := &common2.Output{AssetID: core.ELAAssetID, Value: common.Fixed64(nd.I64("out"))}
		o.ProgramHash[0] = 0x21
		o.ProgramHash[1] = byte(i + 1)
		o.Payload = &outputpayload.DefaultOutput{}
		outs = append(outs, o)
	}
	tx.SetOutputs(outs)
	refs := map[*common2.Input]common2.Output{}
	var ins []*common2.Input
	for j := 0; j < m; j++ {
		inp := &common2.Input{}
		inp.Previous.Index = uint16(j)
		v := nd.I64("in")
		nd.Assume(v >= 0 && v <= zzMaxSupplySela) // an existing UTXO
		refs[inp] = common2.Output{AssetID: core.ELAAssetID, Value: common.Fixed64(v)}
		ins = append(ins, inp)
	}
	tx.SetInputs(ins)
	cfg := &config.Configuration{}
	cfg.MinTransactionFee = common.Fixed64(nd.I64("minfee"))
	nd.Assume(cfg.MinTransactionFee >= 0 && cfg.MinTransactionFee <= 100000000)
	cfg.PublicDPOSHeight = nd.U32("publicDPOSHeight")
	params := &TransactionParameters{Transaction: tx, BlockHeight: nd.U32("height"), Config: cfg}
	// outputs below the address-format activation height keep the program hash
	// check (base58 round trip, irrelevant to amounts) out of the encoding
	nd.Assume(params.BlockHeight < config.DefaultParams.CheckAddressHeight)
	tx.SetParameters(params)
	return tx, refs, params
}

func zzC01oracle(tx interfaces.Transaction, refs map[*common2.Input]common2.Output, minFee common.Fixed64, id string) {
	var sumOut, sumIn zzU128
	for _, o := range tx.Outputs() {
		sumOut = sumOut.add(uint64(o.Value)) // outputs were accepted: each >= 0
	}
	sumOut = sumOut.add(uint64(minFee))
	for _, r := range refs {
		sumIn = sumIn.add(uint64(r.Value))
	}
	nd.Assert(sumOut.le(sumIn), id)
}

// ZZ_C01_transfer: the generic sanity (output) check plus the generic fee
// check accept only if exact Σ outputs + minFee ≤ exact Σ inputs.
func ZZ_C01_transfer() {
	kmax, mmax := 3, 2
	if nd.Tier() > 0 {
		kmax, mmax = 6, 4
	}
	k := nd.Choose("k", kmax) + 1
	m := nd.Choose("m", mmax) + 1
	ty := []common2.TxType{common2.TransferAsset, common2.Record, common2.TransferCrossChainAsset}[nd.Choose("type", 3)]
	tx, refs, params := zzC01tx(ty, k, m)
	if tx.CheckTransactionOutput() != nil {
		return
	}
	if checkAssetPrecision(tx) != nil {
		return
	}
	if tx.CheckTransactionFee(refs) != nil {
		return
	}
	nd.Reach("accepted")
	zzC01oracle(tx, refs, params.Config.MinTransactionFee, "outputs_plus_fee_le_inputs")
}

// ZZ_C01_feefn: getTransactionFee itself never reports a fee larger than the
// exact difference (what GetTxFee / block fee accounting relies on).
func ZZ_C01_feefn() {
	k := nd.Choose("k", 3) + 1
	m := nd.Choose("m", 2) + 1
	tx, refs, _ := zzC01tx(common2.TransferAsset, k, m)
	for _, o := range tx.Outputs() {
		nd.Assume(o.Value >= 0)
	}
	fee := getTransactionFee(tx, refs)
	nd.Reach("computed")
	if fee >= 0 {
		var sumOut, sumIn zzU128
		for _, o := range tx.Outputs() {
			sumOut = sumOut.add(uint64(o.Value))
		}
		sumOut = sumOut.add(uint64(fee))
		for _, r := range refs {
			sumIn = sumIn.add(uint64(r.Value))
		}
		nd.Assert(sumOut.le(sumIn), "fee_not_above_exact_difference")
	}
}

// ZZ_C01_inputs: inputs are UTXOs, not input records. A transfer whose 2..3
// inputs each name one of two existing UTXOs (any combination, arbitrary
// sequence numbers) and whose references are what GetTxReference returns for
// them (one entry per input record, carrying the named UTXO's value): the
// input sanity check, the output check and the fee check together accept only
// if exact Σ outputs + minFee ≤ the exact sum over the DISTINCT UTXOs named —
// a UTXO named twice must not be counted twice.
func ZZ_C01_inputs() {
	tx, _, params := zzC01tx(common2.TransferAsset, nd.Choose("k", 2)+1, 0)
	values := []int64{nd.I64("utxo0"), nd.I64("utxo1")}
	for _, v := range values {
		nd.Assume(v >= 0 && v <= zzMaxSupplySela)
	}
	refs := map[*common2.Input]common2.Output{}
	var ins []*common2.Input
	named := [2]bool{}
	for j, zzn := 0, nd.Choose("inputs", 2)+2; j < zzn; j++ {
		u := nd.Choose("names", 2)
		named[u] = true
		inp := &common2.Input{Sequence: nd.U32("sequence")}
		inp.Previous.TxID = common.Uint256{0xA7}
		inp.Previous.Index = uint16(u)
		refs[inp] = common2.Output{AssetID: core.ELAAssetID, Value: common.Fixed64(values[u])}
		ins = append(ins, inp)
	}
	tx.SetInputs(ins)
	if tx.CheckTransactionInput() != nil {
		return
	}
	if tx.CheckTransactionOutput() != nil {
		return
	}
	if checkAssetPrecision(tx) != nil {
		return
	}
	if tx.CheckTransactionFee(refs) != nil {
		return
	}
	nd.Reach("accepted")
	var sumOut, sumIn zzU128
	for _, o := range tx.Outputs() {
		sumOut = sumOut.add(uint64(o.Value))
	}
	sumOut = sumOut.add(uint64(params.Config.MinTransactionFee))
	for u := range named {
		if named[u] {
			sumIn = sumIn.add(uint64(values[u]))
		}
	}
	nd.Assert(sumOut.le(sumIn), "outputs_plus_fee_le_the_distinct_utxos_spent")
}
