//go:build verif

package transaction

import (
	"bytes"
	"github.com/elastos/Elastos.ELA/blockchain"
	"github.com/elastos/Elastos.ELA/common"
	"github.com/elastos/Elastos.ELA/common/config"
	pg "github.com/elastos/Elastos.ELA/core/contract/program"
	common2 "github.com/elastos/Elastos.ELA/core/types/common"
	"github.com/elastos/Elastos.ELA/core/types/payload"
	crstate "github.com/elastos/Elastos.ELA/cr/state"
	"github.com/elastos/Elastos.ELA/dpos/state"
	"github.com/elastos/Elastos.ELA/zzverif/nd"
)

func zzC29Config() *config.Configuration {
	cfg := &config.Configuration{MinTransactionFee: 100}
	cfg.CRConfiguration.CRCommitteeStartHeight = 40
	cfg.CRConfiguration.VotingPeriod = 5
	cfg.CRConfiguration.CRClaimPeriod = 5
	cfg.CRConfiguration.DutyPeriod = 1000
	cfg.CRConfiguration.MaxCommitteeProposalCount = 128
	cfg.CRConfiguration.MaxProposalTrackingCount = 128
	cfg.CRConfiguration.RealWithdrawSingleFee = 10000
	expenses := common.Uint168{0x1c, 0xE8}
	cfg.CRConfiguration.CRExpensesProgramHash = &expenses
	return cfg
}

func zzC29Committee(cfg *config.Configuration) *crstate.Committee {
	c := crstate.ZZNewCommittee(cfg)
	c.InElectionPeriod = true
	c.LastCommitteeHeight = 50
	c.LastVotingStartHeight = 10
	return c
}

// ZZ_C29_register: a normal proposal with 1..3 budget entries (stage and type
// bytes arbitrary, amounts arbitrary int64) correctly signed by its owner and
// by an elected council member passes CRCProposalTransaction.
// SpecialContextCheck only if every amount is non-negative and the exact sum
// of the amounts is within what the committee has left for this stage:
// CRCCurrentStageAmount - CRCCommitteeUsedAmount - (budgets of the proposals
// already in the block / pool), and within 10% of the stage amount left at the
// last appropriation. Committee amounts arbitrary with 0 <= used <= stage
// amount <= 2^60.
func ZZ_C29_register() {
	cfg := zzC29Config()
	c := zzC29Committee(cfg)
	chain := blockchain.ZZNewChain(cfg, &state.State{StateKeyFrame: state.NewStateKeyFrame(), ChainParams: cfg}, c)
	// quick tier: the stage amount and the amount used at the last appropriation
	// are fixed (5 000 000 ELA, 0), which makes the 10% rule's multiplication and
	// division concrete; thorough tier: both arbitrary
	stage, usedAtAppropriation := common.Fixed64(500000000000000), common.Fixed64(0)
	if nd.Tier() > 0 {
		stage, usedAtAppropriation = zzAmount("currentStageAmount"), zzAmount("usedAtAppropriation")
	}
	used, inBlock := zzAmount("committeeUsedAmount"), zzAmount("proposalsUsedAmount")
	nd.Assume(used <= stage && usedAtAppropriation <= stage && inBlock <= stage-used)
	c.CRCCurrentStageAmount, c.CRCCommitteeUsedAmount, c.CommitteeUsedAmount = stage, used, usedAtAppropriation

	did := common.Uint168{0x67, 0x41}
	c.Members[did] = &crstate.CRMember{Info: payload.CRInfo{Code: zzStandardCode(1), DID: did}, MemberState: crstate.MemberElected}

	p := &payload.CRCProposal{ProposalType: payload.Normal, OwnerKey: zzKeys[0].pub, CRCouncilMemberDID: did,
		Recipient: common.Uint168{0x21, 0x4E, 1, 2, 3}, DraftHash: common.Uint256{0xD7}}
	var amounts []common.Fixed64
	n := nd.Choose("budgets", 3) + 1
	for i := 0; i < n; i++ {
		a := common.Fixed64(nd.I64("budgetAmount"))
		amounts = append(amounts, a)
		// quick tier: stages in order (imprest stage 0 first), types arbitrary;
		// thorough tier: stage bytes arbitrary as well
		stage := byte(i)
		if nd.Tier() > 0 {
			stage = nd.U8("budgetStage")
		}
		p.Budgets = append(p.Budgets, payload.Budget{Stage: stage, Type: payload.InstallmentType(nd.U8("budgetType")), Amount: a})
	}
	unsigned := new(bytes.Buffer)
	p.SerializeUnsigned(unsigned, payload.CRCProposalVersion)
	p.Signature = zzSign(0, unsigned.Bytes())
	common.WriteVarBytes(unsigned, p.Signature)
	did.Serialize(unsigned)
	p.CRCouncilMemberSignature = zzSign(1, unsigned.Bytes())

	tx := &CRCProposalTransaction{}
	tx.SetTxType(common2.CRCProposal)
	tx.SetPayloadVersion(payload.CRCProposalVersion)
	tx.SetPayload(p)
	tx.parameters = &TransactionParameters{Transaction: tx, BlockHeight: 100, Config: cfg, BlockChain: chain, ProposalsUsedAmount: inBlock}

	// the recipient's address string is only checked to be encodable, which
	// holds for every 21-byte hash (base58 of a math/big value: not encoded)
	nd.Stub("(common.Uint168).ToAddress")
	accepted := false
	nd.NoPanic("SpecialContextCheck", func() {
		if err, _ := tx.SpecialContextCheck(); err == nil {
			accepted = true
		}
	})
	nd.Reach("decided")
	if !accepted {
		return
	}
	nd.Reach("accepted")
	sum, ok := zzExactSum(amounts)
	nd.Assert(ok, "accepted_budget_amounts_are_non_negative_and_their_sum_does_not_wrap")
	if ok {
		nd.Assert(sum <= stage-used-inBlock, "accepted_budget_is_within_the_funds_the_committee_has_left")
		nd.Assert(sum <= (stage-usedAtAppropriation)/10+1, "accepted_budget_is_within_ten_percent_of_the_stage_amount")
	}
}

// ZZ_C29_withdraw: a proposal withdrawal (payload version 1) correctly signed
// by the proposal owner passes CRCProposalWithdrawTransaction.
// SpecialContextCheck only if the amount it announces is exactly the sum of
// the stages that are withdrawable and not yet withdrawn; after the committee
// has processed it, the same withdrawal (and any other) is refused, the
// withdrawn total has grown by exactly that amount and stays within the
// approved budget. Proposal with 2..3 stages of arbitrary amounts in
// [0, 2^60], 0..1 normal stage and the imprest withdrawable, each withdrawable
// stage withdrawn before or not; proposal status arbitrary.
func ZZ_C29_withdraw() {
	cfg := zzC29Config()
	c := zzC29Committee(cfg)
	chain := blockchain.ZZNewChain(cfg, &state.State{StateKeyFrame: state.NewStateKeyFrame(), ChainParams: cfg}, c)
	ph := common.Uint256{0x99, 0x01}
	recipient := common.Uint168{0x21, 0x4E, 1, 2, 3}
	ps := &crstate.ProposalState{Status: crstate.ProposalStatus(nd.U8("proposalStatus")), CRVotes: map[common.Uint168]payload.VoteResult{},
		WithdrawnBudgets: map[uint8]common.Fixed64{}, WithdrawableBudgets: map[uint8]common.Fixed64{}, BudgetsStatus: map[uint8]crstate.BudgetStatus{},
		ProposalOwner: zzKeys[0].pub, Recipient: recipient}
	stages := nd.Choose("stages", 2) + 2
	var total, available common.Fixed64
	for i := 0; i < stages; i++ {
		b := payload.Budget{Stage: byte(i), Type: payload.NormalPayment, Amount: zzAmount("budgetAmount")}
		if i == 0 {
			b.Type = payload.Imprest
		} else if i == stages-1 {
			b.Type = payload.FinalPayment
		}
		ps.Proposal.Budgets = append(ps.Proposal.Budgets, b)
		total += b.Amount
		if b.Type != payload.FinalPayment && nd.Bool("stageWithdrawable") {
			ps.WithdrawableBudgets[b.Stage] = b.Amount
			ps.BudgetsStatus[b.Stage] = crstate.Withdrawable
			if nd.Bool("stageWithdrawn") {
				ps.WithdrawnBudgets[b.Stage] = b.Amount
				ps.BudgetsStatus[b.Stage] = crstate.Withdrawn
			} else {
				available += b.Amount
			}
		} else {
			ps.BudgetsStatus[b.Stage] = crstate.Unfinished
		}
	}
	c.GetProposalManager().Proposals[ph] = ps

	mk := func(amount common.Fixed64, id byte) *CRCProposalWithdrawTransaction {
		w := &payload.CRCProposalWithdraw{ProposalHash: ph, OwnerKey: zzKeys[0].pub, Recipient: recipient, Amount: amount}
		unsigned := new(bytes.Buffer)
		w.SerializeUnsigned(unsigned, payload.CRCProposalWithdrawVersion01)
		w.Signature = zzSign(0, unsigned.Bytes())
		tx := &CRCProposalWithdrawTransaction{}
		tx.SetTxType(common2.CRCProposalWithdraw)
		tx.SetPayloadVersion(payload.CRCProposalWithdrawVersion01)
		tx.SetPayload(w)
		tx.SetPrograms([]*pg.Program{{Code: zzStandardCode(0), Parameter: []byte{}}})
		in := &common2.Input{Previous: common2.OutPoint{TxID: common.Uint256{0xE0, id}}}
		tx.SetInputs([]*common2.Input{in})
		tx.references = map[*common2.Input]common2.Output{in: {Value: 1000, ProgramHash: *cfg.CRConfiguration.CRExpensesProgramHash}}
		tx.parameters = &TransactionParameters{Transaction: tx, BlockHeight: 100, Config: cfg, BlockChain: chain}
		tx.DefaultChecker.SetParameters(tx.parameters)
		return tx
	}
	amount := common.Fixed64(nd.I64("announcedAmount"))
	tx := mk(amount, 1)
	accepted := false
	nd.NoPanic("SpecialContextCheck", func() {
		if err, _ := tx.SpecialContextCheck(); err == nil {
			accepted = true
		}
	})
	nd.Reach("decided")
	if !accepted {
		return
	}
	nd.Reach("accepted")
	nd.Assert(amount == available && amount > 0, "accepted_withdrawal_announces_exactly_the_withdrawable_stages_not_yet_withdrawn")
	nd.Assert(ps.Status == crstate.VoterAgreed || ps.Status == crstate.Finished || ps.Status == crstate.Aborted || ps.Status == crstate.Terminated,
		"withdrawal_only_from_an_agreed_or_ended_proposal")
	var before common.Fixed64
	for _, v := range ps.WithdrawnBudgets {
		before += v
	}
	nd.NoPanic("process", func() { c.ZZProcessTransaction(tx, 100) })
	var after common.Fixed64
	for _, v := range ps.WithdrawnBudgets {
		after += v
	}
	nd.Assert(after == before+amount, "withdrawn_total_grows_by_exactly_the_paid_amount")
	nd.Assert(after <= total, "withdrawn_total_stays_within_the_approved_budget")
	// the same stages cannot be withdrawn a second time
	again := mk(common.Fixed64(nd.I64("secondAmount")), 2)
	refused := true
	nd.NoPanic("second", func() {
		if err, _ := again.SpecialContextCheck(); err == nil {
			refused = false
		}
	})
	nd.Assert(refused, "a_second_withdrawal_of_the_same_stages_is_refused")
}
