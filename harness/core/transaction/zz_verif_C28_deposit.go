//go:build verif

package transaction

import (
	"github.com/elastos/Elastos.ELA/blockchain"
	"github.com/elastos/Elastos.ELA/common"
	"github.com/elastos/Elastos.ELA/common/config"
	"github.com/elastos/Elastos.ELA/core/contract"
	pg "github.com/elastos/Elastos.ELA/core/contract/program"
	common2 "github.com/elastos/Elastos.ELA/core/types/common"
	"github.com/elastos/Elastos.ELA/core/types/outputpayload"
	"github.com/elastos/Elastos.ELA/core/types/payload"
	crstate "github.com/elastos/Elastos.ELA/cr/state"
	"github.com/elastos/Elastos.ELA/dpos/state"
	"github.com/elastos/Elastos.ELA/zzverif/nd"
)

// ZZ_C28_returndeposit: a return-deposit transaction of a producer that passes
// its special context check and the fee check takes, in exact arithmetic, no
// more out of the deposit address than the producer's available amount
// (total - locked deposit - penalty). References: 1..2 deposit UTXOs with
// arbitrary non-negative values; outputs: 1..3 with arbitrary int64 values,
// each to the deposit address (change) or elsewhere; the producer's three
// amounts arbitrary in [0, 2^60].
func ZZ_C28_returndeposit() {
	cfg := &config.Configuration{MinTransactionFee: 100}
	st := &state.State{StateKeyFrame: state.NewStateKeyFrame(), ChainParams: cfg}
	key := zzKeyBytes(0)
	total, locked, penalty := zzAmount("totalAmount"), zzAmount("depositAmount"), zzAmount("penalty")
	p := state.ZZNewProducer(st, key, total, locked, penalty, state.DPoSV1, 0)
	chain := blockchain.ZZNewChain(cfg, st, nil)

	code := append(append([]byte{33}, key...), common.STANDARD)
	depositHash := common.Uint168{0x1f, 0xD0}
	otherHash := common.Uint168{0x21, 0x07}

	tx := &ReturnDepositCoinTransaction{}
	tx.SetTxType(common2.ReturnDepositCoin)
	tx.SetPayload(&payload.ReturnDepositCoin{})
	tx.SetPrograms([]*pg.Program{{Code: code, Parameter: []byte{}}})
	tx.references = map[*common2.Input]common2.Output{}
	var ins, change, others []common.Fixed64
	nRefs := nd.Choose("references", 2) + 1
	for i := 0; i < nRefs; i++ {
		v := common.Fixed64(nd.U64("referenceValue"))
		nd.Assume(v >= 0) // a stored UTXO value
		ins = append(ins, v)
		in := &common2.Input{Previous: common2.OutPoint{Index: uint16(i)}}
		tx.SetInputs(append(tx.Inputs(), in))
		tx.references[in] = common2.Output{Value: v, ProgramHash: depositHash}
	}
	nOuts := nd.Choose("outputs", 3) + 1
	for i := 0; i < nOuts; i++ {
		v := common.Fixed64(nd.U64("outputValue"))
		o := &common2.Output{Value: v, ProgramHash: otherHash, Payload: &outputpayload.DefaultOutput{}}
		if nd.Bool("outputIsChange") {
			o.ProgramHash = depositHash
			change = append(change, v)
		} else {
			others = append(others, v)
		}
		tx.SetOutputs(append(tx.Outputs(), o))
	}
	tx.parameters = &TransactionParameters{Transaction: tx, BlockHeight: 100, Config: cfg, BlockChain: chain}
	tx.DefaultChecker.SetParameters(tx.parameters)

	accepted := false
	nd.NoPanic("checks", func() {
		if err, _ := tx.SpecialContextCheck(); err != nil {
			return
		}
		if err := tx.CheckTransactionFee(tx.references); err != nil {
			return
		}
		accepted = true
	})
	nd.Reach("decided")
	if !accepted {
		return
	}
	nd.Reach("accepted")
	available := p.AvailableAmount()
	in, ok1 := zzExactSum(ins)
	ch, ok2 := zzExactSum(change)
	ot, ok3 := zzExactSum(others)
	nd.Assert(ok1 && ok2 && ok3, "accepted_amounts_are_non_negative_and_their_sums_do_not_wrap")
	if ok1 && ok2 && ok3 {
		nd.Assert(ch <= in, "change_does_not_exceed_inputs")
		nd.Assert(in-ch <= available, "amount_leaving_the_deposit_address_is_at_most_the_available_amount")
		nd.Assert(ot <= available, "amount_paid_out_is_at_most_the_available_amount")
		nd.Assert(available >= 0, "available_amount_is_non_negative_when_a_withdrawal_is_accepted")
	}
}

// ZZ_C28_votev2: a DPoS v2 voting transaction that passes payload validation
// and its special context check uses, in exact arithmetic, no more votes than
// the stake address has left (rights - used). Two active v2 producers; 1..2
// vote entries, each for one of them with arbitrary int64 votes and a valid
// lock time; rights and used arbitrary with 0 <= used <= rights <= 2^60.
func ZZ_C28_votev2() {
	cfg := &config.Configuration{}
	cfg.DPoSConfiguration.DPoSV2MinVotesLockTime = 10
	cfg.DPoSConfiguration.DPoSV2MaxVotesLockTime = 1000
	st := &state.State{StateKeyFrame: state.NewStateKeyFrame(), ChainParams: cfg}
	state.ZZNewProducer(st, zzKeyBytes(0), 0, 0, 0, state.DPoSV2, 5000)
	state.ZZNewProducer(st, zzKeyBytes(1), 0, 0, 0, state.DPoSV2, 5000)
	committee := &crstate.Committee{Params: cfg}
	committee.InElectionPeriod = true
	chain := blockchain.ZZNewChain(cfg, st, committee)

	voter := zzKeyBytes(7)
	code := append(append([]byte{33}, voter...), common.STANDARD)
	c, _ := contract.CreateStakeContractByCode(code)
	ct := *c.ToProgramHash()
	rights, used := zzAmount("voteRights"), zzAmount("usedVotes")
	nd.Assume(used <= rights)
	st.DposV2VoteRights[ct] = rights
	st.UsedDposV2Votes[ct] = used

	var votes []common.Fixed64
	content := payload.VotesContent{VoteType: outputpayload.DposV2}
	n := nd.Choose("voteEntries", 2) + 1
	for i := 0; i < n; i++ {
		v := common.Fixed64(nd.U64("votes"))
		votes = append(votes, v)
		content.VotesInfo = append(content.VotesInfo, payload.VotesWithLockTime{
			Candidate: zzKeyBytes(nd.Choose("candidate", 2)), Votes: v, LockTime: 100 + 50})
	}
	pld := &payload.Voting{Contents: []payload.VotesContent{content}}
	tx := &VotingTransaction{}
	tx.SetTxType(common2.Voting)
	tx.SetPayloadVersion(payload.VoteVersion)
	tx.SetPayload(pld)
	tx.SetPrograms([]*pg.Program{{Code: code, Parameter: []byte{}}})
	tx.parameters = &TransactionParameters{Transaction: tx, BlockHeight: 100, Config: cfg, BlockChain: chain}

	accepted := false
	nd.NoPanic("checks", func() {
		if tx.CheckTransactionPayload() != nil {
			return
		}
		if err, _ := tx.SpecialContextCheck(); err != nil {
			return
		}
		accepted = true
	})
	nd.Reach("decided")
	if !accepted {
		return
	}
	nd.Reach("accepted")
	sum, ok := zzExactSum(votes)
	nd.Assert(ok, "accepted_votes_are_non_negative_and_their_sum_does_not_wrap")
	if ok {
		nd.Assert(sum <= rights-used, "votes_cast_are_at_most_the_unused_vote_rights")
	}
}

// ZZ_C28_returnvotes: a return-votes transaction that passes its special
// context check (Schnorr payload version: no payload signature) returns a
// positive amount that is, in exact arithmetic, at most the vote rights not
// in use in any category: DPoS v2 votes, CR votes, CR impeachment votes, CR
// proposal votes and — until DPoS 2.0 is active — DPoS 1.0 votes, both
// before and after DPoSV2ActiveHeight. Rights and the five used amounts
// arbitrary with 0 <= used <= rights <= 2^60; the returned value is an
// arbitrary int64.
func ZZ_C28_returnvotes() {
	cfg := &config.Configuration{}
	cfg.CRConfiguration.RealWithdrawSingleFee = 10000
	st := &state.State{StateKeyFrame: state.NewStateKeyFrame(), ChainParams: cfg}
	v2Active := nd.Bool("dposV2Active")
	st.DPoSV2ActiveHeight = 50
	if !v2Active {
		st.DPoSV2ActiveHeight = 200
	}
	committee := crstate.ZZNewCommittee(cfg)
	chain := blockchain.ZZNewChain(cfg, st, committee)

	voter := zzKeyBytes(7)
	code := append(append([]byte{33}, voter...), common.STANDARD)
	c, _ := contract.CreateStakeContractByCode(code)
	ct := *c.ToProgramHash()
	rights := zzAmount("voteRights")
	usedV1, usedV2, usedCR := zzAmount("usedV1Votes"), zzAmount("usedV2Votes"), zzAmount("usedCRVotes")
	usedImpeachment, usedProposal := zzAmount("usedImpeachmentVotes"), zzAmount("usedProposalVotes")
	nd.Assume(usedV1 <= rights && usedV2 <= rights && usedCR <= rights && usedImpeachment <= rights && usedProposal <= rights)
	st.DposV2VoteRights[ct] = rights
	st.UsedDposV2Votes[ct] = usedV2
	st.UsedDposVotes[ct] = []payload.VotesWithLockTime{{Candidate: zzKeyBytes(1), Votes: usedV1}}
	cs := committee.GetState()
	cs.UsedCRVotes[ct] = []payload.VotesWithLockTime{{Candidate: zzKeyBytes(1), Votes: usedCR}}
	cs.UsedCRImpeachmentVotes[ct] = []payload.VotesWithLockTime{{Candidate: zzKeyBytes(2), Votes: usedImpeachment}}
	cs.UsedCRCProposalVotes[ct] = []payload.VotesWithLockTime{{Candidate: zzKeyBytes(3), Votes: usedProposal}}

	value := common.Fixed64(nd.U64("returnValue"))
	tx := &ReturnVotesTransaction{}
	tx.SetTxType(common2.ReturnVotes)
	tx.SetPayloadVersion(payload.ReturnVotesSchnorrVersion)
	tx.SetPayload(&payload.ReturnVotes{Value: value})
	tx.SetPrograms([]*pg.Program{{Code: code, Parameter: []byte{}}})
	tx.parameters = &TransactionParameters{Transaction: tx, BlockHeight: 100, Config: cfg, BlockChain: chain}

	accepted := false
	nd.NoPanic("checks", func() {
		if err, _ := tx.SpecialContextCheck(); err != nil {
			return
		}
		accepted = true
	})
	nd.Reach("decided")
	if !accepted {
		return
	}
	nd.Reach("accepted")
	nd.Assert(value > 0, "returned_amount_is_positive")
	nd.Assert(value <= rights-usedV2, "returned_amount_is_at_most_the_rights_not_used_by_dpos_v2_votes")
	nd.Assert(value <= rights-usedCR, "returned_amount_is_at_most_the_rights_not_used_by_cr_votes")
	nd.Assert(value <= rights-usedImpeachment, "returned_amount_is_at_most_the_rights_not_used_by_impeachment_votes")
	nd.Assert(value <= rights-usedProposal, "returned_amount_is_at_most_the_rights_not_used_by_proposal_votes")
	if !v2Active {
		nd.Assert(value <= rights-usedV1, "returned_amount_is_at_most_the_rights_not_used_by_dpos_v1_votes_before_activation")
	}
}
