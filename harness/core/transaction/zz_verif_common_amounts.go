//go:build verif

package transaction

import (
	"math"

	"github.com/elastos/Elastos.ELA/common"
	"github.com/elastos/Elastos.ELA/zzverif/nd"
)

// exact sum of non-negative amounts: ok is false when an amount is negative
// or the mathematical sum does not fit an int64
func zzExactSum(vs []common.Fixed64) (sum common.Fixed64, ok bool) {
	ok = true
	for _, v := range vs {
		if v < 0 || sum > common.Fixed64(math.MaxInt64)-v {
			ok = false
			return
		}
		sum += v
	}
	return
}

func zzAmount(name string) common.Fixed64 {
	v := common.Fixed64(nd.U64(name))
	nd.Assume(uint64(v) <= 1<<60)
	return v
}

