//go:build verif

package transaction

import (
	"bytes"

	"github.com/elastos/Elastos.ELA/blockchain"
	"github.com/elastos/Elastos.ELA/common"
	"github.com/elastos/Elastos.ELA/common/config"
	"github.com/elastos/Elastos.ELA/core"
	common2 "github.com/elastos/Elastos.ELA/core/types/common"
	"github.com/elastos/Elastos.ELA/core/types/outputpayload"
	"github.com/elastos/Elastos.ELA/core/types/payload"
	crstate "github.com/elastos/Elastos.ELA/cr/state"
	"github.com/elastos/Elastos.ELA/dpos/state"
	"github.com/elastos/Elastos.ELA/zzverif/nd"
)

// ZZ_C01_activate: the tail of DefaultChecker.ContextCheck for an
// ActivateProducer transaction — SpecialContextCheck, and the fee check unless
// the special check ends validation — with 1 referenced UTXO and 1 output of
// arbitrary values, correctly signed (payload) by the DPoS node key of a CR
// council member that is elected, inactive or illegal, or of nobody, before
// and after NFTStartHeight (from where the sanity checks no longer demand an
// input-less, output-less transaction): accepted only if exact
// outputs + fee <= inputs.
func ZZ_C01_activate() {
	cfg := &config.Configuration{MinTransactionFee: 100}
	cfg.DPoSConfiguration.NFTStartHeight = 50
	cfg.EnableActivateIllegalHeight = 10
	height := uint32(100)
	if nd.Bool("beforeNFTStartHeight") {
		height = 40
	}
	st := &state.State{StateKeyFrame: state.NewStateKeyFrame(), ChainParams: cfg}
	committee := crstate.ZZNewCommittee(cfg)
	committee.InElectionPeriod = true
	node := zzKeys[0].pub
	cid := common.Uint168{0x67, 5}
	ms := []crstate.MemberState{crstate.MemberElected, crstate.MemberInactive, crstate.MemberIllegal}[nd.Choose("memberState", 3)]
	if nd.Bool("keyBelongsToACouncilMember") {
		committee.Members[common.Uint168{0x67, 6}] = &crstate.CRMember{Info: payload.CRInfo{CID: cid, DID: common.Uint168{0x67, 6}}, MemberState: ms, DPOSPublicKey: node}
		committee.GetState().DepositInfo[cid] = &crstate.DepositInfo{TotalAmount: 5000_00000000, DepositAmount: 5000_00000000}
	}
	chain := blockchain.ZZNewChain(cfg, st, committee)

	pld := &payload.ActivateProducer{NodePublicKey: node}
	unsigned := new(bytes.Buffer)
	pld.SerializeUnsigned(unsigned, 0)
	pld.Signature = zzSign(0, unsigned.Bytes())
	tx := &ActivateProducerTransaction{}
	tx.SetTxType(common2.ActivateProducer)
	tx.SetPayload(pld)
	in := &common2.Input{Previous: common2.OutPoint{TxID: common.Uint256{0xA7}}}
	tx.SetInputs([]*common2.Input{in})
	inValue := nd.I64("in")
	nd.Assume(inValue >= 0 && inValue <= zzMaxSupplySela)
	refs := map[*common2.Input]common2.Output{in: {AssetID: core.ELAAssetID, Value: common.Fixed64(inValue), ProgramHash: common.Uint168{0x21, 1}}}
	out := common.Fixed64(nd.I64("out"))
	tx.SetOutputs([]*common2.Output{{AssetID: core.ELAAssetID, Value: out, ProgramHash: common.Uint168{0x21, 2}, Payload: &outputpayload.DefaultOutput{}}})
	tx.parameters = &TransactionParameters{Transaction: tx, BlockHeight: height, Config: cfg, BlockChain: chain}
	tx.references = refs

	accepted := false
	nd.NoPanic("checks", func() {
		// the sanity checks on inputs and outputs
		if tx.CheckTransactionInput() != nil || tx.CheckTransactionOutput() != nil {
			return
		}
		// DefaultChecker.ContextCheck: special check, then (unless it ends
		// validation) the fee check
		cerr, end := tx.SpecialContextCheck()
		if cerr != nil {
			return
		}
		if !end && tx.CheckTransactionFee(refs) != nil {
			return
		}
		accepted = true
	})
	nd.Reach("decided")
	if !accepted {
		return
	}
	nd.Reach("accepted")
	nd.Assert(out >= 0 && int64(out) <= inValue, "accepted_activation_pays_out_at_most_what_it_spends")
}

// ZZ_C01_zerocost: the transaction types whose SpecialContextCheck ends
// validation with acceptance (so that neither the fee check nor the program
// signature check runs) must be unable to move coins: at every height their
// sanity checks refuse a transaction that carries an input or an output.
// (Coinbase, CR appropriation / real-withdraw style transactions, whose special
// check compares the whole transaction with the one the node would build, and
// side-chain PoW are not in this list.)
func ZZ_C01_zerocost() {
	types := []common2.TxType{common2.IllegalProposalEvidence, common2.IllegalVoteEvidence, common2.IllegalBlockEvidence,
		common2.IllegalSidechainEvidence, common2.InactiveArbitrators, common2.NextTurnDPOSInfo, common2.RevertToPOW,
		common2.RevertToDPOS, common2.UpdateVersion, common2.ProposalResult, common2.RecordSponsor}
	ty := types[nd.Choose("type", len(types))]
	tx, _ := GetTransaction(ty)
	tx.SetTxType(ty)
	tx.SetVersion(common2.TxVersion09)
	cfg := &config.Configuration{}
	params := &TransactionParameters{Transaction: tx, BlockHeight: nd.U32("height"), Config: cfg}
	tx.SetParameters(params)
	hasInput, hasOutput := nd.Bool("hasInput"), nd.Bool("hasOutput")
	nd.Assume(hasInput || hasOutput)
	if hasInput {
		tx.SetInputs([]*common2.Input{{Previous: common2.OutPoint{TxID: common.Uint256{0xA7}}}})
	}
	if hasOutput {
		tx.SetOutputs([]*common2.Output{{AssetID: core.ELAAssetID, Value: common.Fixed64(nd.I64("out")), ProgramHash: common.Uint168{0x21, 2}, Payload: &outputpayload.DefaultOutput{}}})
	}
	var inErr, outErr error
	nd.NoPanic("sanity", func() {
		inErr = tx.CheckTransactionInput()
		outErr = tx.CheckTransactionOutput()
	})
	nd.Reach("checked")
	nd.Assert(inErr != nil || outErr != nil, "a_transaction_accepted_without_fee_check_cannot_carry_inputs_or_outputs")
}

// ZZ_C01_continues: value-carrying transaction types must go on to the fee and
// signature checks: whenever UpdateProducerTransaction.SpecialContextCheck (a
// registered DPoS 1.0 producer updating url / location, keeping or changing
// the node key, payload correctly signed by the owner) or
// CancelProducerTransaction.SpecialContextCheck accepts, it does not end
// validation.
func ZZ_C01_continues() {
	cfg := &config.Configuration{MinTransactionFee: 100}
	st := &state.State{StateKeyFrame: state.NewStateKeyFrame(), ChainParams: cfg}
	owner := zzKeys[0].pub
	state.ZZNewProducer(st, owner, 5000_00000000, 5000_00000000, 0, state.DPoSV1, 0)
	committee := crstate.ZZNewCommittee(cfg)
	chain := blockchain.ZZNewChain(cfg, st, committee)
	var cerr error
	end := false
	if nd.Bool("cancel") {
		pld := &payload.ProcessProducer{OwnerKey: owner}
		unsigned := new(bytes.Buffer)
		pld.SerializeUnsigned(unsigned, 0)
		pld.Signature = zzSign(0, unsigned.Bytes())
		tx := &CancelProducerTransaction{}
		tx.SetTxType(common2.CancelProducer)
		tx.SetPayload(pld)
		tx.parameters = &TransactionParameters{Transaction: tx, BlockHeight: 100, Config: cfg, BlockChain: chain}
		nd.NoPanic("SpecialContextCheck", func() {
			e, en := tx.SpecialContextCheck()
			if e != nil {
				cerr = e
			}
			end = en
		})
	} else {
		info := &payload.ProducerInfo{OwnerKey: owner, NodePublicKey: owner, NickName: "nickname", Url: "http://elastos.org", Location: nd.U64("location"), NetAddress: "127.0.0.1:20338"}
		if nd.Bool("newNodeKey") {
			info.NodePublicKey = zzKeys[1].pub
		}
		unsigned := new(bytes.Buffer)
		info.SerializeUnsigned(unsigned, 0)
		info.Signature = zzSign(0, unsigned.Bytes())
		tx := &UpdateProducerTransaction{}
		tx.SetTxType(common2.UpdateProducer)
		tx.SetPayload(info)
		tx.parameters = &TransactionParameters{Transaction: tx, BlockHeight: 100, Config: cfg, BlockChain: chain}
		nd.NoPanic("SpecialContextCheck", func() {
			e, en := tx.SpecialContextCheck()
			if e != nil {
				cerr = e
			}
			end = en
		})
	}
	nd.Reach("decided")
	if cerr == nil {
		nd.Reach("accepted")
		nd.Assert(!end, "an_accepted_value_carrying_transaction_goes_on_to_the_fee_and_signature_checks")
	}
}
