//go:build verif

package transaction

import (
	"github.com/elastos/Elastos.ELA/dpos/state"
)

type zzArbiters struct {
	state.Arbitrators
	cross []*state.ArbiterInfo
}

func (a *zzArbiters) GetCrossChainArbiters() []*state.ArbiterInfo { return a.cross }


func zzKeyBytes(i int) []byte {
	b := make([]byte, 33)
	b[0] = 2
	b[32] = byte(i + 1)
	return b
}
