//go:build verif

package transaction

import (
	"github.com/elastos/Elastos.ELA/blockchain"
	"github.com/elastos/Elastos.ELA/common"
	common2 "github.com/elastos/Elastos.ELA/core/types/common"
	"github.com/elastos/Elastos.ELA/core/types/interfaces"
	"github.com/elastos/Elastos.ELA/core/types/outputpayload"
	"github.com/elastos/Elastos.ELA/core/types/payload"
	"github.com/elastos/Elastos.ELA/zzverif/nd"
)

func zzHash(name string) common.Uint256 {
	var h common.Uint256
	copy(h[:], nd.Bytes(name, 32))
	return h
}

// ZZ_C13_withdraw: connecting a block stores the side-chain transaction hashes
// of a withdrawal in the single-use index; disconnecting it must remove
// exactly those again, for every payload version the save side handles, and
// leave unrelated entries alone. Otherwise a rolled-back withdrawal can never
// be included again.
func ZZ_C13_withdraw() {
	ver := nd.U8("payloadVersion")
	nd.Assume(ver <= 2) // versions the transaction checker accepts
	tx, _ := GetTransaction(common2.WithdrawFromSideChain)
	tx.SetTxType(common2.WithdrawFromSideChain)
	tx.SetPayloadVersion(ver)
	n := nd.Choose("hashes", 2) + 1
	var hashes []common.Uint256
	for i := 0; i < n; i++ {
		hashes = append(hashes, zzHash("sideChainTxHash"))
	}
	pl := &payload.WithdrawFromSideChain{}
	var outs []*common2.Output
	if ver == 0 {
		pl.SideChainTransactionHashes = hashes
	} else {
		for _, h := range hashes {
			outs = append(outs, &common2.Output{Type: common2.OTWithdrawFromSideChain,
				Payload: &outputpayload.Withdraw{SideChainTransactionHash: h}})
		}
		outs = append(outs, &common2.Output{Type: common2.OTNone, Payload: &outputpayload.DefaultOutput{}})
	}
	tx.SetPayload(pl)
	tx.SetOutputs(outs)

	db := zzNewDBTx()
	other := zzHash("unrelatedHash")
	hasBucket := nd.Bool("indexBucketExists")
	if hasBucket {
		blockchain.TryCreateBucket(db, common.Tx3IndexBucketName)
		blockchain.DBPutData(db, common.Tx3IndexBucketName, other[:], common.Tx3IndexValue)
		for _, h := range hashes {
			nd.Assume(h != other) // the block is connectable: its hashes are not in the index yet
		}
	}
	save, err := tx.GetSaveProcessor()
	nd.Assert(err == nil && save != nil, "withdraw_has_a_save_processor")
	if save == nil {
		return
	}
	nd.Assert(save(db) == nil, "save_succeeds")
	for i := range hashes {
		nd.Assert(blockchain.DBFetchTx3IndexEntry(db, &hashes[i]), "connect_records_every_side_chain_hash")
	}
	nd.Reach("connected")
	rb, err := tx.GetRollbackProcessor()
	nd.Assert(err == nil && rb != nil, "withdraw_has_a_rollback_processor_for_every_saved_version")
	if rb != nil {
		nd.Assert(rb(db) == nil, "rollback_succeeds")
	}
	for i := range hashes {
		nd.Assert(!blockchain.DBFetchTx3IndexEntry(db, &hashes[i]), "disconnect_removes_every_side_chain_hash")
	}
	if hasBucket {
		nd.Assert(blockchain.DBFetchTx3IndexEntry(db, &other), "disconnect_leaves_unrelated_entries")
	}
	nd.Reach("disconnected")
}

// ZZ_C13_drafts: the proposal / review / tracking transactions store draft,
// opinion and message data keyed by hash on connect and remove exactly those
// keys on disconnect.
func ZZ_C13_drafts() {
	db := zzNewDBTx()
	other := zzHash("unrelatedHash")
	if nd.Bool("bucketExists") {
		blockchain.TryCreateBucket(db, common.ProposalDraftDataBucketName)
		blockchain.DBPutData(db, common.ProposalDraftDataBucketName, other[:], []byte{9})
	}
	var keys []common.Uint256
	var ty common2.TxType
	var pl interface{}
	switch nd.Choose("kind", 3) {
	case 0:
		ty = common2.CRCProposal
		p := &payload.CRCProposal{DraftHash: zzHash("draftHash"), DraftData: nd.Bytes("draft", 2)}
		keys, pl = []common.Uint256{p.DraftHash}, p
	case 1:
		ty = common2.CRCProposalReview
		p := &payload.CRCProposalReview{OpinionHash: zzHash("opinionHash"), OpinionData: nd.Bytes("opinion", 2)}
		keys, pl = []common.Uint256{p.OpinionHash}, p
	case 2:
		ty = common2.CRCProposalTracking
		p := &payload.CRCProposalTracking{SecretaryGeneralOpinionHash: zzHash("sgOpinionHash"), SecretaryGeneralOpinionData: nd.Bytes("sgOpinion", 1),
			MessageHash: zzHash("messageHash"), MessageData: nd.Bytes("message", 1)}
		keys, pl = []common.Uint256{p.SecretaryGeneralOpinionHash, p.MessageHash}, p
	}
	for _, k := range keys {
		nd.Assume(k != other)
	}
	tx, _ := GetTransaction(ty)
	tx.SetTxType(ty)
	tx.SetPayload(pl.(interfaces.Payload))
	save, _ := tx.GetSaveProcessor()
	rb, _ := tx.GetRollbackProcessor()
	nd.Assert(save != nil && rb != nil, "draft_carrying_types_have_both_processors")
	if save == nil || rb == nil {
		return
	}
	nd.Assert(save(db) == nil, "save_succeeds")
	b := db.meta.Bucket(common.ProposalDraftDataBucketName)
	nd.Assert(b != nil, "connect_creates_the_bucket")
	if b == nil {
		return
	}
	for _, k := range keys {
		nd.Assert(b.Get(k[:]) != nil, "connect_stores_the_data")
	}
	nd.Reach("connected")
	nd.Assert(rb(db) == nil, "rollback_succeeds")
	for _, k := range keys {
		nd.Assert(b.Get(k[:]) == nil, "disconnect_removes_the_data")
	}
	nd.Reach("disconnected")
}
