//go:build verif

package transaction

import (
	"github.com/elastos/Elastos.ELA/common"
	"github.com/elastos/Elastos.ELA/common/config"
	common2 "github.com/elastos/Elastos.ELA/core/types/common"
	"github.com/elastos/Elastos.ELA/zzverif/nd"
)

func zzC32hash(name string) common.Uint168 {
	var u common.Uint168
	copy(u[:], nd.Bytes(name, 21))
	return u
}

func zzC32eq(a, b *common.Uint168) bool {
	return *a == *b
}

// ZZ_C32_frozen: accepted <=> no active frozen entry (resolved hash, height >=
// start) equals any referenced or output program hash, at any position.
func ZZ_C32_frozen() {
	ty := []common2.TxType{common2.TransferAsset, common2.Voting, common2.WithdrawFromSideChain, common2.ReturnDepositCoin}[nd.Choose("type", 4)]
	tx, _ := GetTransaction(ty)
	tx.SetTxType(ty)
	nf := nd.Choose("frozen", 3) // 0..2 entries
	var frozen []config.FrozenAddress
	for i := 0; i < nf; i++ {
		f := config.FrozenAddress{Address: "x", DisableStartHeight: nd.U32("start")}
		if nd.Choose("resolved", 2) == 1 {
			hsh := zzC32hash("frozenHash")
			f.ProgramHash = &hsh
		}
		frozen = append(frozen, f)
	}
	m := nd.Choose("refs", 3)  // 0..2
	k := nd.Choose("outs", 3)  // 0..2
	refs := map[*common2.Input]common2.Output{}
	var touched []common.Uint168
	for j := 0; j < m; j++ {
		var o common2.Output
		o.ProgramHash = zzC32hash("refHash")
		inp := &common2.Input{}
		inp.Previous.Index = uint16(j)
		refs[inp] = o
		touched = append(touched, o.ProgramHash)
	}
	var outs []*common2.Output
	for j := 0; j < k; j++ {
		o := &common2.Output{}
		o.ProgramHash = zzC32hash("outHash")
		outs = append(outs, o)
		touched = append(touched, o.ProgramHash)
	}
	tx.SetOutputs(outs)
	h := nd.U32("height")
	accepted := checkFrozenAddresses(tx, refs, h, frozen) == nil
	nd.Reach("decided")
	hit := false
	for i := range frozen {
		if frozen[i].ProgramHash == nil || h < frozen[i].DisableStartHeight {
			continue
		}
		for j := range touched {
			if zzC32eq(frozen[i].ProgramHash, &touched[j]) {
				hit = true
			}
		}
	}
	if hit {
		nd.Reach("frozen_hit")
		nd.Assert(!accepted, "frozen_address_spend_or_receive_rejected")
	} else {
		nd.Assert(accepted, "unrelated_transaction_not_rejected")
	}
}
