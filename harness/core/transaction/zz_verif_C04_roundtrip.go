//go:build verif

package transaction

import (
	"bytes"

	"github.com/elastos/Elastos.ELA/common"
	pg "github.com/elastos/Elastos.ELA/core/contract/program"
	"github.com/elastos/Elastos.ELA/core/types"
	common2 "github.com/elastos/Elastos.ELA/core/types/common"
	"github.com/elastos/Elastos.ELA/core/types/functions"
	"github.com/elastos/Elastos.ELA/core/types/interfaces"
	"github.com/elastos/Elastos.ELA/core/types/outputpayload"
	"github.com/elastos/Elastos.ELA/core/types/payload"
	"github.com/elastos/Elastos.ELA/zzverif/nd"
)

func zzU256(name string) common.Uint256 {
	var h common.Uint256
	copy(h[:], nd.Bytes(name, 32))
	return h
}

// zzC04output: an output with arbitrary scalar fields and one of the output
// payload kinds with arbitrary contents.
func zzC04output(ver common2.TransactionVersion) *common2.Output {
	o := &common2.Output{AssetID: zzU256("assetID"), Value: common.Fixed64(nd.I64("value")), OutputLock: nd.U32("outputLock")}
	copy(o.ProgramHash[:], nd.Bytes("programHash", 21))
	o.Payload = &outputpayload.DefaultOutput{}
	if ver < common2.TxVersion09 {
		return o
	}
	switch nd.Choose("outputKind", 5) {
	case 1:
		o.Type = common2.OTWithdrawFromSideChain
		w := &outputpayload.Withdraw{Version: nd.U8("wVersion"), GenesisBlockAddress: string(nd.Bytes("genesisAddr", 2)),
			SideChainTransactionHash: zzU256("sideHash"), TargetData: nd.Bytes("targetData", 2)}
		o.Payload = w
	case 2:
		o.Type = common2.OTCrossChain
		o.Payload = &outputpayload.CrossChainOutput{Version: nd.U8("cVersion"), TargetAddress: string(nd.Bytes("targetAddr", 2)),
			TargetAmount: common.Fixed64(nd.I64("targetAmount")), TargetData: nd.Bytes("cTargetData", 1)}
	case 3:
		o.Type = common2.OTReturnSideChainDepositCoin
		o.Payload = &outputpayload.ReturnSideChainDeposit{Version: nd.U8("rVersion"), GenesisBlockAddress: string(nd.Bytes("rGenesis", 1)),
			DepositTransactionHash: zzU256("depositHash")}
	case 4:
		o.Type = common2.OTVote
		vo := &outputpayload.VoteOutput{Version: 1}
		vo.Contents = []outputpayload.VoteContent{{VoteType: outputpayload.VoteType(nd.U8("voteType")),
			CandidateVotes: []outputpayload.CandidateVotes{{Candidate: nd.Bytes("candidate", 2), Votes: common.Fixed64(nd.I64("votes"))}}}}
		o.Payload = vo
	}
	return o
}

func zzC04tx() interfaces.Transaction {
	ver := common2.TxVersion09
	if nd.Choose("legacyVersion", 2) == 1 {
		ver = common2.TxVersionDefault
	}
	if nd.Choose("emptyLists", 2) == 1 {
		return CreateTransaction(ver, common2.TransferAsset, 0, &payload.TransferAsset{}, nil, nil, nil, nd.U32("lockTime"), nil)
	}
	// one attribute, one input, two outputs (a plain one and one of the five
	// payload kinds), one program — every field arbitrary
	attrs := []*common2.Attribute{{Usage: common2.Nonce, Data: nd.Bytes("attrData", nd.Choose("attrLen", 3))}}
	ins := []*common2.Input{{Previous: common2.OutPoint{TxID: zzU256("prevTx"), Index: nd.U16("prevIndex")}, Sequence: nd.U32("sequence")}}
	plain := &common2.Output{AssetID: zzU256("assetID0"), Value: common.Fixed64(nd.I64("value0")), OutputLock: nd.U32("outputLock0"), Payload: &outputpayload.DefaultOutput{}}
	copy(plain.ProgramHash[:], nd.Bytes("programHash0", 21))
	outs := []*common2.Output{plain, zzC04output(ver)}
	progs := []*pg.Program{{Code: nd.Bytes("code", nd.Choose("codeLen", 2)+1), Parameter: nd.Bytes("param", 2)}}
	return CreateTransaction(ver, common2.TransferAsset, 0, &payload.TransferAsset{}, attrs, ins, outs, nd.U32("lockTime"), progs)
}

func zzBytesSame(a, b []byte) bool { return bytes.Equal(a, b) }

func zzC04sameOutput(a, b *common2.Output, ver common2.TransactionVersion) bool {
	if a.AssetID != b.AssetID || a.Value != b.Value || a.OutputLock != b.OutputLock || a.ProgramHash != b.ProgramHash {
		return false
	}
	if ver < common2.TxVersion09 {
		return true
	}
	if a.Type != b.Type {
		return false
	}
	// output payloads are compared through their own encoding: equal payloads
	// of one type have equal encodings and decode deterministically
	ba, bb := new(bytes.Buffer), new(bytes.Buffer)
	a.Payload.Serialize(ba)
	b.Payload.Serialize(bb)
	return zzBytesSame(ba.Bytes(), bb.Bytes())
}

// ZZ_C04_tx: encode -> decode of a transfer transaction (both wire versions)
// with arbitrary attributes, inputs, outputs (five output payload kinds) and
// programs yields a transaction with the same fields and the same hash, and
// re-encoding the decoded value gives the same bytes.
func ZZ_C04_tx() {
	tx := zzC04tx()
	buf := new(bytes.Buffer)
	nd.Assert(tx.Serialize(buf) == nil, "serialize_succeeds")
	wire := append([]byte{}, buf.Bytes()...)
	r := bytes.NewReader(wire)
	got, err := GetTransactionByBytes(r)
	nd.Assert(err == nil, "type_is_recognised")
	if err != nil {
		return
	}
	err = got.Deserialize(r)
	nd.Assert(err == nil, "own_encoding_decodes")
	if err != nil {
		return
	}
	nd.Reach("decoded")
	nd.Assert(r.Len() == 0, "decoding_consumes_exactly_the_encoding")
	nd.Assert(got.Version() == tx.Version() && got.TxType() == tx.TxType() && got.PayloadVersion() == tx.PayloadVersion() && got.LockTime() == tx.LockTime(), "scalar_fields_round_trip")
	nd.Assert(len(got.Attributes()) == len(tx.Attributes()) && len(got.Inputs()) == len(tx.Inputs()) &&
		len(got.Outputs()) == len(tx.Outputs()) && len(got.Programs()) == len(tx.Programs()), "element_counts_round_trip")
	if len(got.Attributes()) == len(tx.Attributes()) {
		for i, a := range tx.Attributes() {
			nd.Assert(got.Attributes()[i].Usage == a.Usage && zzBytesSame(got.Attributes()[i].Data, a.Data), "attributes_round_trip")
		}
	}
	if len(got.Inputs()) == len(tx.Inputs()) {
		for i, in := range tx.Inputs() {
			nd.Assert(*got.Inputs()[i] == *in, "inputs_round_trip")
		}
	}
	if len(got.Outputs()) == len(tx.Outputs()) {
		for i, o := range tx.Outputs() {
			nd.Assert(zzC04sameOutput(got.Outputs()[i], o, tx.Version()), "outputs_round_trip")
		}
	}
	if len(got.Programs()) == len(tx.Programs()) {
		for i, p := range tx.Programs() {
			nd.Assert(zzBytesSame(got.Programs()[i].Code, p.Code) && zzBytesSame(got.Programs()[i].Parameter, p.Parameter), "programs_round_trip")
		}
	}
	nd.Assert(got.Hash() == tx.Hash(), "hash_round_trips")
	again := new(bytes.Buffer)
	got.Serialize(again)
	nd.Assert(zzBytesSame(again.Bytes(), wire), "re_encoding_the_decoded_value_gives_the_same_bytes")
}

// ZZ_C04_identity: the transaction id ignores the signature programs and
// nothing else: two transactions that differ only in their programs have the
// same unsigned serialization (hence the same hash); changing the lock time,
// an output value or an input index changes it.
func ZZ_C04_identity() {
	tx := zzC04tx()
	unsigned := new(bytes.Buffer)
	tx.SerializeUnsigned(unsigned)
	before := append([]byte{}, unsigned.Bytes()...)
	h := tx.Hash()
	var progs []*pg.Program
	for i, zzn := 0, nd.Choose("otherPrograms", 2); i < zzn; i++ {
		progs = append(progs, &pg.Program{Code: nd.Bytes("otherCode", 2), Parameter: nd.Bytes("otherParam", 2)})
	}
	other := CreateTransaction(tx.Version(), tx.TxType(), tx.PayloadVersion(), tx.Payload(), tx.Attributes(), tx.Inputs(), tx.Outputs(), tx.LockTime(), progs)
	u2 := new(bytes.Buffer)
	other.SerializeUnsigned(u2)
	nd.Reach("built")
	nd.Assert(zzBytesSame(u2.Bytes(), before), "unsigned_serialization_ignores_programs")
	nd.Assert(other.Hash() == h, "hash_ignores_programs")
	// and it covers the rest
	lt := nd.U32("newLockTime")
	nd.Assume(lt != tx.LockTime())
	changed := CreateTransaction(tx.Version(), tx.TxType(), tx.PayloadVersion(), tx.Payload(), tx.Attributes(), tx.Inputs(), tx.Outputs(), lt, tx.Programs())
	u3 := new(bytes.Buffer)
	changed.SerializeUnsigned(u3)
	nd.Assert(!zzBytesSame(u3.Bytes(), before), "unsigned_serialization_covers_the_lock_time")
	if len(tx.Outputs()) > 0 {
		v := common.Fixed64(nd.I64("newValue"))
		o0 := *tx.Outputs()[0]
		nd.Assume(v != o0.Value)
		o0.Value = v
		outs := append([]*common2.Output{&o0}, tx.Outputs()[1:]...)
		ch2 := CreateTransaction(tx.Version(), tx.TxType(), tx.PayloadVersion(), tx.Payload(), tx.Attributes(), tx.Inputs(), outs, tx.LockTime(), tx.Programs())
		u4 := new(bytes.Buffer)
		ch2.SerializeUnsigned(u4)
		nd.Assert(!zzBytesSame(u4.Bytes(), before), "unsigned_serialization_covers_output_values")
	}
}

// ZZ_C04_block: a block (arbitrary header fields, a confirm with arbitrary
// proposal and one vote, one or two of the transactions above) encodes and
// decodes to the same header, the same transaction ids in the same order and
// the same confirm, and re-encodes to the same bytes.
func ZZ_C04_block() {
	functions.GetTransactionByBytes = GetTransactionByBytes
	b := &types.Block{}
	b.Header = common2.Header{Version: nd.U32("version"), Previous: zzU256("previous"), MerkleRoot: zzU256("merkleRoot"),
		Timestamp: nd.U32("timestamp"), Bits: nd.U32("bits"), Nonce: nd.U32("nonce"), Height: nd.U32("height")}
	b.Header.AuxPow.ParBlockHeader.Nonce = nd.U32("parentNonce")
	b.Transactions = append(b.Transactions, zzC04tx())
	if nd.Choose("secondTx", 2) == 1 {
		b.Transactions = append(b.Transactions, CreateTransaction(common2.TxVersion09, common2.TransferAsset, 0, &payload.TransferAsset{}, nil, nil, nil, nd.U32("lockTime2"), nil))
	}
	d := &types.DposBlock{Block: b, HaveConfirm: nd.Bool("haveConfirm")}
	if d.HaveConfirm {
		c := &payload.Confirm{}
		c.Proposal = payload.DPOSProposal{Sponsor: nd.Bytes("sponsor", 2), BlockHash: zzU256("blockHash"), ViewOffset: nd.U32("viewOffset"), Sign: nd.Bytes("sign", 2)}
		c.Votes = []payload.DPOSProposalVote{{ProposalHash: zzU256("proposalHash"), Signer: nd.Bytes("signer", 2), Accept: nd.Bool("accept"), Sign: nd.Bytes("voteSign", 1)}}
		d.Confirm = c
	}
	buf := new(bytes.Buffer)
	nd.Assert(d.Serialize(buf) == nil, "serialize_succeeds")
	wire := append([]byte{}, buf.Bytes()...)
	got := &types.DposBlock{}
	r := bytes.NewReader(wire)
	err := got.Deserialize(r)
	nd.Assert(err == nil, "own_encoding_decodes")
	if err != nil {
		return
	}
	nd.Reach("decoded")
	nd.Assert(r.Len() == 0, "decoding_consumes_exactly_the_encoding")
	h1, h2 := b.Header, got.Block.Header
	nd.Assert(h1.Version == h2.Version && h1.Previous == h2.Previous && h1.MerkleRoot == h2.MerkleRoot && h1.Timestamp == h2.Timestamp &&
		h1.Bits == h2.Bits && h1.Nonce == h2.Nonce && h1.Height == h2.Height && h1.AuxPow.ParBlockHeader.Nonce == h2.AuxPow.ParBlockHeader.Nonce, "header_fields_round_trip")
	nd.Assert(got.Block.Hash() == b.Hash(), "block_hash_round_trips")
	nd.Assert(len(got.Block.Transactions) == len(b.Transactions), "transaction_count_round_trips")
	if len(got.Block.Transactions) == len(b.Transactions) {
		for i := range b.Transactions {
			nd.Assert(got.Block.Transactions[i].Hash() == b.Transactions[i].Hash(), "transaction_ids_round_trip_in_order")
		}
	}
	nd.Assert(got.HaveConfirm == d.HaveConfirm, "confirm_flag_round_trips")
	if d.HaveConfirm && got.HaveConfirm && got.Confirm != nil {
		c1, c2 := d.Confirm, got.Confirm
		nd.Assert(zzBytesSame(c1.Proposal.Sponsor, c2.Proposal.Sponsor) && c1.Proposal.BlockHash == c2.Proposal.BlockHash &&
			c1.Proposal.ViewOffset == c2.Proposal.ViewOffset && zzBytesSame(c1.Proposal.Sign, c2.Proposal.Sign), "proposal_round_trips")
		nd.Assert(len(c2.Votes) == 1, "vote_count_round_trips")
		if len(c2.Votes) == 1 {
			v1, v2 := c1.Votes[0], c2.Votes[0]
			nd.Assert(v1.ProposalHash == v2.ProposalHash && zzBytesSame(v1.Signer, v2.Signer) && v1.Accept == v2.Accept && zzBytesSame(v1.Sign, v2.Sign), "vote_round_trips")
		}
	}
	again := new(bytes.Buffer)
	got.Serialize(again)
	nd.Assert(zzBytesSame(again.Bytes(), wire), "re_encoding_the_decoded_block_gives_the_same_bytes")
}
