//go:build verif

package transaction

import (
	"github.com/elastos/Elastos.ELA/blockchain"
	pg "github.com/elastos/Elastos.ELA/core/contract/program"
	common2 "github.com/elastos/Elastos.ELA/core/types/common"
	"github.com/elastos/Elastos.ELA/core/types/payload"
	"github.com/elastos/Elastos.ELA/dpos/state"
	"github.com/elastos/Elastos.ELA/zzverif/nd"
)

// ZZ_C03_schnorrwithdraw: the Schnorr (payload version 2) withdrawal check
// never panics, whatever the signer index list (1..3 arbitrary bytes, so
// duplicates and indexes beyond the arbiter list are included), for 0..3
// current cross-chain arbiters, with and without signer-index validation
// (before / from the restriction height). Curve arithmetic is stubbed: the
// subject is the indexing in front of it.
func ZZ_C03_schnorrwithdraw() {
	nd.Stub("crypto.Unmarshal")
	nd.Stub("crypto.Marshal")
	nd.Stub("crypto.DecodePoint")
	nd.Stub("core/contract.CreateSchnorrRedeemScript")
	nd.Stub("(crypto/elliptic.Curve).Add")
	arb := &zzArbiters{}
	for i, zzn := 0, nd.Choose("arbiters", 4); i < zzn; i++ {
		arb.cross = append(arb.cross, &state.ArbiterInfo{NodePublicKey: zzKeyBytes(i), IsNormal: true})
	}
	old := blockchain.DefaultLedger
	blockchain.DefaultLedger = &blockchain.Ledger{Arbitrators: arb}
	defer func() { blockchain.DefaultLedger = old }()
	pld := &payload.WithdrawFromSideChain{Signers: nd.Bytes("signers", nd.Choose("signerCount", 3)+1)}
	tx, _ := GetTransaction(common2.WithdrawFromSideChain)
	tx.SetPayloadVersion(payload.WithdrawFromSideChainVersionV2)
	tx.SetPayload(pld)
	tx.SetPrograms([]*pg.Program{{Code: append([]byte{0x51, 33}, zzKeyBytes(9)...), Parameter: make([]byte, 64)}})
	validate := nd.Bool("fromRestrictionHeight")
	nd.Reach("built")
	nd.NoPanic("checkSchnorrWithdrawFromSidechain", func() { checkSchnorrWithdrawFromSidechain(tx, pld, validate) })
}

