//go:build verif

package contract

import (
	"github.com/elastos/Elastos.ELA/zzverif/nd"
)

// ZZ_C03_classify: the program-code classifiers return a verdict for every
// byte string (length 0..lenMax, all byte values) without panicking.
func ZZ_C03_classify() {
	lenMax := 80
	if nd.Tier() > 0 {
		lenMax = 120
	}
	n := nd.Choose("len", lenMax+1)
	code := nd.Bytes("code", n)
	nd.NoPanic("IsStandard", func() { IsStandard(code) })
	nd.NoPanic("IsSchnorr", func() { IsSchnorr(code) })
	nd.NoPanic("IsMultiSig", func() { IsMultiSig(code) })
	nd.NoPanic("GetCodeType", func() { GetCodeType(code) })
	nd.Reach("classified")
}
