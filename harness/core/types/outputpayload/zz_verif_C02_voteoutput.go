//go:build verif

package outputpayload

import (
	"bytes"

	"github.com/elastos/Elastos.ELA/zzverif/nd"
)

// ZZ_C02_voteoutput: outputpayload.VoteOutput (payload of vote outputs, decoded
// for every transaction output of type OTVote) on 14 symbolic bytes with a
// one-byte announced candidate count: every decoded candidate entry consumes at
// least one input byte (its var-bytes length), so no more entries than input
// bytes may be produced, and nothing sized by the input may exceed the cap.
func ZZ_C02_voteoutput() {
	data := nd.Bytes("input", 14)
	// layout: version, contentsCount (1), voteType, candidatesCount (<= 32), entries...
	nd.Assume(data[1] == 1 && data[3] <= 32)
	for i := 4; i < 14; i++ {
		nd.Assume(data[i] <= 1) // candidate byte strings of length 0..1
	}
	r := bytes.NewReader(data)
	nd.AllocLimit(8 << 20)
	var o VoteOutput
	nd.NoPanic("VoteOutput.Deserialize", func() { o.Deserialize(r) })
	nd.Reach("returned")
	n := 0
	for _, c := range o.Contents {
		n += len(c.CandidateVotes)
	}
	nd.Assert(n <= 10, "decoded_candidates_fit_input")
}
