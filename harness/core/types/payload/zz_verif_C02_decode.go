//go:build verif

package payload

import (
	"bytes"

	"github.com/elastos/Elastos.ELA/zzverif/nd"
)

// zzC02Limit: no single allocation whose size is taken from the input may
// exceed the 8 MiB per-message cap (pact.MaxBlockContextSize) — the inputs
// here are at most 96 bytes long.
const zzC02Limit = 8 << 20

// ZZ_C02_confirm: payload.Confirm (travels with every DPoS block).
// Bound: 96 input bytes; sponsor / signature var-bytes length fields <= 1.
func ZZ_C02_confirm() {
	data := nd.Bytes("input", 96)
	nd.Assume(data[0] <= 1 && data[37] <= 1 && data[38] <= 1)
	r := bytes.NewReader(data)
	nd.AllocLimit(zzC02Limit)
	var c Confirm
	nd.NoPanic("Confirm.Deserialize", func() { c.Deserialize(r) })
	nd.Reach("returned")
}

// ZZ_C02_inactive: payload.InactiveArbitrators.
func ZZ_C02_inactive() {
	// Bound: 15 input bytes; empty sponsor (fixes the layout: 4 bytes of
	// height, then the count field and up to 9 bytes of count + keys).
	data := nd.Bytes("input", 15)
	nd.Assume(data[0] == 0)
	r := bytes.NewReader(data)
	nd.AllocLimit(zzC02Limit)
	var p InactiveArbitrators
	nd.NoPanic("InactiveArbitrators.Deserialize", func() { p.Deserialize(r, InactiveArbitratorsVersion) })
	nd.Reach("returned")
}

// ZZ_C02_votes: payload.VotesContent (inside a Voting transaction payload).
func ZZ_C02_votes() {
	// Bound: 28 input bytes, announced candidate count <= 32 (one-byte varuint);
	// every decoded entry consumes at least 13 input bytes (1 length byte, 8 bytes
	// of votes, 4 bytes of lock time), so at most 2 entries fit.
	data := nd.Bytes("input", 28)
	nd.Assume(data[1] <= 32 && data[2] <= 1 && data[15] <= 1 && data[16] <= 1)
	r := bytes.NewReader(data)
	nd.AllocLimit(zzC02Limit)
	var p VotesContent
	nd.NoPanic("VotesContent.Deserialize", func() { p.Deserialize(r, 0) })
	nd.Reach("returned")
	nd.Assert(len(p.VotesInfo)*13 <= 26, "decoded_entries_fit_input")
}
