//go:build verif

package crypto

import (
	"bytes"
	mrand "math/rand"

	"github.com/elastos/Elastos.ELA/zzverif/nd"
)

// ZZ_C38_nonce: the random bytes mixed into a Schnorr signing nonce come from
// the operating system's generator only. Under the engine the bytes returned
// by randomBytes must not depend on a math/rand draw or on the clock. Native
// demonstration of a dependence: seeding the process-global math/rand source
// with the same value twice yields the same "random" bytes.
func ZZ_C38_nonce() {
	n := nd.Choose("len", 2)*16 + 16
	if !nd.Symbolic() {
		mrand.Seed(12345)
		a := randomBytes(n)
		mrand.Seed(12345)
		b := randomBytes(n)
		nd.Assert(!bytes.Equal(a, b), "nonce_randomness_comes_from_the_secure_source_only")
		return
	}
	b := randomBytes(n)
	nd.Reach("drawn")
	nd.Assert(nd.FromSecureSourceOnly(b), "nonce_randomness_comes_from_the_secure_source_only")
}

// ZZ_C38_keypair: the private key of a freshly generated key pair is a
// function of bytes from the operating system's generator only (the reader
// handed to ecdsa.GenerateKey is followed).
func ZZ_C38_keypair() {
	if !nd.Symbolic() {
		return // natively there is nothing to re-seed: crypto/rand is the OS generator
	}
	priv, _, err := GenerateKeyPair()
	nd.Assert(err == nil, "key_pair_is_generated")
	nd.Reach("generated")
	nd.Assert(nd.FromSecureSourceOnly(priv), "private_key_comes_from_the_secure_source_only")
}

// ZZ_C38_nonce_fresh: every signing nonce draws its own output of the
// operating system's generator: over 6 consecutive draws of 32 bytes (more
// than any buffer of 128 bytes holds) no draw depends on an insecure source
// and no two draws are the same bytes on every run (a replayed buffer is not
// output of the generator).
func ZZ_C38_nonce_fresh() {
	var draws [][]byte
	for i := 0; i < 6; i++ {
		draws = append(draws, randomBytes(32))
	}
	nd.Reach("drawn")
	for i := range draws {
		nd.Assert(nd.FromSecureSourceOnly(draws[i]), "nonce_randomness_comes_from_the_secure_source_only")
		for j := 0; j < i; j++ {
			nd.Assert(nd.CanDiffer(draws[i], draws[j]), "each_nonce_draws_fresh_output_of_the_secure_source")
		}
	}
}
