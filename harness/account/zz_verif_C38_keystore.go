//go:build verif

package account

import (
	"bytes"
	crand "crypto/rand"
	"errors"
	"math/rand"
	"os"
	"path/filepath"
	"time"

	"github.com/elastos/Elastos.ELA/zzverif/nd"
)

// ZZ_C38_keystore: a newly created keystore's master key and IV come from the
// operating system's generator only. Under the engine (file store stubbed)
// neither may depend on a math/rand draw, a seeded generator or the clock.
// Native demonstration of a dependence: the master key and IV are reproduced
// by a math/rand generator seeded with a nanosecond timestamp from the few
// milliseconds in which NewClient ran.
func ZZ_C38_keystore() {
	if !nd.Symbolic() {
		dir, _ := os.MkdirTemp("", "zzverif-ks-")
		defer os.RemoveAll(dir)
		t0 := time.Now().UnixNano()
		c := NewClient(filepath.Join(dir, "keystore.dat"), []byte("pw"), true)
		t1 := time.Now().UnixNano()
		if c == nil {
			return
		}
		step := int64(1)
		if t1-t0 > 3_000_000 {
			t1 = t0 + 3_000_000 // the seed is taken in the first microseconds of the call
		}
		for s := t0; s <= t1; s += step {
			r := rand.New(rand.NewSource(s))
			iv := make([]byte, 16)
			for i := range iv {
				iv[i] = byte(r.Intn(256))
			}
			if !bytes.Equal(iv, c.iv) {
				continue
			}
			mk := make([]byte, 32)
			for i := range mk {
				mk[i] = byte(r.Intn(256))
			}
			if bytes.Equal(mk, c.masterKey) {
				nd.Assert(false, "master_key_comes_from_the_secure_source_only")
				nd.Assert(false, "iv_comes_from_the_secure_source_only")
				return
			}
		}
		return
	}
	nd.Stub("(*account.FileStore).BuildDatabase")
	nd.Stub("(*account.FileStore).SaveStoredData")
	nd.Stub("crypto.AesEncrypt")
	c := NewClient("keystore.dat", []byte("pw"), true)
	nd.Assert(c != nil, "keystore_is_created")
	if c == nil {
		return
	}
	nd.Reach("created")
	nd.Assert(nd.FromSecureSourceOnly(c.masterKey), "master_key_comes_from_the_secure_source_only")
	nd.Assert(nd.FromSecureSourceOnly(c.iv), "iv_comes_from_the_secure_source_only")
}

type zzFailReader struct{}

func (zzFailReader) Read(b []byte) (int, error) {
	return 0, errors.New("operating system random source unavailable")
}

// ZZ_C38_keystore_osfail: the same when the operating system's generator
// cannot be read (crypto/rand.Reader replaced by a reader that always fails):
// either no keystore is created, or its master key and IV still do not depend
// on an insecure source. Native demonstration of a dependence: seeding the
// process-global math/rand source with the same value before two creations
// yields the same master key and IV.
func ZZ_C38_keystore_osfail() {
	old := crand.Reader
	crand.Reader = zzFailReader{}
	defer func() { crand.Reader = old }()
	if !nd.Symbolic() {
		mk := func() *Client {
			dir, _ := os.MkdirTemp("", "zzverif-ks-")
			defer os.RemoveAll(dir)
			rand.Seed(777)
			return NewClient(filepath.Join(dir, "keystore.dat"), []byte("pw"), true)
		}
		a, b := mk(), mk()
		if a == nil || b == nil {
			return
		}
		nd.Assert(!bytes.Equal(a.masterKey, b.masterKey), "master_key_comes_from_the_secure_source_only")
		nd.Assert(!bytes.Equal(a.iv, b.iv), "iv_comes_from_the_secure_source_only")
		return
	}
	nd.Stub("(*account.FileStore).BuildDatabase")
	nd.Stub("(*account.FileStore).SaveStoredData")
	nd.Stub("crypto.AesEncrypt")
	c := NewClient("keystore.dat", []byte("pw"), true)
	nd.Reach("decided")
	if c == nil {
		return
	}
	nd.Assert(nd.FromSecureSourceOnly(c.masterKey), "master_key_comes_from_the_secure_source_only")
	nd.Assert(nd.FromSecureSourceOnly(c.iv), "iv_comes_from_the_secure_source_only")
}
