//go:build verif

// Package nd is the harness API of the symgo engine. Under the engine every
// function here is intercepted (the bodies are never executed symbolically).
// Natively the same functions read a replay vector (JSON, env SYMGO_REPLAY),
// so the very same harness function is the replay test for a solver model.
package nd

import (
	"encoding/hex"
	"encoding/json"
	"fmt"
	"math"
	"math/big"
	"math/rand"
	"os"
	"runtime"
	"strings"
)

type draw struct {
	Name string `json:"name"`
	Kind string `json:"kind"`
	W    int    `json:"w"`
	N    int    `json:"n"`
	Val  string `json:"val"`
}

type Vector struct {
	Property string `json:"property"`
	Harness  string `json:"harness"`
	Package  string `json:"package"`
	ID       string `json:"id"`
	Site     string `json:"site"`
	Msg      string `json:"msg"`
	Tier     int    `json:"tier"`
	Draws    []draw `json:"draws"`
}

var (
	vec       *Vector
	pos       int
	failures  []string
	allocLim  int64 = -1
	allocBase uint64
	diverged  string
)

type assumeFailed struct{}
type replayDiverged struct{ msg string }

func next(kind, name string) draw {
	if vec == nil {
		panic("nd: no replay vector loaded (native use requires nd.Load)")
	}
	if pos >= len(vec.Draws) {
		// unconstrained beyond the model: default zero
		return draw{Name: name, Kind: kind, Val: "0"}
	}
	d := vec.Draws[pos]
	pos++
	if d.Kind != kind || d.Name != name {
		diverged = fmt.Sprintf("draw %d: vector has %s/%s, harness asks %s/%s", pos-1, d.Kind, d.Name, kind, name)
		panic(replayDiverged{diverged})
	}
	return d
}

func num(d draw) uint64 {
	v, ok := new(big.Int).SetString(d.Val, 10)
	if !ok {
		return 0
	}
	return v.Uint64()
}

func U8(name string) uint8   { return uint8(num(next("u8", name))) }
func U16(name string) uint16 { return uint16(num(next("u16", name))) }
func U32(name string) uint32 { return uint32(num(next("u32", name))) }
func U64(name string) uint64 { return num(next("u64", name)) }
func I64(name string) int64  { return int64(num(next("i64", name))) }
func I32(name string) int32  { return int32(num(next("i32", name))) }
func Int(name string) int    { return int(num(next("int", name))) }
func Bool(name string) bool  { return num(next("bool", name)) != 0 }
func F64(name string) float64 {
	return math.Float64frombits(num(next("f64", name)))
}

func Bytes(name string, n int) []byte {
	d := next("bytes", name)
	b, _ := hex.DecodeString(d.Val)
	out := make([]byte, n)
	copy(out, b)
	return out
}

func Choose(name string, k int) int {
	d := next("choose", name)
	v := int(num(d))
	if v >= k {
		v = k - 1
	}
	return v
}

func Assume(c bool) {
	if !c {
		panic(assumeFailed{})
	}
}

func Assert(c bool, id string) {
	if !c {
		failures = append(failures, "assert:"+id)
	}
}

func Reach(id string) {}

// NoPanic runs f; a panic inside f is a property violation.
func NoPanic(id string, f func()) {
	defer func() {
		if r := recover(); r != nil {
			switch r.(type) {
			case assumeFailed, replayDiverged:
				panic(r)
			}
			failures = append(failures, fmt.Sprintf("panic:%s (%v)", id, r))
		}
	}()
	f()
}

// Panics reports whether f panics.
func Panics(f func()) (p bool) {
	defer func() {
		if r := recover(); r != nil {
			switch r.(type) {
			case assumeFailed, replayDiverged:
				panic(r)
			}
			p = true
		}
	}()
	f()
	return false
}

// AllocLimit arms the allocation oracle: from here on, no single allocation
// sized by input may exceed n bytes. Natively: total bytes allocated until the
// end of the harness are compared with n.
func AllocLimit(n int) {
	var ms runtime.MemStats
	runtime.ReadMemStats(&ms)
	allocBase = ms.TotalAlloc
	allocLim = int64(n)
}

// Prefer is a soft constraint used only when the solver picks the model of a
// counterexample (to make native replay likely to follow the same path).
func Prefer(c bool)   {}
func MaxLen(n int)    {}
func Unwind(n int)    {}
func MapOrderNondet() {}

// RandInts pre-allocates the next k values of the process-global math/rand
// source. Under the engine they are symbolic (distinct, non-negative). Natively
// the global source is seeded with the first seed whose first k Int() values
// are in the same relative order as the model's values: order is all that a
// priority-ordered structure (treap) can observe.
func RandInts(k int) {
	d := next("randints", "randints")
	var want []uint64
	for _, p := range strings.Split(d.Val, ",") {
		v, ok := new(big.Int).SetString(strings.TrimSpace(p), 10)
		if !ok {
			v = new(big.Int)
		}
		want = append(want, v.Uint64())
	}
	for len(want) < k {
		want = append(want, 0)
	}
	want = want[:k]
	rank := func(xs []uint64) []int {
		r := make([]int, len(xs))
		for i := range xs {
			for j := range xs {
				if xs[j] < xs[i] {
					r[i]++
				}
			}
		}
		return r
	}
	wr := rank(want)
	for seed := int64(1); seed < 5_000_000; seed++ {
		src := rand.New(rand.NewSource(seed))
		got := make([]uint64, k)
		for i := range got {
			got[i] = uint64(src.Int())
		}
		gr := rank(got)
		same := true
		for i := range gr {
			if gr[i] != wr[i] {
				same = false
				break
			}
		}
		if same {
			rand.Seed(seed)
			return
		}
	}
	diverged = "RandInts: no seed reproduces the priority order"
	panic(replayDiverged{diverged})
}

// FromSecureSourceOnly: under the engine, false iff the bytes depend on a value
// drawn from math/rand (global or seeded) or from the clock. Natively the
// question cannot be answered from the values: harnesses demonstrate a
// dependence natively by re-seeding the insecure source and observing the
// same "secret" again.
func FromSecureSourceOnly(b []byte) bool { return true }

// CanDiffer: under the engine, true iff some values of the random sources make
// the two byte strings differ (false = they are the same bytes on every run,
// e.g. a replayed buffer). Natively: the two values differ.
func CanDiffer(a, b []byte) bool {
	if len(a) != len(b) {
		return true
	}
	for i := range a {
		if a[i] != b[i] {
			return true
		}
	}
	return false
}

// Stub: under the engine, calls of the named function return zero values.
func Stub(name string) {}

// Sig: "the holder of the key whose compressed encoding is pubkey signs data".
// Under the engine the result is 64 fresh bytes registered as that signature
// (perfect-cryptography model); natively sign() computes the real signature.
// schnorr selects the Schnorr scheme (data is then the 32-byte message).
func Sig(name string, pubkey, data []byte, sign func() []byte, schnorr bool) []byte {
	next("sig", name)
	return sign()
}

// AbstractArith asks the engine to try an abstraction of multiplications and
// divisions (uninterpreted functions) before the exact bit-vector query.
func AbstractArith() {}
func Note(s string)  {}
func Symbolic() bool { return false }
func Tier() int {
	if vec != nil {
		return vec.Tier
	}
	return 0
}

// ---- native replay driver ----

func Load(path string) error {
	b, err := os.ReadFile(path)
	if err != nil {
		return err
	}
	v := &Vector{}
	if err := json.Unmarshal(b, v); err != nil {
		return err
	}
	vec = v
	pos = 0
	failures = nil
	allocLim = -1
	return nil
}

// Run executes harness f against the loaded vector and reports the outcome:
// "reproduced: <what>", "not-reproduced", "assumption-violated", "diverged: ...".
func Run(f func()) (outcome string) {
	defer func() {
		if r := recover(); r != nil {
			// the engine's path ends at the first failed assertion; whatever
			// the native run meets after one (an assumption over draws the
			// model does not contain, a divergence) does not undo it
			if len(failures) > 0 {
				switch r.(type) {
				case assumeFailed, replayDiverged:
					outcome = "reproduced: " + failures[0]
					for _, f := range failures[1:] {
						outcome += " ;; " + f
					}
					return
				}
			}
			switch x := r.(type) {
			case assumeFailed:
				outcome = "assumption-violated"
			case replayDiverged:
				outcome = "diverged: " + x.msg
			default:
				outcome = fmt.Sprintf("reproduced: panic:uncaught (%v)", r)
			}
		}
	}()
	f()
	if allocLim >= 0 {
		var ms runtime.MemStats
		runtime.ReadMemStats(&ms)
		if int64(ms.TotalAlloc-allocBase) > allocLim {
			failures = append(failures, fmt.Sprintf("alloc (%d bytes allocated, limit %d)", ms.TotalAlloc-allocBase, allocLim))
		}
	}
	if len(failures) > 0 {
		out := "reproduced: " + failures[0]
		for _, f := range failures[1:] {
			out += " ;; " + f
		}
		return out
	}
	return "not-reproduced"
}

// StubReturn: under the engine, calls of the named function return first as
// their first result and zero values for the others (natively a no-op: the
// real function runs).
func StubReturn(name string, first []byte) {}

// KeyPair declares, for the engine's perfect-cryptography model, that the
// private scalar priv belongs to the compressed public key pub: crypto.Sign
// with priv then issues signatures of that key (natively a no-op: the real
// crypto.Sign signs).
func KeyPair(priv, pub []byte) {}
