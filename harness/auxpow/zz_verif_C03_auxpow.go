//go:build verif

package auxpow

import (
	"github.com/elastos/Elastos.ELA/common"
	"github.com/elastos/Elastos.ELA/zzverif/nd"
)

// ZZ_C03_auxpow: AuxPow.Check on a decoded merged-mining proof never panics.
// The proof is built so that every early "return false" can be passed: the
// parent coinbase lies under the parent merkle root, and its script carries
// the marker, the aux root and 0..10 arbitrary bytes after it (size, nonce,
// possibly truncated). Symbolic: size, nonce, low bit of the aux index, 4 extra script
// bytes; enumerated: aux branch length (0,1,2,30..33,40), number of parent
// coinbase inputs (0 or 1), whether the script is present at all.
func ZZ_C03_auxpow() {
	L := []int{0, 1, 2, 30, 31, 32, 33, 40}[nd.Choose("aux_branch_len", 8)]
	nIn := nd.Choose("parent_coinbase_inputs", 2)
	withScript := nd.Choose("script_present", 2)
	idx := nd.Choose("aux_index", 2)
	var blockHash common.Uint256
	blockHash[0] = 0x42

	ap := &AuxPow{AuxMerkleBranch: make([]common.Uint256, L), AuxMerkleIndex: idx}
	rev, _ := common.Uint256FromBytes(common.BytesReverse(blockHash.Bytes()))
	root := GetMerkleRoot(*rev, ap.AuxMerkleBranch, idx)
	var script []byte
	if withScript == 1 {
		script = append(script, pchMergedMiningHeader...)
		script = append(script, common.BytesReverse(root.Bytes())...)
		// 0..10 arbitrary bytes after the root: size (4) and nonce (4) may be cut short
		script = append(script, nd.Bytes("after_root", nd.Choose("bytes_after_root", 11))...)
	} else {
		script = nd.Bytes("short_script", 3)
	}
	// a decoded script has no spare capacity (ReadVarBytes allocates exactly)
	exact := make([]byte, len(script))
	copy(exact, script)
	script = exact
	ap.ParCoinbaseTx.Version = 1
	if nIn == 1 {
		ap.ParCoinbaseTx.TxIn = []*BtcTxIn{{SignatureScript: script}}
	}
	ap.ParBlockHeader.MerkleRoot = ap.ParCoinbaseTx.Hash()
	nd.NoPanic("AuxPow.Check", func() { ap.Check(&blockHash, AuxPowChainID) })
	nd.Reach("returned")
}

// ZZ_C03_auxindex: the slot derivation itself, for every branch length its
// only caller (AuxPow.Check, which rejects 32 and more levels - see
// ZZ_C03_auxpow for lengths 32, 33, 40) can pass, every nonce and chain id:
// no panic, and the slot lies inside the tree.
func ZZ_C03_auxindex() {
	h := nd.Choose("aux_branch_len", 32)
	nonce := nd.U32("nonce")
	chain := int(nd.U32("chain_id"))
	var idx int
	nd.NoPanic("GetExpectedIndex", func() { idx = GetExpectedIndex(nonce, chain, h) })
	nd.Reach("returned")
	if h < 32 {
		nd.Assert(idx >= 0 && idx < 1<<uint(h), "slot_inside_tree")
	}
}
