//go:build verif

package auxpow

import (
	"bytes"
	"encoding/binary"

	"github.com/elastos/Elastos.ELA/common"
	"github.com/elastos/Elastos.ELA/zzverif/nd"
)

// zzC10proof builds a merged-mining proof for blockHash the way a miner does:
// aux branch of L arbitrary (concrete) siblings at the slot derived from the
// nonce and chain id, root committed in the parent coinbase script after the
// marker, followed by tree size and nonce; the parent coinbase under the
// parent header's merkle root through a branch of P siblings.
func zzC10proof(blockHash common.Uint256, L, P int, nonce uint32, chainID int, slotXor int) *AuxPow {
	return zzC10proofAt(blockHash, L, P, nonce, GetExpectedIndex(nonce, chainID, L)^slotXor, 0)
}

// zzC10proofAt: the same with an explicit aux index and filler bytes between
// marker and root.
func zzC10proofAt(blockHash common.Uint256, L, P int, nonce uint32, index int, filler int) *AuxPow {
	ap := &AuxPow{}
	for i := 0; i < L; i++ {
		ap.AuxMerkleBranch = append(ap.AuxMerkleBranch, common.Uint256{0x77, byte(i)})
	}
	// an index other than the one the nonce and chain id prescribe: the miner
	// put the chain elsewhere (everything else consistent)
	ap.AuxMerkleIndex = index
	rev, _ := common.Uint256FromBytes(common.BytesReverse(blockHash.Bytes()))
	root := GetMerkleRoot(*rev, ap.AuxMerkleBranch, ap.AuxMerkleIndex)
	script := []byte{0x03, 0x01, 0x02, 0x03} // height push, as in real coinbases
	script = append(script, pchMergedMiningHeader...)
	for i := 0; i < filler; i++ {
		script = append(script, 0x11)
	}
	script = append(script, common.BytesReverse(root.Bytes())...)
	var tail [8]byte
	binary.LittleEndian.PutUint32(tail[:4], 1<<uint(L))
	binary.LittleEndian.PutUint32(tail[4:], nonce)
	script = append(script, tail[:]...)
	exact := make([]byte, len(script))
	copy(exact, script)
	ap.ParCoinbaseTx.Version = 1
	ap.ParCoinbaseTx.TxIn = []*BtcTxIn{{SignatureScript: exact}}
	for i := 0; i < P; i++ {
		ap.ParCoinBaseMerkle = append(ap.ParCoinBaseMerkle, common.Uint256{0x55, byte(i)})
	}
	ap.ParMerkleIndex = 0
	ap.ParBlockHeader.MerkleRoot = GetMerkleRoot(ap.ParCoinbaseTx.Hash(), ap.ParCoinBaseMerkle, ap.ParMerkleIndex)
	return ap
}

// ZZ_C10_commit: a proof built for block hash h is accepted for h and for no
// other block hash (every other 256-bit value), and it stops verifying when
// the committed tree size, the aux index, the parent merkle root or the
// committed root is changed. SHA-256 is collision-free by assumption.
func ZZ_C10_commit() {
	L := nd.Choose("auxBranchLen", 3)
	P := nd.Choose("parentBranchLen", 2)
	nonce := uint32(7)
	h := common.Uint256{0x42, 0x01}
	ap := zzC10proof(h, L, P, nonce, AuxPowChainID, 0)
	nd.Assert(ap.Check(&h, AuxPowChainID), "proof_built_for_this_block_verifies")
	nd.Reach("built")
	switch nd.Choose("attack", 10) {
	case 9: // through the wire format
		zzC10wire(L, P, nonce)
	case 8: // a second marker
		zzC10secondMarker(P, nonce)
	case 6: // something between the marker and the root
		bad := zzC10proofAt(h, L, P, nonce, GetExpectedIndex(nonce, AuxPowChainID, L), nd.Choose("fillerBytes", 3)+1)
		nd.Assert(!bad.Check(&h, AuxPowChainID), "root_not_immediately_after_the_marker_is_rejected")
	case 7: // an index outside the tree: congruent to the prescribed slot, or -1 (decoded 0xffffffff)
		idx := -1
		if nd.Choose("outsideIndexKind", 2) == 1 {
			idx = GetExpectedIndex(nonce, AuxPowChainID, L) + (nd.Choose("wraps", 3)+1)<<uint(L)
		}
		bad := zzC10proofAt(h, L, P, nonce, idx, 0)
		nd.Assert(!bad.Check(&h, AuxPowChainID), "aux_index_outside_the_tree_is_rejected")
		var other common.Uint256
		other[0] = 0x99
		nd.Assert(!bad.Check(&other, AuxPowChainID), "aux_index_outside_the_tree_is_rejected_for_other_blocks_too")
	case 5: // consistent proof, but at a slot the nonce and chain id do not prescribe
		if L > 0 {
			x := nd.Choose("slotXor", (1<<uint(L))-1) + 1
			bad := zzC10proof(h, L, P, nonce, AuxPowChainID, x)
			nd.Assert(!bad.Check(&h, AuxPowChainID), "proof_at_a_slot_not_derived_from_nonce_and_chain_is_rejected")
		}
	case 0: // another block
		var other common.Uint256
		copy(other[:], nd.Bytes("otherBlockHash", 32))
		nd.Assume(other != h)
		nd.Assert(!ap.Check(&other, AuxPowChainID), "proof_does_not_verify_for_any_other_block")
	case 1: // wrong tree size
		s := ap.ParCoinbaseTx.TxIn[0].SignatureScript
		off := len(s) - 8
		sz := nd.U32("size")
		nd.Assume(sz != 1<<uint(L))
		binary.LittleEndian.PutUint32(s[off:off+4], sz)
		ap.ParBlockHeader.MerkleRoot = GetMerkleRoot(ap.ParCoinbaseTx.Hash(), ap.ParCoinBaseMerkle, ap.ParMerkleIndex)
		nd.Assert(!ap.Check(&h, AuxPowChainID), "wrong_committed_tree_size_is_rejected")
	case 2: // wrong slot
		if L > 0 {
			idx := nd.Choose("auxIndex", 1<<uint(L))
			nd.Assume(idx != ap.AuxMerkleIndex)
			ap.AuxMerkleIndex = idx
			nd.Assert(!ap.Check(&h, AuxPowChainID), "wrong_aux_slot_is_rejected")
		}
	case 3: // parent coinbase not under the parent header
		var r common.Uint256
		copy(r[:], nd.Bytes("parentMerkleRoot", 32))
		nd.Assume(r != ap.ParBlockHeader.MerkleRoot)
		ap.ParBlockHeader.MerkleRoot = r
		nd.Assert(!ap.Check(&h, AuxPowChainID), "coinbase_not_under_parent_root_is_rejected")
	case 4: // one byte of the committed root changed
		s := ap.ParCoinbaseTx.TxIn[0].SignatureScript
		pos := 8 + nd.Choose("rootByte", 32)
		b := nd.U8("newByte")
		nd.Assume(b != s[pos])
		s[pos] = b
		ap.ParBlockHeader.MerkleRoot = GetMerkleRoot(ap.ParCoinbaseTx.Hash(), ap.ParCoinBaseMerkle, ap.ParMerkleIndex)
		nd.Assert(!ap.Check(&h, AuxPowChainID), "changed_committed_root_is_rejected")
	}
	nd.Reach("attacked")
}

// zzC10secondMarker: the coinbase script must contain exactly one marker. A
// proof with an empty aux branch commits to the block hash itself, so a block
// hash whose (reversed) bytes contain the marker pattern — byte-aligned or
// shifted by a nibble, at any of several positions — puts a second marker
// inside the committed root; a marker may also follow the committed fields.
// Every such proof is refused although everything else about it is right.
func zzC10secondMarker(P int, nonce uint32) {
	var h common.Uint256
	for i := range h {
		h[i] = byte(0x10 + i)
	}
	idx := GetExpectedIndex(nonce, AuxPowChainID, 0)
	switch nd.Choose("secondMarkerPlace", 3) {
	case 0: // byte-aligned inside the root (the script holds the hash as given to Check, reversed twice)
		pos := nd.Choose("position", 29)
		copy(h[pos:], pchMergedMiningHeader)
	case 1: // shifted by a nibble inside the root: xf ab e6 d6 dx
		pos := nd.Choose("position", 28)
		m := pchMergedMiningHeader
		h[pos] = h[pos]&0xf0 | m[0]>>4
		h[pos+1] = m[0]<<4 | m[1]>>4
		h[pos+2] = m[1]<<4 | m[2]>>4
		h[pos+3] = m[2]<<4 | m[3]>>4
		h[pos+4] = m[3]<<4 | h[pos+4]&0x0f
	default: // after the committed size and nonce
		bad := zzC10proofAt(h, 0, P, nonce, idx, 0)
		in := bad.ParCoinbaseTx.TxIn[0]
		in.SignatureScript = append(append([]byte{}, in.SignatureScript...), pchMergedMiningHeader...)
		bad.ParBlockHeader.MerkleRoot = GetMerkleRoot(bad.ParCoinbaseTx.Hash(), bad.ParCoinBaseMerkle, bad.ParMerkleIndex)
		nd.Assert(!bad.Check(&h, AuxPowChainID), "script_with_a_second_marker_is_rejected")
		return
	}
	bad := zzC10proofAt(h, 0, P, nonce, idx, 0)
	nd.Assert(!bad.Check(&h, AuxPowChainID), "script_with_a_second_marker_is_rejected")
}

// zzC10wire: the proof as a peer delivers it. The valid proof survives
// Serialize -> Deserialize; a proof whose parent (or aux) merkle index is
// 0xffffffff on the wire and whose parent header has an all-zero merkle root
// — the values with which an index decoded as -1 would make GetMerkleRoot
// return the zero hash without looking at the coinbase — is refused for this
// block and for any other.
func zzC10wire(L, P int, nonce uint32) {
	h := common.Uint256{0x42, 0x01}
	roundTrip := func(ap *AuxPow) *AuxPow {
		buf := new(bytes.Buffer)
		nd.Assert(ap.Serialize(buf) == nil, "proof_serializes")
		out := &AuxPow{}
		nd.Assert(out.Deserialize(bytes.NewReader(buf.Bytes())) == nil, "own_encoding_decodes")
		return out
	}
	good := roundTrip(zzC10proof(h, L, P, nonce, AuxPowChainID, 0))
	nd.Assert(good.Check(&h, AuxPowChainID), "proof_received_over_the_wire_verifies")
	bad := zzC10proof(h, L, P, nonce, AuxPowChainID, 0)
	if nd.Bool("auxIndexToo") {
		bad.AuxMerkleIndex = 0xffffffff
	}
	bad.ParMerkleIndex = 0xffffffff
	bad.ParBlockHeader.MerkleRoot = common.Uint256{}
	got := roundTrip(bad)
	nd.Assert(!got.Check(&h, AuxPowChainID), "coinbase_not_under_parent_root_is_rejected_on_the_wire")
	other := common.Uint256{0x99}
	nd.Assert(!got.Check(&other, AuxPowChainID), "coinbase_not_under_parent_root_is_rejected_on_the_wire")
}
