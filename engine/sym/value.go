package sym

import (
	"fmt"
	"go/types"
	"math/big"

	"golang.org/x/tools/go/ssa"
)

type Value interface{}

// Agg is a struct or array value.
type Agg struct{ E []Value }

// Loc is a memory location tree. Aggregates have Kids, leaves have V.
type Loc struct {
	Kids []*Loc
	V    Value
	T    types.Type
	Tag  string // allocation site (diagnostics)
}

// Ptr points to one location, or to one of several selected by Sel (an
// index term, BV64) when a symbolic index was used.
type Ptr struct {
	L   []*Loc
	Sel *Term
}

func (p Ptr) IsNil() bool { return len(p.L) == 0 }

type SliceV struct {
	Arr           *Loc // array location; nil for nil slice
	Off, Len, Cap int
}

type StrV struct {
	S   string
	Sym []*Term // if non-nil, symbolic bytes (BV8) and S is ignored
}

func (s StrV) Len() int {
	if s.Sym != nil {
		return len(s.Sym)
	}
	return len(s.S)
}

type MapEnt struct {
	K, V Value
}
type MapObj struct {
	T   *types.Map
	Ent []*MapEnt
}

type IfaceV struct {
	T types.Type // dynamic type; nil for nil interface
	V Value
}

type FuncV struct {
	Fn    *ssa.Function
	Env   []Value
	Bound Value // for bound method closures handled via Env
	Blt   *ssa.Builtin
}

type Tuple []Value

type ChanV struct{ id int }

type MapIter struct {
	ents []*MapEnt
	i    int
	str  *StrV
}

// BigV is the leaf value stored in a math/big.Int location.
type BigV struct{ T *Term }

// opaque leaf for types we model abstractly (e.g. rand.Rand state)
type Opaque struct {
	Kind string
	T    *Term
	X    interface{}
}

func isNamed(t types.Type, pkg, name string) bool {
	n, ok := t.(*types.Named)
	if !ok {
		return false
	}
	o := n.Obj()
	return o.Pkg() != nil && o.Pkg().Path() == pkg && o.Name() == name
}

func (in *Interp) sortOfBasic(b *types.Basic) (Sort, bool) {
	switch b.Kind() {
	case types.Bool, types.UntypedBool:
		return SBool, true
	case types.Int8, types.Uint8:
		return BV(8), true
	case types.Int16, types.Uint16:
		return BV(16), true
	case types.Int32, types.Uint32, types.UntypedRune:
		return BV(32), true
	case types.Int, types.Uint, types.Int64, types.Uint64, types.Uintptr, types.UntypedInt:
		return BV(64), true
	case types.Float64, types.Float32, types.UntypedFloat:
		return SFP, true
	}
	return Sort{}, false
}

func isSigned(t types.Type) bool {
	b, ok := t.Underlying().(*types.Basic)
	if !ok {
		return false
	}
	return b.Info()&types.IsInteger != 0 && b.Info()&types.IsUnsigned == 0
}

func isFloat(t types.Type) bool {
	b, ok := t.Underlying().(*types.Basic)
	return ok && b.Info()&types.IsFloat != 0
}
func isInteger(t types.Type) bool {
	b, ok := t.Underlying().(*types.Basic)
	return ok && b.Info()&types.IsInteger != 0
}
func isString(t types.Type) bool {
	b, ok := t.Underlying().(*types.Basic)
	return ok && b.Info()&types.IsString != 0
}
func isBool(t types.Type) bool {
	b, ok := t.Underlying().(*types.Basic)
	return ok && b.Info()&types.IsBoolean != 0
}

func (in *Interp) zero(t types.Type) Value {
	if isNamed(t, "math/big", "Int") {
		return BigV{in.st.IntConst64(0)}
	}
	if isNamed(t, "time", "Time") {
		return TimeV{NS: in.st.Const(64, 0), Zero: true}
	}
	switch u := t.Underlying().(type) {
	case *types.Basic:
		if u.Info()&types.IsString != 0 {
			return StrV{}
		}
		if u.Kind() == types.UnsafePointer {
			return Ptr{}
		}
		s, ok := in.sortOfBasic(u)
		if !ok {
			in.unsupported("zero of basic " + u.String())
		}
		switch s.K {
		case KBool:
			return in.st.False
		case KFP:
			return in.st.FPConst(0)
		}
		return in.st.Const(s.W, 0)
	case *types.Pointer:
		return Ptr{}
	case *types.Struct:
		a := &Agg{E: make([]Value, u.NumFields())}
		for i := range a.E {
			a.E[i] = in.zero(u.Field(i).Type())
		}
		return a
	case *types.Array:
		n := int(u.Len())
		if n > 1<<20 {
			in.unsupported("huge array")
		}
		a := &Agg{E: make([]Value, n)}
		if n > 0 {
			z := in.zero(u.Elem())
			for i := range a.E {
				a.E[i] = z
			}
		}
		return a
	case *types.Slice:
		return SliceV{}
	case *types.Map:
		return (*MapObj)(nil)
	case *types.Interface:
		return IfaceV{}
	case *types.Signature:
		return (*FuncV)(nil)
	case *types.Chan:
		return (*ChanV)(nil)
	case *types.Tuple:
		tp := make(Tuple, u.Len())
		for i := range tp {
			tp[i] = in.zero(u.At(i).Type())
		}
		return tp
	}
	in.unsupported("zero of " + t.String())
	return nil
}

// newLoc allocates a location tree for type t holding v (or zero if v==nil).
func (in *Interp) newLoc(t types.Type, v Value) *Loc {
	l := &Loc{T: t}
	if isNamed(t, "math/big", "Int") {
		if v == nil {
			v = BigV{in.st.IntConst64(0)}
		}
		l.V = v
		return l
	}
	if isNamed(t, "time", "Time") {
		if v == nil {
			v = TimeV{NS: in.st.Const(64, 0), Zero: true}
		}
		l.V = v
		return l
	}
	switch u := t.Underlying().(type) {
	case *types.Struct:
		n := u.NumFields()
		l.Kids = make([]*Loc, n)
		var a *Agg
		if v != nil {
			a = v.(*Agg)
		}
		for i := 0; i < n; i++ {
			var e Value
			if a != nil {
				e = a.E[i]
			}
			l.Kids[i] = in.newLoc(u.Field(i).Type(), e)
		}
		return l
	case *types.Array:
		n := int(u.Len())
		if n > 1<<20 {
			in.unsupported("huge array alloc")
		}
		l.Kids = make([]*Loc, n)
		var a *Agg
		if v != nil {
			a = v.(*Agg)
		}
		et := u.Elem()
		_, leaf := et.Underlying().(*types.Basic)
		var z Value
		if leaf && a == nil && n > 0 {
			z = in.zero(et)
		}
		for i := 0; i < n; i++ {
			if leaf {
				if a != nil {
					l.Kids[i] = &Loc{T: et, V: a.E[i]}
				} else {
					l.Kids[i] = &Loc{T: et, V: z}
				}
				continue
			}
			var e Value
			if a != nil {
				e = a.E[i]
			}
			l.Kids[i] = in.newLoc(et, e)
		}
		return l
	}
	if v == nil {
		v = in.zero(t)
	}
	l.V = v
	return l
}

// newArrayLoc allocates an array of n elements of type et (backing store for slices).
func (in *Interp) newArrayLoc(et types.Type, n int) *Loc {
	return in.newLoc(types.NewArray(et, int64(n)), nil)
}

func (in *Interp) loadLoc(l *Loc) Value {
	if l.Kids == nil && l.V != nil {
		return l.V
	}
	if l.Kids == nil {
		// zero-sized aggregate
		return &Agg{}
	}
	a := &Agg{E: make([]Value, len(l.Kids))}
	for i, k := range l.Kids {
		a.E[i] = in.loadLoc(k)
	}
	return a
}

func (in *Interp) storeLoc(l *Loc, v Value) {
	if l.Kids != nil {
		a, ok := v.(*Agg)
		if !ok {
			in.unsupported(fmt.Sprintf("store of non-aggregate %T into aggregate loc %v", v, l.T))
		}
		if len(a.E) != len(l.Kids) {
			in.unsupported("aggregate size mismatch in store")
		}
		for i, k := range l.Kids {
			in.storeLoc(k, a.E[i])
		}
		return
	}
	if a, ok := v.(*Agg); ok && len(a.E) == 0 {
		return
	}
	l.V = v
}

func (in *Interp) load(p Ptr) Value {
	if p.IsNil() {
		in.goPanic("nil pointer dereference")
	}
	if len(p.L) == 1 {
		return in.loadLoc(p.L[0])
	}
	// symbolic selection
	var res Value
	for i := len(p.L) - 1; i >= 0; i-- {
		v := in.loadLoc(p.L[i])
		if res == nil {
			res = v
			continue
		}
		c := in.st.Eq(p.Sel, in.st.Const(p.Sel.S.W, uint64(i)))
		res = in.merge(c, v, res)
	}
	return res
}

func (in *Interp) store(p Ptr, v Value) {
	if p.IsNil() {
		in.goPanic("nil pointer dereference")
	}
	if len(p.L) == 1 {
		in.storeLoc(p.L[0], v)
		return
	}
	for i, l := range p.L {
		c := in.st.Eq(p.Sel, in.st.Const(p.Sel.S.W, uint64(i)))
		old := in.loadLoc(l)
		in.storeLoc(l, in.merge(c, v, old))
	}
}

// merge builds ite(c, a, b) over values.
func (in *Interp) merge(c *Term, a, b Value) Value {
	if c.IsTrue() {
		return a
	}
	if c.IsFalse() {
		return b
	}
	switch x := a.(type) {
	case *Term:
		y, ok := b.(*Term)
		if !ok {
			in.unsupported("merge term with non-term")
		}
		return in.st.Ite(c, x, y)
	case *Agg:
		y := b.(*Agg)
		r := &Agg{E: make([]Value, len(x.E))}
		for i := range x.E {
			r.E[i] = in.merge(c, x.E[i], y.E[i])
		}
		return r
	case BigV:
		return BigV{in.st.Ite(c, x.T, b.(BigV).T)}
	case TimeV:
		if y := b.(TimeV); y.Zero == x.Zero {
			return TimeV{NS: in.st.Ite(c, x.NS, y.NS), Zero: x.Zero}
		}
	case Ptr:
		y := b.(Ptr)
		if len(x.L) == len(y.L) {
			same := true
			for i := range x.L {
				if x.L[i] != y.L[i] {
					same = false
				}
			}
			if same && x.Sel == y.Sel {
				return x
			}
		}
	case SliceV:
		if y, ok := b.(SliceV); ok && x == y {
			return x
		}
	case StrV:
		y := b.(StrV)
		if x.Sym == nil && y.Sym == nil && x.S == y.S {
			return x
		}
		if x.Len() == y.Len() {
			r := StrV{Sym: make([]*Term, x.Len())}
			for i := range r.Sym {
				r.Sym[i] = in.st.Ite(c, in.strByte(x, i), in.strByte(y, i))
			}
			if len(r.Sym) == 0 {
				return StrV{}
			}
			return r
		}
	case IfaceV:
		y := b.(IfaceV)
		if x.T == nil && y.T == nil {
			return x
		}
		if x.T != nil && y.T != nil && types.Identical(x.T, y.T) {
			return IfaceV{x.T, in.merge(c, x.V, y.V)}
		}
	case *MapObj:
		if y, ok := b.(*MapObj); ok && x == y {
			return x
		}
	case *FuncV:
		if y, ok := b.(*FuncV); ok && x == y {
			return x
		}
	}
	// cannot merge: fork instead
	if in.fork2(c) {
		return a
	}
	return b
}

func (in *Interp) strByte(s StrV, i int) *Term {
	if s.Sym != nil {
		return s.Sym[i]
	}
	return in.st.Const(8, uint64(s.S[i]))
}

func (in *Interp) strConcrete(s StrV) (string, bool) {
	if s.Sym == nil {
		return s.S, true
	}
	b := make([]byte, len(s.Sym))
	for i, t := range s.Sym {
		if !t.IsConst() {
			return "", false
		}
		b[i] = byte(t.C)
	}
	return string(b), true
}

func (in *Interp) mkStr(bs []*Term) StrV {
	all := true
	for _, t := range bs {
		if !t.IsConst() {
			all = false
			break
		}
	}
	if all {
		b := make([]byte, len(bs))
		for i, t := range bs {
			b[i] = byte(t.C)
		}
		return StrV{S: string(b)}
	}
	return StrV{Sym: bs}
}

// valEq returns the Bool term for Go == on two values of the same type.
func (in *Interp) valEq(a, b Value) *Term {
	st := in.st
	switch x := a.(type) {
	case *Term:
		y := b.(*Term)
		if x.S.K == KFP {
			return st.FEq(x, y)
		}
		return st.Eq(x, y)
	case *Agg:
		y := b.(*Agg)
		r := st.True
		for i := range x.E {
			r = st.And(r, in.valEq(x.E[i], y.E[i]))
			if r.IsFalse() {
				return r
			}
		}
		return r
	case StrV:
		y := b.(StrV)
		if x.Len() != y.Len() {
			return st.False
		}
		if x.Sym == nil && y.Sym == nil {
			return st.Bool(x.S == y.S)
		}
		r := st.True
		for i := 0; i < x.Len(); i++ {
			r = st.And(r, st.Eq(in.strByte(x, i), in.strByte(y, i)))
			if r.IsFalse() {
				return r
			}
		}
		return r
	case Ptr:
		y := b.(Ptr)
		if x.IsNil() || y.IsNil() {
			return st.Bool(x.IsNil() && y.IsNil())
		}
		if len(x.L) == 1 && len(y.L) == 1 {
			return st.Bool(x.L[0] == y.L[0])
		}
		in.unsupported("comparison of symbolic pointers")
	case IfaceV:
		y, ok := b.(IfaceV)
		if !ok {
			in.unsupported("iface compared with non-iface")
		}
		if x.T == nil || y.T == nil {
			return st.Bool(x.T == nil && y.T == nil)
		}
		if !types.Identical(x.T, y.T) {
			return st.False
		}
		return in.valEq(x.V, y.V)
	case *MapObj:
		y, _ := b.(*MapObj)
		return st.Bool(x == y)
	case *FuncV:
		y, _ := b.(*FuncV)
		return st.Bool(x == y)
	case *ChanV:
		y, _ := b.(*ChanV)
		return st.Bool(x == y)
	case SliceV:
		y := b.(SliceV)
		if x.Arr == nil || y.Arr == nil {
			return st.Bool(x.Arr == nil && y.Arr == nil)
		}
	case BigV:
		return st.Eq(x.T, b.(BigV).T)
	case TimeV:
		y := b.(TimeV)
		if x.Zero != y.Zero {
			return st.False
		}
		return st.Eq(x.NS, y.NS)
	case nil:
		return st.Bool(b == nil)
	}
	in.unsupported(fmt.Sprintf("valEq on %T", a))
	return nil
}

func bigFromInt64(v int64) *big.Int { return big.NewInt(v) }
