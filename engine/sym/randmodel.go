package sym

import (
	"fmt"
	"go/types"
	"hash/crc32"

	"golang.org/x/tools/go/ssa"
)

// math/rand, process-global source. Every draw is a fresh symbolic value in
// the documented range: the solver quantifies over every sequence the real
// generator could produce (and more). When the harness has pre-allocated draws
// with nd.RandInts(k) the first k draws are those variables (they are part of
// the replay vector; natively nd searches a seed whose first k values have
// the same relative order — enough for priority-ordered structures).
func (in *Interp) randDraw(w int, what string) *Term {
	if len(in.randPre) > 0 {
		t := in.randPre[0]
		in.randPre = in.randPre[1:]
		if t.S.W == w {
			return t
		}
		if t.S.W > w {
			return in.st.Extract(t, w-1, 0)
		}
		return in.st.ZExt(t, w)
	}
	in.fresh++
	v := in.st.Var(fmt.Sprintf("rand_%s!%d_%d", what, in.drawSeq, in.fresh), BV(w))
	in.ex.noteStub("math/rand global source: every draw is an arbitrary value of its range (not tied to a seed; not part of the replay vector unless pre-allocated with nd.RandInts)")
	return v
}

func registerRand(reg func(string, intrinsic)) {
	reg(ndPkg+".RandInts", func(in *Interp, fn *ssa.Function, a []Value) Value {
		k := in.argInt(a[0])
		d := Draw{Name: "randints", Kind: "randints", N: k, W: 64}
		for i := 0; i < k; i++ {
			v := in.st.Var(fmt.Sprintf("randint!%d_%d", in.drawSeq, i), BV(64))
			// rand.Int() is non-negative; distinct priorities (a 63-bit tie has
			// negligible probability and cannot be replayed)
			in.addPC(in.st.Eq(in.st.Extract(v, 63, 63), in.st.Const(1, 0)))
			for _, p := range d.vars {
				in.addPC(in.st.Not(in.st.Eq(p, v)))
			}
			d.vars = append(d.vars, v)
			in.randPre = append(in.randPre, v)
		}
		in.drawSeq++
		in.draws = append(in.draws, d)
		return nil
	})
	nonneg := func(w int, name string) intrinsic {
		return func(in *Interp, fn *ssa.Function, a []Value) Value {
			v := in.randDraw(w, name)
			in.addPC(in.st.Eq(in.st.Extract(v, w-1, w-1), in.st.Const(1, 0)))
			return v
		}
	}
	reg("math/rand.Int", nonneg(64, "Int"))
	reg("math/rand.Int63", nonneg(64, "Int63"))
	reg("math/rand.Int31", nonneg(32, "Int31"))
	reg("math/rand.Uint32", func(in *Interp, fn *ssa.Function, a []Value) Value { return in.randDraw(32, "Uint32") })
	reg("math/rand.Uint64", func(in *Interp, fn *ssa.Function, a []Value) Value { return in.randDraw(64, "Uint64") })
	bounded := func(w int, name string) intrinsic {
		return func(in *Interp, fn *ssa.Function, a []Value) Value {
			n := a[0].(*Term)
			if in.fork2(in.st.SLe(n, in.st.Const(w, 0))) {
				in.goPanic("invalid argument to " + name)
			}
			v := in.randDraw(w, name)
			in.addPC(in.st.ULt(v, n))
			return v
		}
	}
	reg("math/rand.Intn", bounded(64, "Intn"))
	reg("math/rand.Int63n", bounded(64, "Int63n"))
	reg("math/rand.Int31n", bounded(32, "Int31n"))
	reg("math/rand.Seed", func(in *Interp, fn *ssa.Function, a []Value) Value { return nil })
}

// hash/crc32 digest (crc32.New(tab) ... Write ... Sum): the bytes written so
// far are kept per digest object and the checksum is the same model as
// crc32.Checksum over the whole stream (native value for concrete streams, an
// uninterpreted function of the stream otherwise), so that incremental and
// one-shot computation of the same stream agree by construction.
func registerCRC(reg func(string, intrinsic)) {
	stream := func(in *Interp, v Value) *Loc {
		p, ok := v.(Ptr)
		if !ok || len(p.L) != 1 {
			in.unsupported("crc32 digest pointer")
		}
		if in.crcStreams == nil {
			in.crcStreams = map[*Loc][]*Term{}
		}
		return p.L[0]
	}
	sum := func(in *Interp, l *Loc) *Term {
		bs := in.crcStreams[l]
		if c, ok := in.allConcrete(bs); ok {
			return in.st.Const(32, uint64(crc32.Checksum(c, crc32.MakeTable(crc32.Castagnoli))))
		}
		out := in.hashBytes("crc32c", bs, 4)
		return in.st.Concat(in.st.Concat(out[3], out[2]), in.st.Concat(out[1], out[0]))
	}
	reg("(*hash/crc32.digest).Write", func(in *Interp, fn *ssa.Function, a []Value) Value {
		l := stream(in, a[0])
		bs := in.bytesOf(a[1])
		in.crcStreams[l] = append(in.crcStreams[l], bs...)
		return Tuple{in.st.Const(64, uint64(len(bs))), IfaceV{}}
	})
	reg("(*hash/crc32.digest).Reset", func(in *Interp, fn *ssa.Function, a []Value) Value {
		l := stream(in, a[0])
		in.crcStreams[l] = nil
		return nil
	})
	reg("(*hash/crc32.digest).Sum32", func(in *Interp, fn *ssa.Function, a []Value) Value {
		return sum(in, stream(in, a[0]))
	})
	reg("(*hash/crc32.digest).Sum", func(in *Interp, fn *ssa.Function, a []Value) Value {
		s := sum(in, stream(in, a[0]))
		st := in.st
		prefix := in.bytesOf(a[1])
		out := append(append([]*Term{}, prefix...), st.Extract(s, 31, 24), st.Extract(s, 23, 16), st.Extract(s, 15, 8), st.Extract(s, 7, 0))
		return in.bytesToSlice(out)
	})
}

// Local generators (rand.New(rand.NewSource(seed))): a deterministic chain of
// uninterpreted functions of the seed — two generators built from the same
// seed produce the same sequence, whatever else runs in the process. This is
// the contrast with the process-global source above, whose draws are arbitrary
// because any other goroutine (treap priorities, p2p nonces, address manager)
// may draw from or reseed it between two accesses.
func registerLocalRand(reg func(string, intrinsic)) {
	state := func(in *Interp, v Value) *Loc {
		var p Ptr
		switch x := v.(type) {
		case Ptr:
			p = x
		case IfaceV:
			p, _ = x.V.(Ptr)
		}
		if len(p.L) != 1 {
			in.unsupported("math/rand generator value")
		}
		if in.randStates == nil {
			in.randStates = map[*Loc]*Term{}
		}
		return p.L[0]
	}
	reg("math/rand.NewSource", func(in *Interp, fn *ssa.Function, a []Value) Value {
		pkg := in.prog.ImportedPackage("math/rand")
		t := pkg.Type("rngSource")
		if t == nil {
			in.unsupported("math/rand.rngSource not found")
		}
		l := &Loc{T: t.Type(), V: Opaque{Kind: "rngSource"}}
		if in.randStates == nil {
			in.randStates = map[*Loc]*Term{}
		}
		in.randStates[l] = in.st.UF("rand_seeded", BV(64), a[0].(*Term))
		in.ex.noteStub("rand.New(rand.NewSource(seed)): deterministic uninterpreted-function chain of the seed (the generator algorithm itself is not encoded)")
		return IfaceV{T: types.NewPointer(t.Type()), V: Ptr{L: []*Loc{l}}}
	})
	reg("math/rand.New", func(in *Interp, fn *ssa.Function, a []Value) Value {
		src := state(in, a[0])
		pkg := in.prog.ImportedPackage("math/rand")
		t := pkg.Type("Rand")
		l := &Loc{T: t.Type(), V: Opaque{Kind: "Rand"}}
		s, ok := in.randStates[src]
		if !ok {
			in.unsupported("rand.New on an unmodelled Source")
		}
		in.randStates[l] = s
		return Ptr{L: []*Loc{l}}
	})
	draw := func(in *Interp, l *Loc, w int) *Term {
		s, ok := in.randStates[l]
		if !ok {
			in.unsupported("method on an unmodelled *rand.Rand")
		}
		v := in.st.UF(fmt.Sprintf("rand_out%d", w), BV(w), s)
		in.randStates[l] = in.st.UF("rand_next", BV(64), s)
		return v
	}
	nonneg := func(w int) intrinsic {
		return func(in *Interp, fn *ssa.Function, a []Value) Value {
			v := draw(in, state(in, a[0]), w)
			in.addPC(in.st.Eq(in.st.Extract(v, w-1, w-1), in.st.Const(1, 0)))
			return v
		}
	}
	reg("(*math/rand.Rand).Int", nonneg(64))
	reg("(*math/rand.Rand).Int63", nonneg(64))
	reg("(*math/rand.Rand).Int31", nonneg(32))
	bounded := func(w int, name string) intrinsic {
		return func(in *Interp, fn *ssa.Function, a []Value) Value {
			n := a[1].(*Term)
			if in.fork2(in.st.SLe(n, in.st.Const(w, 0))) {
				in.goPanic("invalid argument to " + name)
			}
			l := state(in, a[0])
			s, ok := in.randStates[l]
			if !ok {
				in.unsupported("method on an unmodelled *rand.Rand")
			}
			v := in.st.UF(fmt.Sprintf("rand_outn%d", w), BV(w), s, n)
			in.randStates[l] = in.st.UF("rand_next", BV(64), s)
			in.addPC(in.st.ULt(v, n))
			return v
		}
	}
	reg("(*math/rand.Rand).Intn", bounded(64, "Intn"))
	reg("(*math/rand.Rand).Int63n", bounded(64, "Int63n"))
	reg("(*math/rand.Rand).Int31n", bounded(32, "Int31n"))
}
