package sym

import (
	"fmt"
	"go/types"
	"strings"

	"golang.org/x/tools/go/ssa"
)

// encoding/binary.Read / Write / Size on fixed-size data. The real functions
// go through reflection; the layout they implement (fields in order, no
// padding, each scalar in the given byte order, bool as one byte) is
// reproduced here from the static type of the dynamic value.

func (in *Interp) binBigEndian(order Value) bool {
	iv, ok := order.(IfaceV)
	if !ok || iv.T == nil {
		in.unsupported("encoding/binary: nil byte order")
	}
	s := iv.T.String()
	switch {
	case strings.HasSuffix(s, "littleEndian"):
		return false
	case strings.HasSuffix(s, "bigEndian"):
		return true
	}
	in.unsupported("encoding/binary: byte order " + s)
	return false
}

// binSize returns the encoded size of a value of type t, or -1.
func (in *Interp) binSize(t types.Type) int {
	switch u := t.Underlying().(type) {
	case *types.Basic:
		switch u.Kind() {
		case types.Bool, types.Int8, types.Uint8:
			return 1
		case types.Int16, types.Uint16:
			return 2
		case types.Int32, types.Uint32, types.Float32:
			return 4
		case types.Int64, types.Uint64, types.Float64:
			return 8
		}
		return -1
	case *types.Array:
		e := in.binSize(u.Elem())
		if e < 0 {
			return -1
		}
		return e * int(u.Len())
	case *types.Struct:
		n := 0
		for i := 0; i < u.NumFields(); i++ {
			e := in.binSize(u.Field(i).Type())
			if e < 0 {
				return -1
			}
			n += e
		}
		return n
	}
	return -1
}

func (in *Interp) binEncode(t types.Type, v Value, big bool, out *[]*Term) {
	st := in.st
	switch u := t.Underlying().(type) {
	case *types.Basic:
		x, ok := v.(*Term)
		if !ok {
			in.unsupported(fmt.Sprintf("encoding/binary: scalar value %T", v))
		}
		if x.S.K == KBool {
			*out = append(*out, st.Ite(x, st.Const(8, 1), st.Const(8, 0)))
			return
		}
		if x.S.K == KFP {
			x = st.FToBits(x)
		}
		n := x.S.W / 8
		bs := make([]*Term, n)
		for i := 0; i < n; i++ {
			bs[i] = st.Extract(x, i*8+7, i*8) // little endian order
		}
		if big {
			for i, j := 0, n-1; i < j; i, j = i+1, j-1 {
				bs[i], bs[j] = bs[j], bs[i]
			}
		}
		*out = append(*out, bs...)
	case *types.Array:
		a := v.(*Agg)
		for i := range a.E {
			in.binEncode(u.Elem(), a.E[i], big, out)
		}
	case *types.Struct:
		a := v.(*Agg)
		for i := range a.E {
			in.binEncode(u.Field(i).Type(), a.E[i], big, out)
		}
	default:
		in.unsupported("encoding/binary: encode " + t.String())
	}
}

func (in *Interp) binDecode(t types.Type, bs []*Term, pos *int, big bool) Value {
	st := in.st
	switch u := t.Underlying().(type) {
	case *types.Basic:
		n := in.binSize(t)
		chunk := bs[*pos : *pos+n]
		*pos += n
		if u.Kind() == types.Bool {
			return st.Not(st.Eq(chunk[0], st.Const(8, 0)))
		}
		var x *Term
		for i := 0; i < n; i++ {
			var b *Term
			if big {
				b = chunk[i]
			} else {
				b = chunk[n-1-i]
			}
			if x == nil {
				x = b
			} else {
				x = st.Concat(x, b)
			}
		}
		if u.Kind() == types.Float64 {
			return st.FFromBits(x)
		}
		if u.Kind() == types.Float32 {
			in.unsupported("encoding/binary: float32")
		}
		return x
	case *types.Array:
		a := &Agg{E: make([]Value, int(u.Len()))}
		for i := range a.E {
			a.E[i] = in.binDecode(u.Elem(), bs, pos, big)
		}
		return a
	case *types.Struct:
		a := &Agg{E: make([]Value, u.NumFields())}
		for i := range a.E {
			a.E[i] = in.binDecode(u.Field(i).Type(), bs, pos, big)
		}
		return a
	}
	in.unsupported("encoding/binary: decode " + t.String())
	return nil
}

func (in *Interp) bytesToSlice(bs []*Term) SliceV {
	arr := in.newArrayLoc(types.Typ[types.Uint8], len(bs))
	for i, b := range bs {
		arr.Kids[i].V = b
	}
	return SliceV{Arr: arr, Len: len(bs), Cap: len(bs)}
}

func (in *Interp) stdFunc(pkg, name string) *ssa.Function {
	p := in.prog.ImportedPackage(pkg)
	if p == nil {
		in.unsupported("package " + pkg + " not loaded")
	}
	f := p.Func(name)
	if f == nil {
		in.unsupported(pkg + "." + name + " not found")
	}
	return f
}

func registerBinary(reg func(string, intrinsic)) {
	reg("encoding/binary.Write", func(in *Interp, fn *ssa.Function, a []Value) Value {
		big := in.binBigEndian(a[1])
		iv, ok := a[2].(IfaceV)
		if !ok || iv.T == nil {
			in.unsupported("encoding/binary.Write: nil data")
		}
		var out []*Term
		t, v := iv.T, iv.V
		if pt, ok := t.Underlying().(*types.Pointer); ok {
			t = pt.Elem()
			v = in.load(v.(Ptr))
		}
		if sl, ok := t.Underlying().(*types.Slice); ok {
			if in.binSize(sl.Elem()) < 0 {
				in.unsupported("encoding/binary.Write: slice of " + sl.Elem().String())
			}
			for _, l := range in.sliceElems(v.(SliceV)) {
				in.binEncode(sl.Elem(), in.loadLoc(l), big, &out)
			}
		} else {
			if in.binSize(t) < 0 {
				in.unsupported("encoding/binary.Write: " + t.String())
			}
			in.binEncode(t, v, big, &out)
		}
		in.ex.noteStub("encoding/binary.Read/Write = type-directed fixed layout codec (the real one is reflection-based)")
		w, ok := a[0].(IfaceV)
		if !ok || w.T == nil {
			in.goPanic("nil pointer dereference (nil io.Writer)")
		}
		m := in.prog.LookupMethod(w.T, nil, "Write")
		if m == nil {
			in.unsupported("encoding/binary.Write: writer without Write")
		}
		res := in.callFn(m, []Value{w.V, in.bytesToSlice(out)}, nil)
		return res.(Tuple)[1]
	})
	reg("encoding/binary.Read", func(in *Interp, fn *ssa.Function, a []Value) Value {
		big := in.binBigEndian(a[1])
		iv, ok := a[2].(IfaceV)
		if !ok || iv.T == nil {
			in.unsupported("encoding/binary.Read: nil data")
		}
		var elemT types.Type
		var locs []*Loc
		switch u := iv.T.Underlying().(type) {
		case *types.Pointer:
			p := iv.V.(Ptr)
			if p.IsNil() || len(p.L) != 1 {
				in.unsupported("encoding/binary.Read: nil or symbolic pointer")
			}
			elemT = u.Elem()
			locs = []*Loc{p.L[0]}
		case *types.Slice:
			elemT = u.Elem()
			locs = in.sliceElems(iv.V.(SliceV))
		default:
			in.unsupported("encoding/binary.Read into " + iv.T.String())
		}
		esz := in.binSize(elemT)
		if esz < 0 {
			in.unsupported("encoding/binary.Read: " + elemT.String())
		}
		n := esz * len(locs)
		buf := in.bytesToSlice(make([]*Term, 0))
		arr := in.newArrayLoc(types.Typ[types.Uint8], n)
		buf = SliceV{Arr: arr, Len: n, Cap: n}
		in.ex.noteStub("encoding/binary.Read/Write = type-directed fixed layout codec (the real one is reflection-based)")
		res := in.callFn(in.stdFunc("io", "ReadFull"), []Value{a[0], buf}, nil).(Tuple)
		errv := res[1].(IfaceV)
		if errv.T != nil {
			return errv
		}
		bs := in.bytesOf(buf)
		pos := 0
		for _, l := range locs {
			in.storeLoc(l, in.binDecode(elemT, bs, &pos, big))
		}
		return IfaceV{}
	})
	reg("encoding/binary.Size", func(in *Interp, fn *ssa.Function, a []Value) Value {
		iv, ok := a[0].(IfaceV)
		if !ok || iv.T == nil {
			return in.st.Const(64, ^uint64(0))
		}
		t := iv.T
		if pt, ok := t.Underlying().(*types.Pointer); ok {
			t = pt.Elem()
		}
		if sl, ok := t.Underlying().(*types.Slice); ok {
			e := in.binSize(sl.Elem())
			if e < 0 {
				return in.st.Const(64, ^uint64(0))
			}
			return in.st.Const(64, uint64(e*iv.V.(SliceV).Len))
		}
		return in.st.Const(64, uint64(int64(in.binSize(t))))
	})
}
