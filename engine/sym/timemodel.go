package sym

import (
	"golang.org/x/tools/go/ssa"
)

// time.Time is modelled as a nanosecond counter since the Unix epoch
// (no monotonic reading, no location, no saturation on overflow). The zero
// Time is tracked by a concrete flag.
type TimeV struct {
	NS   *Term // BV64
	Zero bool
}

func (in *Interp) timeArg(v Value) TimeV {
	t, ok := v.(TimeV)
	if !ok {
		in.unsupported("expected time.Time value")
	}
	return t
}

func registerTime(reg func(string, intrinsic)) {
	reg("time.Now", func(in *Interp, fn *ssa.Function, a []Value) Value {
		in.unsupported("time.Now (code under test must take the time as a parameter, or the harness must stub the clock seam)")
		return nil
	})
	reg("time.Unix", func(in *Interp, fn *ssa.Function, a []Value) Value {
		st := in.st
		sec, nsec := a[0].(*Term), a[1].(*Term)
		return TimeV{NS: st.Add(st.Mul(sec, st.Const(64, 1000000000)), nsec)}
	})
	reg("time.UnixMilli", func(in *Interp, fn *ssa.Function, a []Value) Value {
		st := in.st
		return TimeV{NS: st.Mul(a[0].(*Term), st.Const(64, 1000000))}
	})
	reg("(time.Time).Sub", func(in *Interp, fn *ssa.Function, a []Value) Value {
		t, u := in.timeArg(a[0]), in.timeArg(a[1])
		if t.Zero != u.Zero {
			in.unsupported("Sub between zero Time and non-zero Time")
		}
		return in.st.Sub(t.NS, u.NS)
	})
	reg("(time.Time).Add", func(in *Interp, fn *ssa.Function, a []Value) Value {
		t := in.timeArg(a[0])
		if t.Zero {
			in.unsupported("Add on zero Time")
		}
		return TimeV{NS: in.st.Add(t.NS, a[1].(*Term))}
	})
	cmp := func(f func(in *Interp, x, y *Term) *Term) intrinsic {
		return func(in *Interp, fn *ssa.Function, a []Value) Value {
			t, u := in.timeArg(a[0]), in.timeArg(a[1])
			if t.Zero || u.Zero {
				// zero Time (year 1) is before every modelled instant
				switch {
				case t.Zero && u.Zero:
					return f(in, in.st.Const(64, 0), in.st.Const(64, 0))
				case t.Zero:
					return f(in, in.st.Const(64, 0), in.st.Const(64, 1))
				default:
					return f(in, in.st.Const(64, 1), in.st.Const(64, 0))
				}
			}
			return f(in, t.NS, u.NS)
		}
	}
	reg("(time.Time).After", cmp(func(in *Interp, x, y *Term) *Term { return in.st.SLt(y, x) }))
	reg("(time.Time).Before", cmp(func(in *Interp, x, y *Term) *Term { return in.st.SLt(x, y) }))
	reg("(time.Time).Equal", cmp(func(in *Interp, x, y *Term) *Term { return in.st.Eq(x, y) }))
	reg("(time.Time).Compare", cmp(func(in *Interp, x, y *Term) *Term {
		st := in.st
		return st.Ite(st.SLt(x, y), st.Const(64, ^uint64(0)), st.Ite(st.Eq(x, y), st.Const(64, 0), st.Const(64, 1)))
	}))
	reg("(time.Time).IsZero", func(in *Interp, fn *ssa.Function, a []Value) Value {
		return in.st.Bool(in.timeArg(a[0]).Zero)
	})
	reg("(time.Time).UnixNano", func(in *Interp, fn *ssa.Function, a []Value) Value {
		return in.timeArg(a[0]).NS
	})
	reg("(time.Time).Unix", func(in *Interp, fn *ssa.Function, a []Value) Value {
		st := in.st
		t := in.timeArg(a[0])
		if t.Zero {
			return st.Const(64, uint64(0xfffffff1886e0900)) // -62135596800
		}
		// floor division by 1e9 (Go: sec is floor for negative nanos too)
		q := st.SDiv(t.NS, st.Const(64, 1000000000))
		r := st.SRem(t.NS, st.Const(64, 1000000000))
		return st.Ite(st.SLt(r, st.Const(64, 0)), st.Sub(q, st.Const(64, 1)), q)
	})
	id := func(in *Interp, fn *ssa.Function, a []Value) Value { return a[0] }
	reg("(time.Time).UTC", id)
	reg("(time.Time).Local", id)
	reg("(time.Time).Round", id)
	reg("(time.Time).Truncate", id)
	reg("(time.Time).String", func(in *Interp, fn *ssa.Function, a []Value) Value { return StrV{S: "<time>"} })
	reg("(time.Time).Format", func(in *Interp, fn *ssa.Function, a []Value) Value { return StrV{S: "<time>"} })
	reg("time.Since", func(in *Interp, fn *ssa.Function, a []Value) Value {
		in.unsupported("time.Since (wall clock)")
		return nil
	})
}
