package sym

import (
	"fmt"
	"golang.org/x/tools/go/ssa"
)

// time.Time is modelled as a nanosecond counter since the Unix epoch
// (no monotonic reading, no location, no saturation on overflow). The zero
// Time is tracked by a concrete flag.
type TimeV struct {
	NS   *Term // BV64
	Zero bool
	Sec  *Term // set when built by time.Unix(sec, n) with a constant n in [0,1e9): Unix() is then exactly sec
}

func (in *Interp) timeArg(v Value) TimeV {
	t, ok := v.(TimeV)
	if !ok {
		in.unsupported("expected time.Time value")
	}
	return t
}

func registerTime(reg func(string, intrinsic)) {
	// clock stub: arbitrary non-decreasing instants in [0, 2^62) ns (year 1970..2116);
	// natively the real clock is used, so clock values are not part of a replay vector
	now := func(in *Interp) TimeV {
		st := in.st
		in.fresh++
		v := st.Var(fmt.Sprintf("clock!%d_%d", in.drawSeq, in.fresh), BV(64))
		in.addPC(st.ULt(v, st.Const(64, 1<<62)))
		if in.clockLast != nil {
			in.addPC(st.ULe(in.clockLast, v))
		}
		in.clockLast = v
		in.ex.noteStub("time.Now = arbitrary non-decreasing instant (clock stub); not part of the replay vector")
		return TimeV{NS: v}
	}
	reg("time.Now", func(in *Interp, fn *ssa.Function, a []Value) Value { return now(in) })
	reg("time.Unix", func(in *Interp, fn *ssa.Function, a []Value) Value {
		st := in.st
		sec, nsec := a[0].(*Term), a[1].(*Term)
		t := TimeV{NS: st.Add(st.Mul(sec, st.Const(64, 1000000000)), nsec)}
		if nsec.IsConst() && nsec.C < 1000000000 {
			t.Sec = sec
		}
		return t
	})
	reg("time.UnixMilli", func(in *Interp, fn *ssa.Function, a []Value) Value {
		st := in.st
		return TimeV{NS: st.Mul(a[0].(*Term), st.Const(64, 1000000))}
	})
	reg("(time.Time).Sub", func(in *Interp, fn *ssa.Function, a []Value) Value {
		t, u := in.timeArg(a[0]), in.timeArg(a[1])
		if t.Zero != u.Zero {
			in.unsupported("Sub between zero Time and non-zero Time")
		}
		return in.st.Sub(t.NS, u.NS)
	})
	reg("(time.Time).Add", func(in *Interp, fn *ssa.Function, a []Value) Value {
		t := in.timeArg(a[0])
		if t.Zero {
			in.unsupported("Add on zero Time")
		}
		return TimeV{NS: in.st.Add(t.NS, a[1].(*Term))}
	})
	cmp := func(f func(in *Interp, x, y *Term) *Term) intrinsic {
		return func(in *Interp, fn *ssa.Function, a []Value) Value {
			t, u := in.timeArg(a[0]), in.timeArg(a[1])
			if t.Zero || u.Zero {
				// zero Time (year 1) is before every modelled instant
				switch {
				case t.Zero && u.Zero:
					return f(in, in.st.Const(64, 0), in.st.Const(64, 0))
				case t.Zero:
					return f(in, in.st.Const(64, 0), in.st.Const(64, 1))
				default:
					return f(in, in.st.Const(64, 1), in.st.Const(64, 0))
				}
			}
			return f(in, t.NS, u.NS)
		}
	}
	reg("(time.Time).After", cmp(func(in *Interp, x, y *Term) *Term { return in.st.SLt(y, x) }))
	reg("(time.Time).Before", cmp(func(in *Interp, x, y *Term) *Term { return in.st.SLt(x, y) }))
	reg("(time.Time).Equal", cmp(func(in *Interp, x, y *Term) *Term { return in.st.Eq(x, y) }))
	reg("(time.Time).Compare", cmp(func(in *Interp, x, y *Term) *Term {
		st := in.st
		return st.Ite(st.SLt(x, y), st.Const(64, ^uint64(0)), st.Ite(st.Eq(x, y), st.Const(64, 0), st.Const(64, 1)))
	}))
	reg("(time.Time).IsZero", func(in *Interp, fn *ssa.Function, a []Value) Value {
		return in.st.Bool(in.timeArg(a[0]).Zero)
	})
	reg("(time.Time).UnixNano", func(in *Interp, fn *ssa.Function, a []Value) Value {
		return in.timeArg(a[0]).NS
	})
	reg("(time.Time).Unix", func(in *Interp, fn *ssa.Function, a []Value) Value {
		st := in.st
		t := in.timeArg(a[0])
		if t.Zero {
			return st.Const(64, uint64(0xfffffff1886e0900)) // -62135596800
		}
		if t.Sec != nil {
			return t.Sec
		}
		// floor division by 1e9 (Go: sec is floor for negative nanos too)
		q := st.SDiv(t.NS, st.Const(64, 1000000000))
		r := st.SRem(t.NS, st.Const(64, 1000000000))
		return st.Ite(st.SLt(r, st.Const(64, 0)), st.Sub(q, st.Const(64, 1)), q)
	})
	id := func(in *Interp, fn *ssa.Function, a []Value) Value { return a[0] }
	reg("(time.Time).UTC", id)
	reg("(time.Time).Local", id)
	reg("(time.Time).Round", id)
	reg("(time.Time).Truncate", id)
	reg("(time.Time).String", func(in *Interp, fn *ssa.Function, a []Value) Value { return StrV{S: "<time>"} })
	reg("(time.Time).Format", func(in *Interp, fn *ssa.Function, a []Value) Value { return StrV{S: "<time>"} })
	reg("time.Since", func(in *Interp, fn *ssa.Function, a []Value) Value {
		t := in.timeArg(a[0])
		if t.Zero {
			in.unsupported("time.Since(zero Time)")
		}
		return in.st.Sub(now(in).NS, t.NS)
	})
}
