package sym

import (
	"fmt"
	"go/types"
	"math/big"

	"golang.org/x/tools/go/ssa"
)

// math/big.Int is modelled as a mathematical integer (SMT Int).

func (in *Interp) bigLoc(v Value) *Loc {
	p, ok := v.(Ptr)
	if !ok || p.IsNil() {
		in.goPanic("nil *big.Int dereference")
	}
	if len(p.L) != 1 {
		in.unsupported("symbolic *big.Int pointer")
	}
	return p.L[0]
}

func (in *Interp) bigVal(v Value) *Term {
	l := in.bigLoc(v)
	b, ok := l.V.(BigV)
	if !ok {
		in.unsupported(fmt.Sprintf("big.Int loc holds %T", l.V))
	}
	return b.T
}

func (in *Interp) bigSet(recv Value, t *Term) Value {
	l := in.bigLoc(recv)
	l.V = BigV{t}
	return recv
}

func (in *Interp) newBig(fn *ssa.Function, t *Term) Value {
	pkg := in.prog.ImportedPackage("math/big")
	named := pkg.Type("Int").Type()
	l := &Loc{T: named, V: BigV{t}}
	return Ptr{L: []*Loc{l}}
}

func (in *Interp) pow2(n int) *Term {
	return in.st.IntConst(new(big.Int).Lsh(big.NewInt(1), uint(n)))
}

func (in *Interp) iabs(x *Term) *Term {
	st := in.st
	if x.IsConst() {
		return st.IntConst(new(big.Int).Abs(x.Big))
	}
	return st.Ite(st.ILt(x, st.IntConst64(0)), st.INeg(x), x)
}

// truncated division (Go Quo/Rem) from Euclidean SMT div/mod
func (in *Interp) iquo(x, y *Term) *Term {
	st := in.st
	if x.IsConst() && y.IsConst() && y.Big.Sign() != 0 {
		return st.IntConst(new(big.Int).Quo(x.Big, y.Big))
	}
	q := st.IDiv(in.iabs(x), in.iabs(y))
	neg := st.Not(st.Eq(st.ILt(x, st.IntConst64(0)), st.ILt(y, st.IntConst64(0))))
	return st.Ite(neg, st.INeg(q), q)
}

func (in *Interp) bigShiftAmount(v Value) (int, *Term) {
	t := v.(*Term)
	if t.IsConst() {
		return int(t.C), nil
	}
	return -1, t
}

const bigMaxBits = 2112

func registerBig(reg func(string, intrinsic)) {
	reg("math/big.NewInt", func(in *Interp, fn *ssa.Function, a []Value) Value {
		return in.newBig(fn, in.st.BV2Int(a[0].(*Term)))
	})
	bin := func(name string, f func(in *Interp, x, y *Term) *Term) {
		reg("(*math/big.Int)."+name, func(in *Interp, fn *ssa.Function, a []Value) Value {
			return in.bigSet(a[0], f(in, in.bigVal(a[1]), in.bigVal(a[2])))
		})
	}
	bin("Add", func(in *Interp, x, y *Term) *Term { return in.st.IAdd(x, y) })
	bin("Sub", func(in *Interp, x, y *Term) *Term { return in.st.ISub(x, y) })
	bin("Mul", func(in *Interp, x, y *Term) *Term { return in.st.IMul(x, y) })
	divz := func(in *Interp, y *Term) {
		if !in.fork2(in.st.Not(in.st.Eq(y, in.st.IntConst64(0)))) {
			in.goPanic("division by zero")
		}
	}
	bin("Div", func(in *Interp, x, y *Term) *Term { divz(in, y); return in.st.IDiv(x, y) })
	bin("Mod", func(in *Interp, x, y *Term) *Term { divz(in, y); return in.st.IMod(x, y) })
	bin("Quo", func(in *Interp, x, y *Term) *Term { divz(in, y); return in.iquo(x, y) })
	bin("Rem", func(in *Interp, x, y *Term) *Term {
		divz(in, y)
		return in.st.ISub(x, in.st.IMul(y, in.iquo(x, y)))
	})
	reg("(*math/big.Int).DivMod", func(in *Interp, fn *ssa.Function, a []Value) Value {
		x, y := in.bigVal(a[1]), in.bigVal(a[2])
		divz(in, y)
		q, m := in.st.IDiv(x, y), in.st.IMod(x, y)
		in.bigSet(a[3], m)
		return in.bigSet(a[0], q)
	})
	reg("(*math/big.Int).QuoRem", func(in *Interp, fn *ssa.Function, a []Value) Value {
		x, y := in.bigVal(a[1]), in.bigVal(a[2])
		divz(in, y)
		q := in.iquo(x, y)
		r := in.st.ISub(x, in.st.IMul(y, q))
		in.bigSet(a[3], r)
		return in.bigSet(a[0], q)
	})
	reg("(*math/big.Int).Set", func(in *Interp, fn *ssa.Function, a []Value) Value {
		return in.bigSet(a[0], in.bigVal(a[1]))
	})
	reg("(*math/big.Int).Neg", func(in *Interp, fn *ssa.Function, a []Value) Value {
		return in.bigSet(a[0], in.st.INeg(in.bigVal(a[1])))
	})
	reg("(*math/big.Int).Abs", func(in *Interp, fn *ssa.Function, a []Value) Value {
		return in.bigSet(a[0], in.iabs(in.bigVal(a[1])))
	})
	reg("(*math/big.Int).SetInt64", func(in *Interp, fn *ssa.Function, a []Value) Value {
		return in.bigSet(a[0], in.st.BV2Int(a[1].(*Term)))
	})
	reg("(*math/big.Int).SetUint64", func(in *Interp, fn *ssa.Function, a []Value) Value {
		return in.bigSet(a[0], in.st.BV2Nat(a[1].(*Term)))
	})
	reg("(*math/big.Int).SetBytes", func(in *Interp, fn *ssa.Function, a []Value) Value {
		bs := in.bytesOf(a[1])
		st := in.st
		acc := st.IntConst64(0)
		for _, b := range bs {
			acc = st.IAdd(st.IMul(acc, st.IntConst64(256)), st.BV2Nat(b))
		}
		return in.bigSet(a[0], acc)
	})
	reg("(*math/big.Int).Sign", func(in *Interp, fn *ssa.Function, a []Value) Value {
		st := in.st
		x := in.bigVal(a[0])
		z := st.IntConst64(0)
		return st.Ite(st.ILt(x, z), st.Const(64, ^uint64(0)), st.Ite(st.Eq(x, z), st.Const(64, 0), st.Const(64, 1)))
	})
	reg("(*math/big.Int).Cmp", func(in *Interp, fn *ssa.Function, a []Value) Value {
		st := in.st
		x, y := in.bigVal(a[0]), in.bigVal(a[1])
		return st.Ite(st.ILt(x, y), st.Const(64, ^uint64(0)), st.Ite(st.Eq(x, y), st.Const(64, 0), st.Const(64, 1)))
	})
	reg("(*math/big.Int).CmpAbs", func(in *Interp, fn *ssa.Function, a []Value) Value {
		st := in.st
		x, y := in.iabs(in.bigVal(a[0])), in.iabs(in.bigVal(a[1]))
		return st.Ite(st.ILt(x, y), st.Const(64, ^uint64(0)), st.Ite(st.Eq(x, y), st.Const(64, 0), st.Const(64, 1)))
	})
	reg("(*math/big.Int).Int64", func(in *Interp, fn *ssa.Function, a []Value) Value {
		return in.st.Int2BV(in.bigVal(a[0]), 64)
	})
	reg("(*math/big.Int).Uint64", func(in *Interp, fn *ssa.Function, a []Value) Value {
		return in.st.Int2BV(in.bigVal(a[0]), 64)
	})
	reg("(*math/big.Int).IsInt64", func(in *Interp, fn *ssa.Function, a []Value) Value {
		st := in.st
		x := in.bigVal(a[0])
		lo := st.IntConst(new(big.Int).Neg(new(big.Int).Lsh(big.NewInt(1), 63)))
		hi := st.IntConst(new(big.Int).Lsh(big.NewInt(1), 63))
		return st.And(st.ILe(lo, x), st.ILt(x, hi))
	})
	reg("(*math/big.Int).Lsh", func(in *Interp, fn *ssa.Function, a []Value) Value {
		st := in.st
		x := in.bigVal(a[1])
		n, sym := in.bigShiftAmount(a[2])
		if sym == nil {
			return in.bigSet(a[0], st.IMul(x, in.pow2(n)))
		}
		in.assumeShiftBound(sym)
		k := in.concretizeModel(sym, "big.Lsh amount", 300)
		return in.bigSet(a[0], st.IMul(x, in.pow2(int(k))))
	})
	reg("(*math/big.Int).Rsh", func(in *Interp, fn *ssa.Function, a []Value) Value {
		st := in.st
		x := in.bigVal(a[1])
		n, sym := in.bigShiftAmount(a[2])
		if sym == nil {
			return in.bigSet(a[0], st.IDiv(x, in.pow2(n)))
		}
		in.assumeShiftBound(sym)
		k := in.concretizeModel(sym, "big.Rsh amount", 300)
		return in.bigSet(a[0], st.IDiv(x, in.pow2(int(k))))
	})
	reg("(*math/big.Int).BitLen", func(in *Interp, fn *ssa.Function, a []Value) Value {
		st := in.st
		x := in.iabs(in.bigVal(a[0]))
		if x.IsConst() {
			return st.Const(64, uint64(x.Big.BitLen()))
		}
		in.boundBig(x)
		res := st.Const(64, 0)
		for i := 0; i < bigMaxBits; i++ {
			res = st.Ite(st.ILe(in.pow2(i), x), st.Const(64, uint64(i+1)), res)
		}
		return res
	})
	reg("(*math/big.Int).Bytes", func(in *Interp, fn *ssa.Function, a []Value) Value {
		st := in.st
		x := in.iabs(in.bigVal(a[0]))
		var n int
		if x.IsConst() {
			n = (x.Big.BitLen() + 7) / 8
		} else {
			in.boundBig(x)
			n = int(in.concretizeModel(in.unitLen(x, 8), "big.Bytes length", 300))
		}
		arr := in.newArrayLoc(types.Typ[types.Uint8], n)
		for j := 0; j < n; j++ {
			// byte j (big endian): (x div 256^(n-1-j)) mod 256
			arr.Kids[j].V = st.Int2BV(st.IDiv(x, in.pow2(8*(n-1-j))), 8)
		}
		return SliceV{Arr: arr, Len: n, Cap: n}
	})
	reg("(*math/big.Int).Bits", func(in *Interp, fn *ssa.Function, a []Value) Value {
		st := in.st
		x := in.iabs(in.bigVal(a[0]))
		var n int
		if x.IsConst() {
			n = (x.Big.BitLen() + 63) / 64
		} else {
			in.boundBig(x)
			n = int(in.concretizeModel(in.unitLen(x, 64), "big.Bits length", 40))
		}
		et := fn.Signature.Results().At(0).Type().Underlying().(*types.Slice).Elem()
		arr := in.newArrayLoc(et, n)
		for j := 0; j < n; j++ {
			arr.Kids[j].V = st.Int2BV(st.IDiv(x, in.pow2(64*j)), 64)
		}
		return SliceV{Arr: arr, Len: n, Cap: n}
	})
	reg("(*math/big.Int).String", func(in *Interp, fn *ssa.Function, a []Value) Value {
		p := a[0].(Ptr)
		if p.IsNil() {
			return StrV{S: "<nil>"}
		}
		x := in.bigVal(a[0])
		if x.IsConst() {
			return StrV{S: x.Big.String()}
		}
		return StrV{S: "<big>"}
	})
	reg("(*math/big.Int).SetString", func(in *Interp, fn *ssa.Function, a []Value) Value {
		s, ok := in.strConcrete(a[1].(StrV))
		base := in.argInt(a[2])
		if !ok {
			in.unsupported("big.SetString symbolic")
		}
		v, ok2 := new(big.Int).SetString(s, base)
		if !ok2 {
			return Tuple{Ptr{}, in.st.False}
		}
		in.bigSet(a[0], in.st.IntConst(v))
		return Tuple{a[0], in.st.True}
	})
	reg("(*math/big.Int).Exp", func(in *Interp, fn *ssa.Function, a []Value) Value {
		x, y := in.bigVal(a[1]), in.bigVal(a[2])
		var m *big.Int
		if p, ok := a[3].(Ptr); ok && !p.IsNil() {
			mt := in.bigVal(a[3])
			if !mt.IsConst() {
				in.unsupported("big.Exp symbolic modulus")
			}
			m = mt.Big
		}
		if !x.IsConst() || !y.IsConst() {
			in.unsupported("big.Exp symbolic")
		}
		return in.bigSet(a[0], in.st.IntConst(new(big.Int).Exp(x.Big, y.Big, m)))
	})
	reg("(*math/big.Int).Bit", func(in *Interp, fn *ssa.Function, a []Value) Value {
		x := in.bigVal(a[0])
		i := in.argInt(a[1])
		st := in.st
		return st.ZExt(st.Int2BV(st.IMod(st.IDiv(x, in.pow2(i)), st.IntConst64(2)), 1), 64)
	})
	reg("(*math/big.Int).ProbablyPrime", func(in *Interp, fn *ssa.Function, a []Value) Value {
		in.unsupported("ProbablyPrime")
		return nil
	})
}

// unitLen is the number of unit-bit digits of a non-negative Int x (0 for 0),
// as a BV64 term (an ite chain over the magnitudes below 2^bigMaxBits).
func (in *Interp) unitLen(x *Term, unit int) *Term {
	st := in.st
	res := st.Const(64, 0)
	for k := 1; (k-1)*unit < bigMaxBits; k++ {
		res = st.Ite(st.ILe(in.pow2(unit*(k-1)), x), st.Const(64, uint64(k)), res)
	}
	return res
}

func (in *Interp) assumeShiftBound(sym *Term) {
	ok := in.st.ULe(sym, in.st.Const(sym.S.W, bigMaxBits))
	if !in.fork2(ok) {
		in.ex.noteBound("big shift amount > 300")
		in.end("bound", "big.Int shift amount beyond 300 bits")
	}
}

func (in *Interp) boundBig(absx *Term) {
	ok := in.st.ILt(absx, in.pow2(bigMaxBits))
	if !in.fork2(ok) {
		in.ex.noteBound("big.Int magnitude > 2^300")
		in.end("bound", "big.Int beyond 2^300")
	}
}
