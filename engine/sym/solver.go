package sym

import (
	"os"
	"bufio"
	"fmt"
	"io"
	"math/big"
	"os/exec"
	"strings"
	"sync/atomic"
	"time"
)

type SatResult int

const (
	Unsat SatResult = iota
	Sat
	Unknown
)

func (r SatResult) String() string { return [...]string{"unsat", "sat", "unknown"}[r] }

// Solver is one long-lived SMT solver process fed over a pipe.
type Solver struct {
	Name                   string
	cmd                    *exec.Cmd
	in                     io.WriteCloser
	out                    *bufio.Reader
	emitted                map[int32]bool
	emittedUF              map[string]bool
	st                     *Store
	Queries                int
	Time                   time.Duration
	NSat, NUnsat, NUnknown int
	timeoutMs              int
	Log                    io.Writer
	dead                   bool
	axiomsSent             int
	Errors                 int
	watchdog               int32 // set when the hard wall-clock limit killed the process
	Killed                 int
	// Abstract: bvmul/bvudiv/bvurem/bvsdiv/bvsrem with a non-constant result are
	// sent as uninterpreted functions (plus the range lemmas x%c<c, x/c<=x).
	// Every model of the precise formula is a model of the abstract one, so an
	// abstract "unsat" is a precise "unsat"; an abstract "sat" proves nothing.
	Abstract bool
}

func solverArgv(name string, timeoutMs int) []string {
	switch name {
	case "z3":
		return []string{"z3", "-in", fmt.Sprintf("-t:%d", timeoutMs)}
	case "z3-new":
		return []string{"z3-new", "-in", fmt.Sprintf("-t:%d", timeoutMs)}
	case "cvc5":
		return []string{"cvc5", "--incremental", "--produce-models", "--lang=smt2", fmt.Sprintf("--tlimit-per=%d", timeoutMs)}
	case "cvc5-iand":
		return []string{"cvc5", "--incremental", "--produce-models", "--lang=smt2", "--solve-bv-as-int=iand", fmt.Sprintf("--tlimit-per=%d", timeoutMs)}
	}
	panic("unknown solver " + name)
}

func NewSolver(name string, st *Store, timeoutMs int) (*Solver, error) {
	s := &Solver{Name: name, st: st, timeoutMs: timeoutMs}
	if err := s.spawn(); err != nil {
		return nil, err
	}
	return s, nil
}

// spawn starts (or restarts) the solver process with an empty context.
func (s *Solver) spawn() error {
	argv := solverArgv(s.Name, s.timeoutMs)
	cmd := exec.Command(argv[0], argv[1:]...)
	in, err := cmd.StdinPipe()
	if err != nil {
		return err
	}
	outp, err := cmd.StdoutPipe()
	if err != nil {
		return err
	}
	cmd.Stderr = nil
	if err := cmd.Start(); err != nil {
		return err
	}
	s.cmd, s.in, s.out = cmd, in, bufio.NewReaderSize(outp, 1<<20)
	s.emitted, s.emittedUF = map[int32]bool{}, map[string]bool{}
	s.axiomsSent = 0
	s.dead = false
	atomic.StoreInt32(&s.watchdog, 0)
	if strings.HasPrefix(s.Name, "cvc5") {
		s.send("(set-logic ALL)\n")
	}
	s.send("(set-option :produce-models true)\n")
	return nil
}

func (s *Solver) Close() {
	if s.dead {
		return
	}
	s.dead = true
	s.in.Close()
	done := make(chan struct{})
	go func() { s.cmd.Wait(); close(done) }()
	select {
	case <-done:
	case <-time.After(2 * time.Second):
		s.cmd.Process.Kill()
	}
}

func (s *Solver) send(txt string) {
	if s.Log != nil {
		io.WriteString(s.Log, txt)
	}
	io.WriteString(s.in, txt)
}

// define makes sure t and everything below it is declared in the solver.
func (s *Solver) define(t *Term, b *strings.Builder) {
	if t.Op == OConst {
		return
	}
	if s.emitted[t.ID] {
		return
	}
	// iterative post-order to avoid deep recursion
	type fr struct {
		t *Term
		i int
	}
	stack := []fr{{t, 0}}
	for len(stack) > 0 {
		f := &stack[len(stack)-1]
		if f.t.Op == OConst || s.emitted[f.t.ID] {
			stack = stack[:len(stack)-1]
			continue
		}
		if f.i < len(f.t.Args) {
			a := f.t.Args[f.i]
			f.i++
			if a.Op != OConst && !s.emitted[a.ID] {
				stack = append(stack, fr{a, 0})
			}
			continue
		}
		x := f.t
		stack = stack[:len(stack)-1]
		s.emitted[x.ID] = true
		switch x.Op {
		case OVar:
			fmt.Fprintf(b, "(declare-const %s %s)\n", x.Name, x.S.SMT())
		case OFToBits:
			fmt.Fprintf(b, "(declare-const fpbits_%d (_ BitVec 64))\n", x.ID)
			fmt.Fprintf(b, "(define-fun t%d () (_ BitVec 64) fpbits_%d)\n", x.ID, x.ID)
			fmt.Fprintf(b, "(assert (or (fp.isNaN %s) (= ((_ to_fp 11 53) fpbits_%d) %s)))\n", x.Args[0].ref(), x.ID, x.Args[0].ref())
			fmt.Fprintf(b, "(assert (=> (fp.isNaN %s) (= fpbits_%d #x7ff8000000000001)))\n", x.Args[0].ref(), x.ID)
		default:
			if x.Op == OUF && !s.emittedUF[x.Name] {
				s.emittedUF[x.Name] = true
				b.WriteString(s.st.ufDecl[x.Name] + "\n")
			}
			if s.Abstract && x.S.K == KBV && (x.Op == OMul || x.Op == OUDiv || x.Op == OURem || x.Op == OSDiv || x.Op == OSRem) {
				nm := fmt.Sprintf("abs_%s_%d", opName[x.Op], x.S.W)
				if !s.emittedUF[nm] {
					s.emittedUF[nm] = true
					fmt.Fprintf(b, "(declare-fun %s (%s %s) %s)\n", nm, x.S.SMT(), x.S.SMT(), x.S.SMT())
				}
				fmt.Fprintf(b, "(define-fun t%d () %s (%s %s %s))\n", x.ID, x.S.SMT(), nm, x.Args[0].ref(), x.Args[1].ref())
				if c := x.Args[1]; c.IsConst() && c.C != 0 {
					switch x.Op {
					case OURem:
						fmt.Fprintf(b, "(assert (bvult t%d %s))\n", x.ID, c.ref())
					case OUDiv:
						fmt.Fprintf(b, "(assert (bvule t%d %s))\n", x.ID, x.Args[0].ref())
					}
				}
				continue
			}
			fmt.Fprintf(b, "(define-fun t%d () %s %s)\n", x.ID, x.S.SMT(), x.body())
		}
	}
}

// Check decides satisfiability of the conjunction of conds. If wantModel,
// values of vars are returned for Sat.
func (s *Solver) Check(conds []*Term, wantModel bool, vars []*Term) (SatResult, Model) {
	if s.dead {
		return Unknown, nil
	}
	t0 := time.Now()
	var b strings.Builder
	for _, c := range conds {
		s.define(c, &b)
	}
	if wantModel {
		for _, v := range vars {
			s.define(v, &b)
		}
	}
	b.WriteString("(push 1)\n")
	for _, c := range conds {
		fmt.Fprintf(&b, "(assert %s)\n", c.ref())
	}
	b.WriteString("(check-sat)\n(echo \"DONE-CHECK\")\n")
	// hard wall-clock limit: the solvers' own soft timeouts are not always
	// honoured (z3 4.8.12 inside FP/bit-blasting preprocessing); a killed
	// query is an "unknown", never a success.
	cmd := s.cmd
	hard := time.Duration(s.timeoutMs)*time.Millisecond*3/2 + 5*time.Second
	timer := time.AfterFunc(hard, func() {
		atomic.StoreInt32(&s.watchdog, 1)
		cmd.Process.Kill()
	})
	s.send(b.String())
	res := s.readResult()
	var m Model
	if res == Sat && wantModel && len(vars) > 0 && !s.dead {
		m = s.getValues(vars)
		if s.dead {
			res, m = Unknown, nil
		}
	}
	timer.Stop()
	if atomic.LoadInt32(&s.watchdog) == 1 {
		cmd.Wait()
		s.Killed++
		res, m = Unknown, nil
		if err := s.spawn(); err != nil {
			s.dead = true
		}
	} else if !s.dead {
		s.send("(pop 1)\n")
	}
	s.Queries++
	s.Time += time.Since(t0)
	switch res {
	case Sat:
		s.NSat++
	case Unsat:
		s.NUnsat++
	default:
		s.NUnknown++
	}
	return res, m
}

func (s *Solver) readResult() SatResult {
	res := Unknown
	sawErr := false
	for {
		line, err := s.out.ReadString('\n')
		if err != nil {
			s.dead = true
			return Unknown
		}
		line = strings.TrimSpace(line)
		if s.Log != nil && line != "" {
			fmt.Fprintf(s.Log, "; <- %s\n", line)
		}
		switch {
		case strings.Contains(line, "DONE-CHECK"):
			if sawErr {
				return Unknown
			}
			return res
		case line == "sat":
			res = Sat
		case line == "unsat":
			res = Unsat
		case line == "unknown" || line == "timeout":
			res = Unknown
		case strings.HasPrefix(line, "(error"):
			sawErr = true
			s.Errors++
			if s.Errors <= 2 && os.Getenv("SYMGO_ERRLOG") != "" {
				fmt.Fprintf(os.Stderr, "solver %s (abstract=%v): %s\n", s.Name, s.Abstract, line)
			}
		}
	}
}

// getValues asks for the values of vars in chunks and parses them.
func (s *Solver) getValues(vars []*Term) Model {
	m := Model{}
	const chunk = 200
	for i := 0; i < len(vars); i += chunk {
		j := i + chunk
		if j > len(vars) {
			j = len(vars)
		}
		var b strings.Builder
		b.WriteString("(get-value (")
		for _, v := range vars[i:j] {
			b.WriteString(v.ref() + " ")
		}
		b.WriteString("))\n(echo \"DONE-VALUES\")\n")
		s.send(b.String())
		txt := s.readUntil("DONE-VALUES")
		parseValues(txt, vars[i:j], m)
	}
	return m
}

func (s *Solver) readUntil(marker string) string {
	var b strings.Builder
	for {
		line, err := s.out.ReadString('\n')
		if err != nil {
			s.dead = true
			return b.String()
		}
		if strings.Contains(line, marker) {
			return b.String()
		}
		b.WriteString(line)
	}
}

// readSexp reads one balanced s-expression from the solver.
func (s *Solver) readSexp() string {
	var b strings.Builder
	depth := 0
	started := false
	for {
		c, err := s.out.ReadByte()
		if err != nil {
			s.dead = true
			return b.String()
		}
		b.WriteByte(c)
		if c == '(' {
			depth++
			started = true
		} else if c == ')' {
			depth--
		}
		if started && depth == 0 {
			return b.String()
		}
	}
}

func parseValues(txt string, vars []*Term, m Model) {
	// tokens
	toks := tokenize(txt)
	// expect ( ( name value ) ( name value ) ... )
	pos := 0
	next := func() string {
		if pos < len(toks) {
			t := toks[pos]
			pos++
			return t
		}
		return ""
	}
	var parseVal func() *big.Int
	parseVal = func() *big.Int {
		t := next()
		switch {
		case strings.HasPrefix(t, "#x"):
			v, _ := new(big.Int).SetString(t[2:], 16)
			return v
		case strings.HasPrefix(t, "#b"):
			v, _ := new(big.Int).SetString(t[2:], 2)
			return v
		case t == "true":
			return big.NewInt(1)
		case t == "false":
			return big.NewInt(0)
		case t == "(":
			op := next()
			switch op {
			case "-":
				v := parseVal()
				if pos < len(toks) && toks[pos] != ")" {
					v2 := parseVal()
					next()
					return new(big.Int).Sub(v, v2)
				}
				next() // )
				if v == nil {
					return nil
				}
				return new(big.Int).Neg(v)
			case "_":
				// (_ bvN w)
				n := next()
				next()
				next()
				if strings.HasPrefix(n, "bv") {
					v, _ := new(big.Int).SetString(n[2:], 10)
					return v
				}
				return nil
			default:
				// skip to matching paren
				d := 1
				for d > 0 && pos < len(toks) {
					tt := next()
					if tt == "(" {
						d++
					} else if tt == ")" {
						d--
					}
				}
				return nil
			}
		default:
			v, ok := new(big.Int).SetString(t, 10)
			if ok {
				return v
			}
			return nil
		}
	}
	if next() != "(" {
		return
	}
	for pos < len(toks) {
		t := next()
		if t != "(" {
			break
		}
		name := next()
		v := parseVal()
		next() // )
		if v != nil {
			m[name] = v
		}
	}
}

func tokenize(s string) []string {
	var toks []string
	i := 0
	for i < len(s) {
		c := s[i]
		switch {
		case c == '(' || c == ')':
			toks = append(toks, string(c))
			i++
		case c == ' ' || c == '\n' || c == '\t' || c == '\r':
			i++
		default:
			j := i
			for j < len(s) && !strings.ContainsRune("() \n\t\r", rune(s[j])) {
				j++
			}
			toks = append(toks, s[i:j])
			i = j
		}
	}
	return toks
}
