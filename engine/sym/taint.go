package sym

import (
	"fmt"
	"go/types"
	"strings"

	"golang.org/x/tools/go/ssa"
)

// Source tracking for "where does this secret come from" properties.
// Variables created by the process-global math/rand model ("rand_"), by a
// locally seeded generator (UF chain over its seed), and by the clock stub
// ("clock!") are INSECURE sources; variables created by crypto/rand are named
// "secure!". A value depends on an insecure source iff such a variable occurs
// in its term (syntactic dependence: an over-approximation of real dependence,
// reported together with a two-run native demonstration by the harness).

func insecureVar(name string) bool {
	return strings.HasPrefix(name, "rand_") || strings.HasPrefix(name, "clock!") || strings.HasPrefix(name, "randint!")
}

// substInsecure returns t with every insecure variable replaced by a fresh
// copy ("second run with the same secure draws and different insecure ones").
func (in *Interp) substInsecure(t *Term, memo map[int32]*Term) *Term {
	if r, ok := memo[t.ID]; ok {
		return r
	}
	var r *Term
	switch {
	case t.Op == OVar && insecureVar(t.Name):
		r = in.st.Var(t.Name+"'", t.S)
	case len(t.Args) == 0:
		r = t
	default:
		args := make([]*Term, len(t.Args))
		changed := false
		for i, a := range t.Args {
			args[i] = in.substInsecure(a, memo)
			if args[i] != a {
				changed = true
			}
		}
		if !changed {
			r = t
		} else {
			c := *t
			c.Args = args
			c.ID = 0
			r = in.st.mk(&c)
		}
	}
	memo[t.ID] = r
	return r
}

// dependsOnInsecure decides non-interference: is there a pair of runs with the
// same secure draws and different insecure draws (math/rand, clock) in which
// the value differs? When no insecure variable occurs in the terms the answer
// is "no" without a query; otherwise the solver is asked whether
// value != value[insecure := fresh] is satisfiable under the path condition.
func (in *Interp) dependsOnInsecure(ts []*Term) bool {
	if !in.mentionsInsecure(ts) {
		return false
	}
	memo := map[int32]*Term{}
	diff := in.st.False
	for _, t := range ts {
		t2 := in.substInsecure(t, memo)
		if t2 != t {
			diff = in.st.Or(diff, in.st.Not(in.st.Eq(t, t2)))
		}
	}
	r, _ := in.check(diff, false)
	if r == Unknown {
		in.ex.noteUnknown()
	}
	return r != Unsat
}

func (in *Interp) mentionsInsecure(ts []*Term) bool {
	seen := map[int32]bool{}
	var walk func(t *Term) bool
	walk = func(t *Term) bool {
		if t == nil || seen[t.ID] {
			return false
		}
		seen[t.ID] = true
		if t.Op == OVar && insecureVar(t.Name) {
			return true
		}
		for _, a := range t.Args {
			if walk(a) {
				return true
			}
		}
		return false
	}
	for _, t := range ts {
		if walk(t) {
			return true
		}
	}
	return false
}

func registerTaint(reg func(string, intrinsic)) {
	// nd.FromSecureSourceOnly(b []byte) bool
	reg(ndPkg+".FromSecureSourceOnly", func(in *Interp, fn *ssa.Function, a []Value) Value {
		return in.st.Bool(!in.dependsOnInsecure(in.bytesOf(a[0])))
	})
	// nd.Stub(name): calls of the named function return zero values on this path
	reg(ndPkg+".Stub", func(in *Interp, fn *ssa.Function, a []Value) Value {
		if in.stubbed == nil {
			in.stubbed = map[string]bool{}
		}
		name := in.argStr(a[0])
		in.stubbed[name] = true
		in.ex.noteStub("harness stub (returns zero values): " + name)
		return nil
	})
	// nd.StubReturn(name, first): calls of the named function return the given
	// byte slice as their first result and zero values for the others
	reg(ndPkg+".StubReturn", func(in *Interp, fn *ssa.Function, a []Value) Value {
		if in.stubRet == nil {
			in.stubRet = map[string]Value{}
		}
		name := in.argStr(a[0])
		in.stubRet[name] = a[1]
		in.ex.noteStub("harness stub (returns a harness-chosen first result, zero values for the rest): " + name)
		return nil
	})
	fill := func(in *Interp, v Value, what string) int {
		sl, ok := v.(SliceV)
		if !ok {
			in.unsupported("crypto/rand: destination is not a slice")
		}
		els := in.sliceElems(sl)
		for i, l := range els {
			in.fresh++
			in.storeLoc(l, in.st.Var(fmt.Sprintf("secure!%d_%d_%d", in.drawSeq, in.fresh, i), BV(8)))
		}
		in.ex.noteStub("crypto/rand = fresh 'secure' bytes (the operating system's generator is trusted)")
		return len(els)
	}
	reg("crypto/rand.Read", func(in *Interp, fn *ssa.Function, a []Value) Value {
		// a harness may replace crypto/rand.Reader (e.g. by a reader that fails): Read
		// then goes through that reader, as io.ReadFull(Reader, b) does for one call
		if g, ok := fn.Pkg.Members["Reader"].(*ssa.Global); ok {
			if iv, ok := in.loadLoc(in.globalLoc(g)).(IfaceV); ok && iv.T != nil {
				isOS := false
				if pt, ok := iv.T.(*types.Pointer); ok {
					if nt, ok := pt.Elem().(*types.Named); ok && nt.Obj().Name() == "reader" && nt.Obj().Pkg() != nil && nt.Obj().Pkg().Path() == "crypto/rand" {
						isOS = true
					}
				}
				if !isOS {
					it := g.Type().(*types.Pointer).Elem().Underlying().(*types.Interface)
					in.ex.noteStub("crypto/rand.Read with a harness-replaced Reader = one Read call of that reader")
					return in.invoke(iv, it.Method(0), []Value{a[0]})
				}
			}
		}
		n := fill(in, a[0], "Read")
		return Tuple{in.st.Const(64, uint64(n)), IfaceV{}}
	})
	// nd.CanDiffer(a, b []byte) bool: some values of the sources make the two byte strings differ
	reg(ndPkg+".CanDiffer", func(in *Interp, fn *ssa.Function, a []Value) Value {
		x, y := in.bytesOf(a[0]), in.bytesOf(a[1])
		if len(x) != len(y) {
			return in.st.True
		}
		diff := in.st.False
		for i := range x {
			diff = in.st.Or(diff, in.st.Not(in.st.Eq(x[i], y[i])))
		}
		r, _ := in.check(diff, false)
		if r == Unknown {
			in.ex.noteUnknown()
		}
		return in.st.Bool(r != Unsat)
	})
	reg("(*crypto/rand.reader).Read", func(in *Interp, fn *ssa.Function, a []Value) Value {
		n := fill(in, a[1], "Reader.Read")
		return Tuple{in.st.Const(64, uint64(n)), IfaceV{}}
	})
	// math/rand.Read (global source): insecure bytes
	reg("math/rand.Read", func(in *Interp, fn *ssa.Function, a []Value) Value {
		sl, ok := a[0].(SliceV)
		if !ok {
			in.unsupported("math/rand.Read: destination is not a slice")
		}
		els := in.sliceElems(sl)
		for _, l := range els {
			in.storeLoc(l, in.randDraw(8, "Read"))
		}
		return Tuple{in.st.Const(64, uint64(len(els))), IfaceV{}}
	})
}

var _ = types.Typ

// crypto/ecdsa.GenerateKey(curve, rand): the private scalar is a function of
// the bytes read from the reader argument (the reader is followed for real, so
// a non-secure reader taints the key); the public point is not modelled (nil
// coordinates) — curve arithmetic is outside the encoding.
func registerECDSA(reg func(string, intrinsic)) {
	reg("crypto/ecdsa.GenerateKey", func(in *Interp, fn *ssa.Function, a []Value) Value {
		r, ok := a[1].(IfaceV)
		if !ok || r.T == nil {
			in.goPanic("nil pointer dereference (nil io.Reader)")
		}
		m := in.prog.LookupMethod(r.T, nil, "Read")
		if m == nil {
			in.unsupported("ecdsa.GenerateKey: reader without Read")
		}
		buf := in.bytesToSlice(make([]*Term, 0))
		arr := in.newArrayLoc(types.Typ[types.Uint8], 32)
		buf = SliceV{Arr: arr, Len: 32, Cap: 32}
		in.callFn(m, []Value{r.V, buf}, nil)
		st := in.st
		acc := st.IntConst64(0)
		for _, b := range in.bytesOf(buf) {
			acc = st.IAdd(st.IMul(acc, st.IntConst64(256)), st.BV2Nat(b))
		}
		pkg := in.prog.ImportedPackage("crypto/ecdsa")
		pt := pkg.Type("PrivateKey")
		if pt == nil {
			in.unsupported("ecdsa.PrivateKey not found")
		}
		keyLoc := in.newLoc(pt.Type(), nil)
		bigT := in.prog.ImportedPackage("math/big").Type("Int").Type()
		dLoc := in.newLoc(bigT, BigV{acc})
		// PrivateKey{PublicKey{Curve, X, Y}, D}
		in.storeLoc(keyLoc.Kids[1], Ptr{L: []*Loc{dLoc}})
		in.ex.noteStub("ecdsa.GenerateKey: private scalar = integer value of 32 bytes read from the reader argument; public point not modelled")
		return Tuple{Ptr{L: []*Loc{keyLoc}}, IfaceV{}}
	})
}
