package sym

import (
	"fmt"
	"go/constant"
	"go/token"
	"go/types"
	"math/big"
	"os"
	"strings"
	"sync"

	"golang.org/x/tools/go/ssa"
)

// ---- control-flow signals (Go panics used for unwinding) ----

type pathEnd struct {
	Status string // done, assume, violation, unsupported, unwound, bound
	Msg    string
}

type goPanicV struct {
	Val  Value
	Msg  string
	Site string
	Func string
}

type Poison struct{ Why string }

type deferred struct {
	fn   *FuncV
	args []Value
	// invoke-mode
	recv   Value
	method *types.Func
}

type frame struct {
	fn        *ssa.Function
	env       []Value
	info      *fnInfo
	defers    []deferred
	prev      *ssa.BasicBlock
	panicking *goPanicV
	visits    map[*ssa.BasicBlock]int
	isPkgInit bool
	caller    *frame
	curInstr  ssa.Instruction
}

type fnInfo struct {
	idx      map[ssa.Value]int
	n        int
	hasDefer bool
}

var fnInfos sync.Map

var debugInit = os.Getenv("SYMGO_DEBUG_INIT") != ""

func getFnInfo(fn *ssa.Function) *fnInfo {
	if x, ok := fnInfos.Load(fn); ok {
		return x.(*fnInfo)
	}
	fi := &fnInfo{idx: map[ssa.Value]int{}}
	add := func(v ssa.Value) {
		fi.idx[v] = fi.n
		fi.n++
	}
	for _, p := range fn.Params {
		add(p)
	}
	for _, p := range fn.FreeVars {
		add(p)
	}
	for _, b := range fn.Blocks {
		for _, ins := range b.Instrs {
			if v, ok := ins.(ssa.Value); ok {
				add(v)
			}
			if _, ok := ins.(*ssa.Defer); ok {
				fi.hasDefer = true
			}
		}
	}
	if fn.Recover != nil {
		fi.hasDefer = true
	}
	fnInfos.Store(fn, fi)
	return fi
}

type Config struct {
	MaxSymLen  int // concretisation bound for symbolic lengths
	Unwind     int // per-frame block visit bound
	MaxSteps   int64
	MaxDepth   int
	ModulePath string
	RepoDir    string
}

type Violation struct {
	Func    string
	Harness string
	ID      string // assertion id or panic class
	Site    string
	Msg     string
	Model   Model
	Draws   []Draw
	Trace   []int
}

type Draw struct {
	Name string `json:"name"`
	Kind string `json:"kind"`
	Var  string `json:"var,omitempty"`
	W    int    `json:"w,omitempty"`
	N    int    `json:"n,omitempty"`
	Val  string `json:"val"` // decimal (or hex bytes for Bytes)
	vars []*Term
}

type Interp struct {
	prog   *ssa.Program
	st     *Store
	solver *Solver
	cfg    Config
	ex     *Explorer

	// per path
	pc             []*Term
	pcSet          map[int32]bool
	pending        int // pc conjuncts not yet asserted in solver
	prefix         []int
	trace          []int
	pos            int
	globals        map[*ssa.Global]*Loc
	pkgInit        map[*ssa.Package]bool
	steps          int64
	depth          int
	draws          []Draw
	drawSeq        int
	reached        map[string]bool
	allocLimit     int64 // <0: not armed
	allocTotal     *Term
	recoverFr      *frame
	curFrame       *frame
	hashApps       map[string][]hashApp
	randState      *Term
	notes          []string
	maxSymLen      int
	unwind         int
	harness        string
	funcCache      map[*ssa.Function]intrinsic
	fresh          int
	mapOrderNondet bool
	envHavoc       map[string]bool
	noPanicDepth   int
	inHarnessTop   bool
	insecureTaint  map[int32]bool
	fallbacks      map[string]*Solver
	prefers        []*Term
	crcStreams     map[*Loc][]*Term
	clockLast      *Term
	randStates     map[*Loc]*Term
	stubbed        map[string]bool
	stubRet        map[string]Value
	keyPairs       map[string][]*Term
	sigFacts       []sigFact
	randPre        []*Term // pre-allocated math/rand draws (nd.RandInts)
	abstractArith  bool    // nd.AbstractArith(): see Solver.Abstract
	absSolver      *Solver // lazily started abstract-arithmetic solver
	feasQuery      bool    // the current check is a branch-feasibility query

	// stats (per worker, cumulative)
	Instrs  int64
	Paths   int64
	encoded map[string]bool
}

type hashApp struct {
	in  []*Term
	out []*Term
}

func NewInterp(prog *ssa.Program, cfg Config, ex *Explorer) *Interp {
	in := &Interp{prog: prog, cfg: cfg, ex: ex, st: NewStore(), funcCache: map[*ssa.Function]intrinsic{}, encoded: map[string]bool{}}
	return in
}

func (in *Interp) resetPath(prefix []int) {
	in.pc = in.pc[:0]
	in.pcSet = map[int32]bool{}
	in.pending = 0
	in.prefix = prefix
	in.trace = in.trace[:0]
	in.pos = 0
	in.globals = map[*ssa.Global]*Loc{}
	in.pkgInit = map[*ssa.Package]bool{}
	in.steps = 0
	in.depth = 0
	in.draws = nil
	in.drawSeq = 0
	in.reached = map[string]bool{}
	in.allocLimit = -1
	in.allocTotal = nil
	in.recoverFr = nil
	in.hashApps = map[string][]hashApp{}
	in.randState = nil
	in.notes = nil
	in.maxSymLen = in.cfg.MaxSymLen
	in.unwind = in.cfg.Unwind
	in.fresh = 0
	in.mapOrderNondet = false
	in.noPanicDepth = 0
	in.insecureTaint = map[int32]bool{}
	in.prefers = nil
	in.abstractArith = false
	in.randPre = nil
	in.crcStreams = nil
	in.clockLast = nil
	in.randStates = nil
	in.stubbed = nil
	in.stubRet = nil
	in.keyPairs = nil
	in.sigFacts = nil
}

func (in *Interp) end(status, msg string) {
	panic(&pathEnd{status, msg})
}

func (in *Interp) unsupported(msg string) {
	site := ""
	if in.curFrame != nil && in.curFrame.curInstr != nil {
		site = in.posOf(in.curFrame.curInstr) + " in " + in.curFrame.fn.String()
		if os.Getenv("SYMGO_STACK") != "" {
			for f := in.curFrame.caller; f != nil; f = f.caller {
				site += " <- " + f.fn.String()
			}
		}
	}
	panic(&pathEnd{"unsupported", msg + " @ " + site})
}

func (in *Interp) posOf(ins ssa.Instruction) string {
	p := ins.Pos()
	if !p.IsValid() {
		// search nearby instruction with a position
		if b := ins.Block(); b != nil {
			for _, x := range b.Instrs {
				if x.Pos().IsValid() {
					p = x.Pos()
					break
				}
			}
		}
	}
	if !p.IsValid() && ins.Parent() != nil {
		p = ins.Parent().Pos()
	}
	if !p.IsValid() {
		return "?"
	}
	ps := in.prog.Fset.Position(p)
	f := ps.Filename
	if rd := in.cfg.RepoDir; rd != "" && strings.HasPrefix(f, rd+"/") {
		f = f[len(rd)+1:]
	} else if i := strings.Index(f, "/repo/"); i >= 0 {
		f = f[i+6:]
	} else if i := strings.LastIndex(f, "/src/"); i >= 0 {
		f = f[i+5:]
	}
	return fmt.Sprintf("%s:%d", f, ps.Line)
}

func (in *Interp) goPanic(msg string) {
	site := ""
	if in.curFrame != nil && in.curFrame.curInstr != nil {
		site = in.posOf(in.curFrame.curInstr)
	}
	panic(&goPanicV{Val: IfaceV{T: types.Typ[types.String], V: StrV{S: msg}}, Msg: msg, Site: site, Func: in.curFuncName()})
}

// ---- path condition & decisions ----

func (in *Interp) addPC(c *Term) {
	if c.IsTrue() || in.pcSet[c.ID] {
		return
	}
	in.pcSet[c.ID] = true
	in.pc = append(in.pc, c)
}

func (in *Interp) check(extra *Term, wantModel bool) (SatResult, Model) {
	conds := make([]*Term, 0, len(in.pc)+1)
	conds = append(conds, in.pc...)
	if extra != nil {
		conds = append(conds, extra)
	}
	var vars []*Term
	if wantModel {
		vars = in.st.Vars
	}
	if in.abstractArith && !wantModel {
		if in.absSolver == nil || in.absSolver.dead {
			if s, err := NewSolver(in.ex.SolverName, in.st, in.ex.TimeoutMs); err == nil {
				s.Abstract = true
				in.absSolver = s
			}
		}
		if in.absSolver != nil {
			ra, _ := in.absSolver.Check(conds, false, nil)
			if ra == Unsat {
				return Unsat, nil
			}
			if ra == Sat && in.feasQuery {
				// over-approximate feasibility: an infeasible branch may be explored,
				// but every violation and reach marker is re-decided precisely
				return Sat, nil
			}
		}
	}
	r, m := in.solver.Check(conds, wantModel, vars)
	if r == Unknown {
		// portfolio fallback: other back ends, each a persistent process
		for _, name := range in.ex.Fallbacks {
			fb := in.fallback(name)
			if fb == nil {
				continue
			}
			r2, m2 := fb.Check(conds, wantModel, vars)
			if r2 != Unknown {
				in.ex.noteFallback(name)
				r, m = r2, m2
				break
			}
		}
	}
	if r == Unsat && in.ex != nil && in.ex.xcheck != "" {
		r2 := in.ex.crossCheck(in, conds)
		if r2 == Sat {
			in.ex.noteDisagree()
			return Unknown, nil
		}
	}
	return r, m
}

func (in *Interp) fallback(name string) *Solver {
	if in.fallbacks == nil {
		in.fallbacks = map[string]*Solver{}
	}
	if s, ok := in.fallbacks[name]; ok && !s.dead {
		return s
	}
	s, err := NewSolver(name, in.st, in.ex.FallbackTimeoutMs)
	if err != nil {
		return nil
	}
	in.fallbacks[name] = s
	return s
}

func (in *Interp) closeFallbacks() {
	for _, s := range in.fallbacks {
		in.ex.mu.Lock()
		in.ex.Queries += s.Queries
		in.ex.SolverTime += s.Time
		in.ex.NSat += s.NSat
		in.ex.NUnsat += s.NUnsat
		in.ex.mu.Unlock()
		s.Close()
	}
	in.fallbacks = nil
}

// decide picks one of alts (exhaustive if exh) and schedules the others.
func (in *Interp) decide(alts []*Term, exh bool) int {
	if in.pos < len(in.prefix) {
		a := in.prefix[in.pos]
		in.pos++
		in.trace = append(in.trace, a)
		if a < 0 || a >= len(alts) {
			in.end("unsupported", "replay divergence (nondeterministic interpreter)")
		}
		in.addPC(alts[a])
		return a
	}
	var feas []int
	for i, a := range alts {
		if a.IsFalse() {
			continue
		}
		if in.pcSet[a.ID] || a.IsTrue() {
			feas = append(feas, i)
			continue
		}
		if in.pcSet[in.st.Not(a).ID] {
			continue
		}
		if exh && i == len(alts)-1 && len(feas) == 0 {
			feas = append(feas, i)
			break
		}
		in.feasQuery = true
		r, _ := in.check(a, false)
		in.feasQuery = false
		if r != Unsat {
			if r == Unknown {
				in.ex.noteUnknown()
			}
			feas = append(feas, i)
		}
	}
	if len(feas) == 0 {
		in.end("assume", "no feasible alternative")
	}
	base := append([]int(nil), in.trace...)
	for _, f := range feas[1:] {
		p := append(append([]int(nil), base...), f)
		in.ex.push(p)
	}
	c := feas[0]
	in.pos++
	in.trace = append(in.trace, c)
	in.addPC(alts[c])
	return c
}

func (in *Interp) fork2(c *Term) bool {
	if c.IsTrue() {
		return true
	}
	if c.IsFalse() {
		return false
	}
	if in.pcSet[c.ID] {
		return true
	}
	if in.pcSet[in.st.Not(c).ID] {
		return false
	}
	return in.decide([]*Term{c, in.st.Not(c)}, true) == 0
}

func (in *Interp) assume(c *Term) {
	if c.IsTrue() {
		return
	}
	if c.IsFalse() {
		in.end("assume", "")
	}
	in.decide([]*Term{c}, false)
}

// concretize forks on the value of t in [0,max]; values above end the path
// with status "bound".
func (in *Interp) concretize(t *Term, max int, what string) int {
	if t.IsConst() {
		v := sext64(t.C, t.S.W)
		if t.S.W < 64 {
			v = int64(t.C)
		}
		if v < 0 || v > 1<<24 {
			in.end("unsupported", fmt.Sprintf("%s: concrete length %d out of engine range", what, v))
		}
		return int(v)
	}
	alts := make([]*Term, 0, max+2)
	for i := 0; i <= max; i++ {
		alts = append(alts, in.st.Eq(t, in.st.Const(t.S.W, uint64(i))))
	}
	alts = append(alts, in.st.Not(in.st.ULe(t, in.st.Const(t.S.W, uint64(max)))))
	k := in.decide(alts, true)
	if k == max+1 {
		in.ex.noteBound(what)
		in.end("bound", what+": symbolic length beyond bound")
	}
	return k
}

// concretizeModel makes t concrete by asking the solver for feasible values
// one at a time (value v: fork t==v / t!=v). Cheap when few values are
// feasible. At most maxAlts values are explored; a remaining feasible
// residual is recorded as a bound cut.
func (in *Interp) concretizeModel(t *Term, what string, maxAlts int) uint64 {
	if t.IsConst() {
		return t.C
	}
	st := in.st
	mk := func(v uint64) *Term {
		if t.S.K == KInt {
			return st.Eq(t, st.IntConst(new(big.Int).SetUint64(v)))
		}
		return st.Eq(t, st.Const(t.S.W, v))
	}
	for iter := 0; ; iter++ {
		if in.pos < len(in.prefix) {
			e := in.prefix[in.pos]
			in.pos++
			in.trace = append(in.trace, e)
			if e >= 0 {
				in.addPC(mk(uint64(e)))
				return uint64(e)
			}
			in.addPC(st.Not(mk(uint64(-(e + 1)))))
			continue
		}
		conds := append([]*Term(nil), in.pc...)
		r, m := in.solver.Check(conds, true, []*Term{t})
		if r == Unknown {
			for _, name := range in.ex.Fallbacks {
				if fb := in.fallback(name); fb != nil {
					r, m = fb.Check(conds, true, []*Term{t})
					if r != Unknown {
						break
					}
				}
			}
		}
		if r == Unsat {
			in.end("assume", "no feasible value for "+what)
		}
		if r == Unknown {
			in.ex.noteUnknown()
			in.end("unknown", "solver unknown while concretising "+what)
		}
		bv, ok := m[t.ref()]
		if !ok {
			bv = new(big.Int)
		}
		if !bv.IsUint64() || bv.Uint64() > 1<<40 {
			in.ex.noteBound(what + ": value too large to concretise")
			in.end("bound", what+": infeasible to concretise")
		}
		v := bv.Uint64()
		eq := mk(v)
		ne := st.Not(eq)
		rne, _ := in.check(ne, false)
		if rne != Unsat {
			if rne == Unknown {
				in.ex.noteUnknown()
			}
			if iter+1 < maxAlts {
				p := append(append([]int(nil), in.trace...), -(int(v) + 1))
				in.ex.push(p)
			} else {
				in.ex.noteBound(what + ": more feasible values than explored")
			}
		}
		in.pos++
		in.trace = append(in.trace, int(v))
		in.addPC(eq)
		return v
	}
}

func (in *Interp) violation(id, msg string) {
	site := ""
	if in.curFrame != nil && in.curFrame.curInstr != nil {
		site = in.posOf(in.curFrame.curInstr)
	}
	in.violationAt(id, msg, site)
}

func (in *Interp) curFuncName() string {
	if in.curFrame == nil {
		return ""
	}
	fn := in.curFrame.fn
	for fn.Parent() != nil {
		fn = fn.Parent()
	}
	return strings.ReplaceAll(fn.String(), "github.com/elastos/Elastos.ELA/", "")
}

func (in *Interp) violationAt(id, msg, site string) {
	in.violationAtF(id, msg, site, in.curFuncName())
}

func (in *Interp) violationAtF(id, msg, site, fname string) {
	// a violation of the same assertion at the same site is already recorded:
	// do not pay for another (possibly expensive) exact model
	// ... except that up to 4 different scenarios (different nd.Choose
	// decisions) are kept per assertion, so that a model which does not replay
	// natively (e.g. one that needs a chosen hash value) does not hide a
	// scenario that does
	in.ex.mu.Lock()
	base := in.harness + "|" + id + "|" + site
	dup := in.ex.vioSeen[base+"|"+in.chooseSig()] || in.ex.vioCount[base] >= 4
	in.ex.mu.Unlock()
	if dup {
		in.end("violation", id+": "+msg+" (duplicate of a recorded violation)")
	}
	var r SatResult
	var m Model
	if len(in.prefers) > 0 {
		// try the model that also satisfies the replay hints first
		p := in.st.True
		for _, x := range in.prefers {
			p = in.st.And(p, x)
		}
		r, m = in.check(p, true)
		if r != Sat {
			r, m = in.check(nil, true)
		}
	} else {
		r, m = in.check(nil, true)
	}
	if r == Unsat {
		in.end("assume", "violation path infeasible")
	}
	if r == Unknown {
		in.ex.noteUnknown()
		in.ex.noteInconclusive(fmt.Sprintf("violation %s at %s: solver unknown on final check", id, site))
		in.end("unknown", "final check unknown")
	}
	v := &Violation{Func: fname, Harness: in.harness, ID: id, Site: site, Msg: msg, Model: m, Trace: append([]int(nil), in.trace...)}
	for _, d := range in.draws {
		d2 := d
		d2.Val = in.drawValue(d, m)
		v.Draws = append(v.Draws, d2)
	}
	in.ex.addViolation(v)
	in.end("violation", id+": "+msg)
}

// chooseSig is the sequence of nd.Choose decisions taken on this path.
func (in *Interp) chooseSig() string {
	var b strings.Builder
	for _, d := range in.draws {
		if d.Kind == "choose" {
			b.WriteString(d.Val)
			b.WriteByte(',')
		}
	}
	return b.String()
}

func (in *Interp) drawValue(d Draw, m Model) string {
	get := func(t *Term) *big.Int {
		if t.IsConst() {
			if t.S.K == KInt {
				return t.Big
			}
			return new(big.Int).SetUint64(t.C)
		}
		if v, ok := m[t.Name]; ok {
			return v
		}
		return new(big.Int)
	}
	if d.Kind == "bytes" {
		var sb strings.Builder
		for _, t := range d.vars {
			fmt.Fprintf(&sb, "%02x", get(t).Uint64()&0xff)
		}
		return sb.String()
	}
	if d.Kind == "choose" {
		return d.Val
	}
	if d.Kind == "randints" {
		var parts []string
		for _, t := range d.vars {
			parts = append(parts, get(t).String())
		}
		return strings.Join(parts, ",")
	}
	if len(d.vars) == 1 {
		return get(d.vars[0]).String()
	}
	return d.Val
}

// ---- values from SSA operands ----

func (in *Interp) constValue(c *ssa.Const) Value {
	t := c.Type()
	if c.Value == nil {
		return in.zero(t)
	}
	switch u := t.Underlying().(type) {
	case *types.Basic:
		switch {
		case u.Info()&types.IsBoolean != 0:
			return in.st.Bool(constant.BoolVal(c.Value))
		case u.Info()&types.IsString != 0:
			return StrV{S: constant.StringVal(c.Value)}
		case u.Info()&types.IsInteger != 0:
			s, _ := in.sortOfBasic(u)
			if v, ok := constant.Int64Val(constant.ToInt(c.Value)); ok {
				return in.st.Const(s.W, uint64(v))
			}
			v, _ := constant.Uint64Val(constant.ToInt(c.Value))
			return in.st.Const(s.W, v)
		case u.Info()&types.IsFloat != 0:
			f, _ := constant.Float64Val(c.Value)
			if u.Kind() == types.Float32 {
				f = float64(float32(f))
			}
			return in.st.FPConst(f)
		}
	}
	in.unsupported("const of type " + t.String())
	return nil
}

func (in *Interp) get(fr *frame, v ssa.Value) Value {
	switch x := v.(type) {
	case *ssa.Const:
		return in.constValue(x)
	case *ssa.Global:
		return Ptr{L: []*Loc{in.globalLoc(x)}}
	case *ssa.Function:
		return &FuncV{Fn: x}
	case *ssa.Builtin:
		return &FuncV{Blt: x}
	}
	i, ok := fr.info.idx[v]
	if !ok {
		in.unsupported("unknown ssa value " + v.Name())
	}
	r := fr.env[i]
	if r == nil {
		in.unsupported("use of undefined ssa value " + v.Name() + " in " + fr.fn.String())
	}
	return r
}

func (in *Interp) term(fr *frame, v ssa.Value) *Term {
	x := in.get(fr, v)
	t, ok := x.(*Term)
	if !ok {
		in.unsupported(fmt.Sprintf("expected scalar, got %T for %s", x, v.Name()))
	}
	return t
}

func (in *Interp) initAllowed(p *ssa.Package) bool {
	path := p.Pkg.Path()
	if strings.HasPrefix(path, in.cfg.ModulePath) {
		return true
	}
	switch path {
	case "errors", "io", "bytes", "strings", "sort", "math", "encoding/binary", "encoding/hex", "strconv",
		"unicode/utf8", "container/list", "bufio", "encoding/base64", "io/ioutil", "math/bits", "hash/crc32", "crypto/sha256", "time", "math/rand", "context", "crypto/elliptic", "unicode", "encoding/json", "net":
		return path != "time" && path != "math/rand" && path != "crypto/elliptic" && path != "unicode" && path != "encoding/json" && path != "net" && path != "crypto/sha256" && path != "hash/crc32"
	}
	return false
}

func (in *Interp) globalLoc(g *ssa.Global) *Loc {
	if l, ok := in.globals[g]; ok {
		return l
	}
	pkg := g.Pkg
	if pkg != nil && !in.pkgInit[pkg] {
		in.pkgInit[pkg] = true
		if in.initAllowed(pkg) {
			if initFn := pkg.Func("init"); initFn != nil && len(initFn.Blocks) > 0 {
				saved := in.curFrame
				fr := in.newFrame(initFn, nil, nil)
				fr.isPkgInit = true
				in.runFrame(fr)
				in.curFrame = saved
			}
		}
		if l, ok := in.globals[g]; ok {
			return l
		}
	}
	et := g.Type().(*types.Pointer).Elem()
	l := in.newLoc(et, nil)
	l.Tag = g.String()
	in.globals[g] = l
	if pkg != nil && pkg.Pkg.Path() == "crypto/rand" && g.Name() == "Reader" {
		// crypto/rand's init is not run: Reader is the package's *reader, whose
		// Read is modelled as fresh "secure" bytes
		if rt := pkg.Type("reader"); rt != nil {
			l.V = IfaceV{T: types.NewPointer(rt.Type()), V: Ptr{L: []*Loc{in.newLoc(rt.Type(), nil)}}}
		}
	}
	return l
}

// ---- frames ----

func (in *Interp) newFrame(fn *ssa.Function, args []Value, env []Value) *frame {
	fi := getFnInfo(fn)
	fr := &frame{fn: fn, info: fi, env: make([]Value, fi.n)}
	if len(args) != len(fn.Params) {
		in.unsupported(fmt.Sprintf("arity mismatch calling %s: %d vs %d", fn, len(args), len(fn.Params)))
	}
	copy(fr.env, args)
	copy(fr.env[len(fn.Params):], env)
	return fr
}

func (in *Interp) callFn(fn *ssa.Function, args []Value, env []Value) Value {
	if intr := in.lookupIntrinsic(fn); intr != nil {
		return intr(in, fn, args)
	}
	if len(fn.Blocks) == 0 {
		in.unsupported("external function " + fn.String())
	}
	if in.depth > in.cfg.MaxDepth {
		in.unsupported("call depth exceeded at " + fn.String())
	}
	if !in.encoded[fn.String()] {
		in.encoded[fn.String()] = true
	}
	fr := in.newFrame(fn, args, env)
	fr.caller = in.curFrame
	in.depth++
	saved := in.curFrame
	var ret Value
	if fr.info.hasDefer {
		ret = in.runWithDefers(fr)
	} else {
		ret = in.runFrame(fr)
	}
	in.curFrame = saved
	in.depth--
	return ret
}

func (in *Interp) callValue(f Value, args []Value) Value {
	fv, ok := f.(*FuncV)
	if !ok || fv == nil {
		if ok && fv == nil {
			in.goPanic("call of nil function")
		}
		in.unsupported(fmt.Sprintf("call of %T", f))
	}
	if fv.Blt != nil {
		return in.callBuiltin(fv.Blt, args, nil)
	}
	return in.callFn(fv.Fn, args, fv.Env)
}

func (in *Interp) runWithDefers(fr *frame) (ret Value) {
	saved := in.curFrame
	savedDepth := in.depth
	defer func() {
		r := recover()
		if r == nil {
			return
		}
		gp, ok := r.(*goPanicV)
		if !ok {
			panic(r)
		}
		in.curFrame = saved
		in.depth = savedDepth
		fr.panicking = gp
		in.runDefers(fr)
		if fr.panicking == nil {
			// recovered
			if fr.fn.Recover != nil {
				ret = in.runFrom(fr, fr.fn.Recover)
			} else {
				ret = in.zeroResults(fr.fn)
			}
			return
		}
		panic(fr.panicking)
	}()
	return in.runFrame(fr)
}

func (in *Interp) zeroResults(fn *ssa.Function) Value {
	res := fn.Signature.Results()
	switch res.Len() {
	case 0:
		return nil
	case 1:
		return in.zero(res.At(0).Type())
	}
	return in.zero(res)
}

func (in *Interp) runDefers(fr *frame) {
	for len(fr.defers) > 0 {
		d := fr.defers[len(fr.defers)-1]
		fr.defers = fr.defers[:len(fr.defers)-1]
		savedRec := in.recoverFr
		in.recoverFr = fr
		func() {
			defer func() {
				in.recoverFr = savedRec
				if r := recover(); r != nil {
					if gp, ok := r.(*goPanicV); ok {
						// a deferred call panicked: replaces current panic, keep running defers
						fr.panicking = gp
						return
					}
					panic(r)
				}
			}()
			in.curFrame = fr
			if d.method != nil {
				in.invoke(d.recv, d.method, d.args)
			} else {
				in.callValue(d.fn, d.args)
			}
		}()
	}
}

func (in *Interp) runFrame(fr *frame) Value {
	return in.runFrom(fr, fr.fn.Blocks[0])
}

func (in *Interp) runFrom(fr *frame, b *ssa.BasicBlock) Value {
	in.curFrame = fr
	for {
		if fr.visits == nil {
			fr.visits = map[*ssa.BasicBlock]int{}
		}
		fr.visits[b]++
		if fr.visits[b] > in.unwind {
			in.ex.noteUnwind(fr.fn.String())
			in.end("unwound", "loop bound exceeded in "+fr.fn.String())
		}
		// phis first (parallel assignment)
		np := 0
		var phiVals []Value
		for _, ins := range b.Instrs {
			phi, ok := ins.(*ssa.Phi)
			if !ok {
				break
			}
			np++
			var pv Value
			for i, p := range b.Preds {
				if p == fr.prev {
					pv = in.get(fr, phi.Edges[i])
					break
				}
			}
			phiVals = append(phiVals, pv)
		}
		for i := 0; i < np; i++ {
			fr.env[fr.info.idx[b.Instrs[i].(*ssa.Phi)]] = phiVals[i]
		}
		var next *ssa.BasicBlock
		for _, ins := range b.Instrs[np:] {
			in.steps++
			in.Instrs++
			if in.steps > in.cfg.MaxSteps {
				in.ex.noteUnwind("step budget in " + fr.fn.String())
				in.end("unwound", "step budget exceeded")
			}
			fr.curInstr = ins
			switch x := ins.(type) {
			case *ssa.If:
				c := in.term(fr, x.Cond)
				if in.fork2(c) {
					next = b.Succs[0]
				} else {
					next = b.Succs[1]
				}
			case *ssa.Jump:
				next = b.Succs[0]
			case *ssa.Return:
				switch len(x.Results) {
				case 0:
					return nil
				case 1:
					return in.get(fr, x.Results[0])
				}
				tp := make(Tuple, len(x.Results))
				for i, r := range x.Results {
					tp[i] = in.get(fr, r)
				}
				return tp
			case *ssa.Panic:
				v := in.get(fr, x.X)
				msg := "panic"
				if iv, ok := v.(IfaceV); ok {
					if s, ok := iv.V.(StrV); ok {
						if cs, ok := in.strConcrete(s); ok {
							msg = "panic: " + cs
						}
					}
				}
				panic(&goPanicV{Val: v, Msg: msg, Site: in.posOf(ins), Func: in.curFuncName()})
			default:
				if fr.isPkgInit {
					in.execInitInstr(fr, ins)
				} else {
					in.exec(fr, ins)
				}
			}
		}
		if next == nil {
			in.unsupported("block without terminator")
		}
		fr.prev = b
		b = next
	}
}

func (in *Interp) execInitInstr(fr *frame, ins ssa.Instruction) {
	defer func() {
		if r := recover(); r != nil {
			pe, ok := r.(*pathEnd)
			if ok && pe.Status == "unsupported" {
				in.curFrame = fr
				if v, ok := ins.(ssa.Value); ok {
					fr.env[fr.info.idx[v]] = Poison{pe.Msg}
				}
				if debugInit {
					fmt.Fprintf(os.Stderr, "init poison in %s: %s\n", fr.fn, pe.Msg)
				}
				return
			}
			if gp, ok := r.(*goPanicV); ok {
				in.curFrame = fr
				if v, ok := ins.(ssa.Value); ok {
					fr.env[fr.info.idx[v]] = Poison{"panic in init: " + gp.Msg}
				}
				if debugInit {
					fmt.Fprintf(os.Stderr, "init panic in %s: %s at %s\n", fr.fn, gp.Msg, gp.Site)
				}
				return
			}
			panic(r)
		}
	}()
	// skip dependency init calls
	if c, ok := ins.(*ssa.Call); ok {
		if f := c.Call.StaticCallee(); f != nil && f.Name() == "init" && f.Pkg != nil && f.Pkg != fr.fn.Pkg && f.Signature.Recv() == nil && len(f.Params) == 0 {
			return
		}
	}
	in.exec(fr, ins)
}

func (in *Interp) set(fr *frame, v ssa.Value, val Value) {
	fr.env[fr.info.idx[v]] = val
}

func (in *Interp) exec(fr *frame, ins ssa.Instruction) {
	st := in.st
	switch x := ins.(type) {
	case *ssa.DebugRef:
	case *ssa.Alloc:
		et := x.Type().(*types.Pointer).Elem()
		l := in.newLoc(et, nil)
		in.set(fr, x, Ptr{L: []*Loc{l}})
	case *ssa.UnOp:
		in.set(fr, x, in.unop(fr, x))
	case *ssa.BinOp:
		in.set(fr, x, in.binop(x.Op, in.get(fr, x.X), in.get(fr, x.Y), x.X.Type(), x.Y.Type()))
	case *ssa.Store:
		p, ok := in.get(fr, x.Addr).(Ptr)
		if !ok {
			in.unsupported("store through non-pointer")
		}
		in.store(p, in.get(fr, x.Val))
	case *ssa.Call:
		r := in.doCall(fr, &x.Call)
		in.curFrame = fr
		if r == nil && x.Type() != nil {
			if tup, ok := x.Type().(*types.Tuple); !ok || tup.Len() > 0 {
				// function with results returned nil (intrinsic misuse)
				if !(ok && tup.Len() == 0) {
					in.unsupported("call returned no value: " + x.String())
				}
			}
		}
		in.set(fr, x, r)
	case *ssa.Defer:
		d := deferred{}
		for _, a := range x.Call.Args {
			d.args = append(d.args, in.get(fr, a))
		}
		if x.Call.IsInvoke() {
			d.recv = in.get(fr, x.Call.Value)
			d.method = x.Call.Method
		} else {
			fv, ok := in.get(fr, x.Call.Value).(*FuncV)
			if !ok {
				in.unsupported("defer of non-func")
			}
			d.fn = fv
		}
		fr.defers = append(fr.defers, d)
	case *ssa.RunDefers:
		in.runDefers(fr)
		in.curFrame = fr
		if fr.panicking != nil {
			p := fr.panicking
			fr.panicking = nil
			panic(p)
		}
	case *ssa.Go:
		in.unsupported("go statement")
	case *ssa.Send:
		in.unsupported("channel send")
	case *ssa.Select:
		if x.Blocking {
			in.unsupported("blocking select")
		}
		// non-blocking: take default (a legal schedule). index -1, recvOk false, plus zero recv values
		tp := Tuple{st.Const(64, ^uint64(0)), st.False}
		for _, s := range x.States {
			if s.Dir == types.RecvOnly {
				tp = append(tp, in.zero(s.Chan.Type().Underlying().(*types.Chan).Elem()))
			}
		}
		in.set(fr, x, tp)
	case *ssa.MakeChan:
		in.fresh++
		in.set(fr, x, &ChanV{in.fresh})
	case *ssa.ChangeType:
		in.set(fr, x, in.get(fr, x.X))
	case *ssa.ChangeInterface:
		in.set(fr, x, in.get(fr, x.X))
	case *ssa.Convert:
		in.set(fr, x, in.convert(in.get(fr, x.X), x.X.Type(), x.Type()))
	case *ssa.MultiConvert:
		in.set(fr, x, in.convert(in.get(fr, x.X), x.X.Type(), x.Type()))
	case *ssa.MakeInterface:
		in.set(fr, x, IfaceV{T: x.X.Type(), V: in.get(fr, x.X)})
	case *ssa.MakeClosure:
		fv := &FuncV{Fn: x.Fn.(*ssa.Function)}
		for _, b := range x.Bindings {
			fv.Env = append(fv.Env, in.get(fr, b))
		}
		in.set(fr, x, fv)
	case *ssa.MakeMap:
		in.set(fr, x, &MapObj{T: x.Type().Underlying().(*types.Map)})
	case *ssa.MakeSlice:
		in.set(fr, x, in.makeSlice(fr, x))
	case *ssa.Extract:
		tp, ok := in.get(fr, x.Tuple).(Tuple)
		if !ok {
			in.unsupported("extract from non-tuple")
		}
		in.set(fr, x, tp[x.Index])
	case *ssa.Field:
		a, ok := in.get(fr, x.X).(*Agg)
		if !ok {
			in.unsupported(fmt.Sprintf("field of %T", in.get(fr, x.X)))
		}
		in.set(fr, x, a.E[x.Field])
	case *ssa.FieldAddr:
		p, ok := in.get(fr, x.X).(Ptr)
		if !ok {
			in.unsupported(fmt.Sprintf("fieldaddr of %T", in.get(fr, x.X)))
		}
		if p.IsNil() {
			in.goPanic("nil pointer dereference")
		}
		np := Ptr{Sel: p.Sel, L: make([]*Loc, len(p.L))}
		for i, l := range p.L {
			if l.Kids == nil {
				in.unsupported(fmt.Sprintf("fieldaddr into leaf loc of type %v (value %T)", l.T, l.V))
			}
			np.L[i] = l.Kids[x.Field]
		}
		in.set(fr, x, np)
	case *ssa.Index:
		in.set(fr, x, in.indexValue(fr, x))
	case *ssa.IndexAddr:
		in.set(fr, x, in.indexAddr(fr, x))
	case *ssa.Lookup:
		in.set(fr, x, in.lookup(fr, x))
	case *ssa.MapUpdate:
		m, _ := in.get(fr, x.Map).(*MapObj)
		if m == nil {
			in.goPanic("assignment to entry in nil map")
		}
		in.mapSet(m, in.get(fr, x.Key), in.get(fr, x.Value))
	case *ssa.Range:
		v := in.get(fr, x.X)
		switch c := v.(type) {
		case *MapObj:
			it := &MapIter{}
			if c != nil {
				it.ents = append(it.ents, c.Ent...)
				if in.mapOrderNondet && len(it.ents) > 1 {
					in.permute(it.ents)
				}
			}
			in.set(fr, x, it)
		case StrV:
			if _, ok := in.strConcrete(c); !ok {
				in.unsupported("range over symbolic string")
			}
			s, _ := in.strConcrete(c)
			in.set(fr, x, &MapIter{str: &StrV{S: s}})
		default:
			in.unsupported("range over " + fmt.Sprintf("%T", v))
		}
	case *ssa.Next:
		it := in.get(fr, x.Iter).(*MapIter)
		if x.IsString {
			s := it.str.S
			if it.i >= len(s) {
				in.set(fr, x, Tuple{st.False, st.Const(64, 0), st.Const(32, 0)})
			} else {
				var r rune
				var sz int
				for j, c := range s[it.i:] {
					if j == 0 {
						r = c
						sz = len(string(c))
						if c == 0xFFFD {
							sz = 1
						}
					}
					break
				}
				in.set(fr, x, Tuple{st.True, st.Const(64, uint64(it.i)), st.Const(32, uint64(r))})
				it.i += sz
			}
		} else {
			if it.i >= len(it.ents) {
				mt := x.Iter.(*ssa.Range).X.Type().Underlying().(*types.Map)
				in.set(fr, x, Tuple{st.False, in.zero(mt.Key()), in.zero(mt.Elem())})
			} else {
				e := it.ents[it.i]
				it.i++
				in.set(fr, x, Tuple{st.True, e.K, e.V})
			}
		}
	case *ssa.Slice:
		in.set(fr, x, in.sliceOp(fr, x))
	case *ssa.SliceToArrayPointer:
		s := in.get(fr, x.X).(SliceV)
		at := x.Type().(*types.Pointer).Elem().Underlying().(*types.Array)
		n := int(at.Len())
		if s.Len < n {
			in.goPanic("slice to array pointer: length too short")
		}
		if s.Arr == nil {
			in.set(fr, x, Ptr{})
		} else {
			l := &Loc{T: at, Kids: s.Arr.Kids[s.Off : s.Off+n]}
			in.set(fr, x, Ptr{L: []*Loc{l}})
		}
	case *ssa.TypeAssert:
		in.set(fr, x, in.typeAssert(fr, x))
	default:
		in.unsupported(fmt.Sprintf("instruction %T", ins))
	}
}

func (in *Interp) permute(ents []*MapEnt) {
	// solver-free nondeterministic permutation via forks (Fisher-Yates with Choose)
	for i := len(ents) - 1; i > 0; i-- {
		alts := make([]*Term, i+1)
		for j := range alts {
			alts[j] = in.st.True
		}
		// all alternatives trivially feasible: use decide with fresh boolean structure
		k := in.chooseFree(i + 1)
		ents[i], ents[k] = ents[k], ents[i]
	}
}

// chooseFree forks k ways without constraints.
func (in *Interp) chooseFree(k int) int {
	if k <= 1 {
		return 0
	}
	in.fresh++
	v := in.st.Var(fmt.Sprintf("choose!%d", in.drawSeq), BV(8))
	in.drawSeq++
	alts := make([]*Term, k)
	for j := 0; j < k-1; j++ {
		alts[j] = in.st.Eq(v, in.st.Const(8, uint64(j)))
	}
	alts[k-1] = in.st.Not(in.st.ULt(v, in.st.Const(8, uint64(k-1))))
	return in.decide(alts, true)
}

func (in *Interp) doCall(fr *frame, c *ssa.CallCommon) Value {
	args := make([]Value, 0, len(c.Args)+1)
	if c.IsInvoke() {
		recv := in.get(fr, c.Value)
		for _, a := range c.Args {
			args = append(args, in.get(fr, a))
		}
		return in.invoke(recv, c.Method, args)
	}
	for _, a := range c.Args {
		args = append(args, in.get(fr, a))
	}
	switch f := c.Value.(type) {
	case *ssa.Builtin:
		return in.callBuiltin(f, args, c)
	case *ssa.Function:
		return in.callFn(f, args, nil)
	}
	return in.callValue(in.get(fr, c.Value), args)
}

func (in *Interp) invoke(recv Value, m *types.Func, args []Value) Value {
	if len(in.stubbed) > 0 && in.stubbed[m.FullName()] {
		// harness stub of an interface method (e.g. elliptic.Curve.Add): zero results
		res := m.Type().(*types.Signature).Results()
		switch res.Len() {
		case 0:
			return nil
		case 1:
			return in.zero(res.At(0).Type())
		}
		return in.zero(res)
	}
	iv, ok := recv.(IfaceV)
	if !ok {
		if _, isP := recv.(Poison); isP {
			in.unsupported("invoke on poisoned value: " + recv.(Poison).Why)
		}
		in.unsupported(fmt.Sprintf("invoke on %T", recv))
	}
	if m.Pkg() != nil && strings.HasSuffix(m.Pkg().Path(), "/utils/elalog") {
		// logging is a no-op (loggers are never the subject of a property)
		res := m.Type().(*types.Signature).Results()
		switch res.Len() {
		case 0:
			return nil
		case 1:
			return in.zero(res.At(0).Type())
		}
		return in.zero(res)
	}
	if iv.T == nil {
		in.goPanic("nil interface method call: " + m.Name())
	}
	fn := in.prog.LookupMethod(iv.T, m.Pkg(), m.Name())
	if fn == nil {
		in.unsupported("method not found: " + iv.T.String() + "." + m.Name())
	}
	return in.callFn(fn, append([]Value{iv.V}, args...), nil)
}

func (in *Interp) typeAssert(fr *frame, x *ssa.TypeAssert) Value {
	v := in.get(fr, x.X)
	iv, ok := v.(IfaceV)
	if !ok {
		in.unsupported(fmt.Sprintf("typeassert on %T", v))
	}
	var okb bool
	var res Value
	if types.IsInterface(x.AssertedType) {
		if iv.T != nil {
			it := x.AssertedType.Underlying().(*types.Interface)
			okb = types.Implements(iv.T, it)
		}
		if okb {
			res = iv
		} else {
			res = IfaceV{}
		}
	} else {
		okb = iv.T != nil && types.Identical(iv.T, x.AssertedType)
		if okb {
			res = iv.V
		} else {
			res = in.zero(x.AssertedType)
		}
	}
	if x.CommaOk {
		return Tuple{res, in.st.Bool(okb)}
	}
	if !okb {
		in.goPanic("interface conversion: type assertion failed to " + x.AssertedType.String())
	}
	return res
}

// ---- slices, indexes ----

func (in *Interp) elemSize(t types.Type) int64 {
	sz := in.prog.ImportedPackage // dummy to keep import
	_ = sz
	return sizes.Sizeof(t)
}

var sizes = types.SizesFor("gc", "amd64")

func (in *Interp) lenTerm(fr *frame, v ssa.Value) *Term {
	t := in.term(fr, v)
	w := t.S.W
	if w < 64 {
		if isSigned(v.Type()) {
			return in.st.SExt(t, 64)
		}
		return in.st.ZExt(t, 64)
	}
	return t
}

func (in *Interp) makeSlice(fr *frame, x *ssa.MakeSlice) Value {
	st := in.st
	et := x.Type().Underlying().(*types.Slice).Elem()
	ln := in.lenTerm(fr, x.Len)
	cp := in.lenTerm(fr, x.Cap)
	esz := in.elemSize(et)
	if esz == 0 {
		esz = 1
	}
	// runtime.makeslice panics: len<0, len>cap, cap*esz overflow / > maxAlloc (2^47)
	bad := st.Or(st.SLt(ln, st.Const(64, 0)), st.Or(st.SLt(cp, ln), st.Not(st.ULe(cp, st.Const(64, uint64((1<<47)/esz))))))
	if !in.fork2(st.Not(bad)) {
		in.goPanic("makeslice: len or cap out of range")
	}
	in.allocCheck(cp, esz)
	n := in.concretize(ln, in.maxSymLen, "make len")
	c := n
	if cp != ln {
		c = in.concretize(cp, in.maxSymLen*4+64, "make cap")
	}
	if c > 1<<22 {
		in.unsupported("make: concrete size too large")
	}
	arr := in.newArrayLoc(et, c)
	return SliceV{Arr: arr, Off: 0, Len: n, Cap: c}
}

// allocCheck applies the allocation oracle to count*esz bytes.
func (in *Interp) allocCheck(count *Term, esz int64) {
	if in.allocLimit < 0 {
		return
	}
	st := in.st
	if count.IsConst() {
		if int64(count.C)*esz > in.allocLimit {
			in.violation("alloc", fmt.Sprintf("allocation of %d bytes exceeds oracle limit %d", int64(count.C)*esz, in.allocLimit))
		}
		return
	}
	lim := uint64(in.allocLimit / esz)
	ok := st.ULe(count, st.Const(64, lim))
	if !in.fork2(ok) {
		in.violation("alloc", fmt.Sprintf("allocation sized by input can exceed %d bytes (elem size %d)", in.allocLimit, esz))
	}
}

func (in *Interp) idxTerm(fr *frame, v ssa.Value) *Term {
	return in.lenTerm(fr, v)
}

func (in *Interp) boundsCheck(idx *Term, n int, what string) {
	st := in.st
	ok := st.ULt(idx, st.Const(64, uint64(n)))
	if !in.fork2(ok) {
		in.goPanic(fmt.Sprintf("index out of range [%s] with length %d", what, n))
	}
}

func (in *Interp) elemPtr(kids []*Loc, idx *Term) Ptr {
	if idx.IsConst() {
		return Ptr{L: []*Loc{kids[idx.C]}}
	}
	if len(kids) == 1 {
		return Ptr{L: []*Loc{kids[0]}}
	}
	if len(kids) > 256 {
		k := in.concretize(idx, len(kids)-1, "index")
		return Ptr{L: []*Loc{kids[k]}}
	}
	return Ptr{L: append([]*Loc(nil), kids...), Sel: idx}
}

func (in *Interp) indexAddr(fr *frame, x *ssa.IndexAddr) Value {
	base := in.get(fr, x.X)
	idx := in.idxTerm(fr, x.Index)
	switch b := base.(type) {
	case SliceV:
		in.boundsCheck(idx, b.Len, "slice")
		return in.elemPtr(b.Arr.Kids[b.Off:b.Off+b.Len], idx)
	case Ptr: // pointer to array
		if b.IsNil() {
			in.goPanic("nil pointer dereference")
		}
		if len(b.L) != 1 {
			// nested symbolic: concretise outer selection
			k := in.concretize(b.Sel, len(b.L)-1, "nested index")
			b = Ptr{L: []*Loc{b.L[k]}}
		}
		l := b.L[0]
		in.boundsCheck(idx, len(l.Kids), "array")
		return in.elemPtr(l.Kids, idx)
	}
	in.unsupported(fmt.Sprintf("indexaddr on %T", base))
	return nil
}

func (in *Interp) indexValue(fr *frame, x *ssa.Index) Value {
	base := in.get(fr, x.X)
	idx := in.idxTerm(fr, x.Index)
	switch b := base.(type) {
	case *Agg:
		in.boundsCheck(idx, len(b.E), "array")
		if idx.IsConst() {
			return b.E[idx.C]
		}
		var res Value
		for i := len(b.E) - 1; i >= 0; i-- {
			if res == nil {
				res = b.E[i]
				continue
			}
			res = in.merge(in.st.Eq(idx, in.st.Const(64, uint64(i))), b.E[i], res)
		}
		return res
	case StrV:
		return in.strIndex(b, idx)
	}
	in.unsupported(fmt.Sprintf("index on %T", base))
	return nil
}

func (in *Interp) strIndex(b StrV, idx *Term) Value {
	n := b.Len()
	in.boundsCheck(idx, n, "string")
	if idx.IsConst() {
		return in.strByte(b, int(idx.C))
	}
	var res *Term
	for i := n - 1; i >= 0; i-- {
		if res == nil {
			res = in.strByte(b, i)
			continue
		}
		res = in.st.Ite(in.st.Eq(idx, in.st.Const(64, uint64(i))), in.strByte(b, i), res)
	}
	return res
}

func (in *Interp) lookup(fr *frame, x *ssa.Lookup) Value {
	base := in.get(fr, x.X)
	if s, ok := base.(StrV); ok {
		return in.strIndex(s, in.idxTerm(fr, x.Index))
	}
	m, ok := base.(*MapObj)
	if !ok {
		in.unsupported(fmt.Sprintf("lookup on %T", base))
	}
	mt := x.X.Type().Underlying().(*types.Map)
	v, found := in.mapGet(m, in.get(fr, x.Index))
	if !found {
		v = in.zero(mt.Elem())
	}
	if x.CommaOk {
		return Tuple{v, in.st.Bool(found)}
	}
	return v
}

func (in *Interp) mapFind(m *MapObj, k Value) int {
	if m == nil {
		return -1
	}
	for i, e := range m.Ent {
		eq := in.valEq(e.K, k)
		if in.fork2(eq) {
			return i
		}
	}
	return -1
}

func (in *Interp) mapGet(m *MapObj, k Value) (Value, bool) {
	i := in.mapFind(m, k)
	if i < 0 {
		return nil, false
	}
	return m.Ent[i].V, true
}

func (in *Interp) mapSet(m *MapObj, k, v Value) {
	i := in.mapFind(m, k)
	if i >= 0 {
		m.Ent[i] = &MapEnt{K: m.Ent[i].K, V: v}
		return
	}
	m.Ent = append(m.Ent, &MapEnt{K: k, V: v})
}

func (in *Interp) mapDelete(m *MapObj, k Value) {
	i := in.mapFind(m, k)
	if i >= 0 {
		m.Ent = append(append([]*MapEnt(nil), m.Ent[:i]...), m.Ent[i+1:]...)
	}
}

func (in *Interp) sliceOp(fr *frame, x *ssa.Slice) Value {
	base := in.get(fr, x.X)
	var lo, hi, mx *Term
	if x.Low != nil {
		lo = in.idxTerm(fr, x.Low)
	}
	if x.High != nil {
		hi = in.idxTerm(fr, x.High)
	}
	if x.Max != nil {
		mx = in.idxTerm(fr, x.Max)
	}
	st := in.st
	var arr *Loc
	var off, ln, cp int
	isStr := false
	var sv StrV
	switch b := base.(type) {
	case SliceV:
		arr, off, ln, cp = b.Arr, b.Off, b.Len, b.Cap
	case Ptr:
		if b.IsNil() {
			in.goPanic("nil pointer dereference")
		}
		if len(b.L) != 1 {
			in.unsupported("slice of symbolic pointer")
		}
		arr, off, ln, cp = b.L[0], 0, len(b.L[0].Kids), len(b.L[0].Kids)
	case StrV:
		isStr = true
		sv = b
		ln = b.Len()
		cp = ln
	default:
		in.unsupported(fmt.Sprintf("slice of %T", base))
	}
	if lo == nil {
		lo = st.Const(64, 0)
	}
	if hi == nil {
		hi = st.Const(64, uint64(ln))
	}
	limit := cp
	if isStr {
		limit = ln
	}
	if mx != nil {
		ok := st.ULe(mx, st.Const(64, uint64(cp)))
		if !in.fork2(ok) {
			in.goPanic("slice bounds out of range [::max]")
		}
		ok = st.ULe(hi, mx)
		if !in.fork2(ok) {
			in.goPanic("slice bounds out of range [:hi:max]")
		}
	} else {
		ok := st.ULe(hi, st.Const(64, uint64(limit)))
		if !in.fork2(ok) {
			in.goPanic(fmt.Sprintf("slice bounds out of range [:hi] with capacity %d", limit))
		}
	}
	ok := st.ULe(lo, hi)
	if !in.fork2(ok) {
		in.goPanic("slice bounds out of range [lo:hi]")
	}
	l := in.concretize(lo, limit, "slice lo")
	h := in.concretize(hi, limit, "slice hi")
	if isStr {
		if sv.Sym != nil {
			return in.mkStr(sv.Sym[l:h])
		}
		return StrV{S: sv.S[l:h]}
	}
	ncap := cp - l
	if mx != nil {
		m := in.concretize(mx, cp, "slice max")
		ncap = m - l
	}
	if arr == nil {
		return SliceV{}
	}
	return SliceV{Arr: arr, Off: off + l, Len: h - l, Cap: ncap}
}

func (in *Interp) sliceElems(s SliceV) []*Loc {
	if s.Arr == nil {
		return nil
	}
	return s.Arr.Kids[s.Off : s.Off+s.Len]
}

// ---- builtins ----

func (in *Interp) callBuiltin(b *ssa.Builtin, args []Value, c *ssa.CallCommon) Value {
	st := in.st
	switch b.Name() {
	case "len":
		switch x := args[0].(type) {
		case SliceV:
			return st.Const(64, uint64(x.Len))
		case StrV:
			return st.Const(64, uint64(x.Len()))
		case *MapObj:
			if x == nil {
				return st.Const(64, 0)
			}
			return st.Const(64, uint64(len(x.Ent)))
		case *Agg:
			return st.Const(64, uint64(len(x.E)))
		case Ptr:
			if x.IsNil() {
				return st.Const(64, 0)
			}
			return st.Const(64, uint64(len(x.L[0].Kids)))
		case *ChanV:
			return st.Const(64, 0)
		}
	case "cap":
		switch x := args[0].(type) {
		case SliceV:
			return st.Const(64, uint64(x.Cap))
		case *Agg:
			return st.Const(64, uint64(len(x.E)))
		case Ptr:
			if x.IsNil() {
				return st.Const(64, 0)
			}
			return st.Const(64, uint64(len(x.L[0].Kids)))
		case *ChanV:
			return st.Const(64, 0)
		}
	case "append":
		return in.appendOp(args[0].(SliceV), args[1], b)
	case "copy":
		return st.Const(64, uint64(in.copyOp(args[0].(SliceV), args[1])))
	case "delete":
		m, _ := args[0].(*MapObj)
		if m != nil {
			in.mapDelete(m, args[1])
		}
		return nil
	case "print", "println":
		return nil
	case "recover":
		if in.recoverFr != nil && in.recoverFr.panicking != nil {
			v := in.recoverFr.panicking.Val
			in.recoverFr.panicking = nil
			if iv, ok := v.(IfaceV); ok {
				return iv
			}
			return IfaceV{T: types.Typ[types.String], V: StrV{S: "panic"}}
		}
		return IfaceV{}
	case "ssa:wrapnilchk":
		if p, ok := args[0].(Ptr); ok && p.IsNil() {
			in.goPanic("value method called using nil pointer")
		}
		return args[0]
	case "min", "max":
		r := args[0]
		for _, a := range args[1:] {
			x, y := r.(*Term), a.(*Term)
			var lt *Term
			t := c.Args[0].Type()
			if isFloat(t) {
				lt = st.FLt(y, x)
			} else if isSigned(t) {
				lt = st.SLt(y, x)
			} else {
				lt = st.ULt(y, x)
			}
			if b.Name() == "max" {
				lt = st.Not(st.Or(lt, st.Eq(x, y)))
			}
			r = st.Ite(lt, y, x)
		}
		return r
	case "clear":
		switch x := args[0].(type) {
		case *MapObj:
			if x != nil {
				x.Ent = nil
			}
		case SliceV:
			if x.Arr != nil {
				et := x.Arr.T.Underlying().(*types.Array).Elem()
				for _, l := range in.sliceElems(x) {
					in.storeLoc(l, in.zero(et))
				}
			}
		}
		return nil
	case "close":
		return nil
	}
	in.unsupported("builtin " + b.Name() + fmt.Sprintf(" on %T", args[0]))
	return nil
}

func (in *Interp) appendOp(s SliceV, more Value, b *ssa.Builtin) Value {
	var vals []Value
	switch m := more.(type) {
	case SliceV:
		for _, l := range in.sliceElems(m) {
			vals = append(vals, in.loadLoc(l))
		}
	case StrV:
		for i := 0; i < m.Len(); i++ {
			vals = append(vals, in.strByte(m, i))
		}
	default:
		in.unsupported(fmt.Sprintf("append of %T", more))
	}
	if len(vals) == 0 {
		return s
	}
	need := s.Len + len(vals)
	if s.Arr != nil && need <= s.Cap {
		for i, v := range vals {
			in.storeLoc(s.Arr.Kids[s.Off+s.Len+i], v)
		}
		return SliceV{Arr: s.Arr, Off: s.Off, Len: need, Cap: s.Cap}
	}
	// grow
	var et types.Type
	if s.Arr != nil {
		et = s.Arr.T.Underlying().(*types.Array).Elem()
	} else {
		et = b.Type().(*types.Signature).Params().At(0).Type().Underlying().(*types.Slice).Elem()
	}
	ncap := s.Cap * 2
	if ncap < need {
		ncap = need
	}
	if ncap < 4 {
		ncap = 4
	}
	if in.allocLimit >= 0 {
		in.allocCheck(in.st.Const(64, uint64(ncap)), maxi64(in.elemSize(et), 1))
	}
	if ncap > 1<<22 {
		in.unsupported("append: too large")
	}
	arr := in.newArrayLoc(et, ncap)
	for i, l := range in.sliceElems(s) {
		in.storeLoc(arr.Kids[i], in.loadLoc(l))
	}
	for i, v := range vals {
		in.storeLoc(arr.Kids[s.Len+i], v)
	}
	return SliceV{Arr: arr, Off: 0, Len: need, Cap: ncap}
}

func maxi64(a, b int64) int64 {
	if a > b {
		return a
	}
	return b
}

func (in *Interp) copyOp(dst SliceV, src Value) int {
	var vals []Value
	switch m := src.(type) {
	case SliceV:
		for _, l := range in.sliceElems(m) {
			vals = append(vals, in.loadLoc(l))
		}
	case StrV:
		for i := 0; i < m.Len(); i++ {
			vals = append(vals, in.strByte(m, i))
		}
	default:
		in.unsupported(fmt.Sprintf("copy from %T", src))
	}
	n := dst.Len
	if len(vals) < n {
		n = len(vals)
	}
	d := in.sliceElems(dst)
	for i := 0; i < n; i++ {
		in.storeLoc(d[i], vals[i])
	}
	return n
}

var _ = token.NoPos
