package sym

import (
	"crypto/sha256"
	"fmt"
	"go/types"
	"hash/crc32"
	"math"
	"math/big"
	"strings"

	"golang.org/x/crypto/ripemd160"
	"golang.org/x/tools/go/ssa"
)

type intrinsic func(in *Interp, fn *ssa.Function, args []Value) Value

const ndPkg = "github.com/elastos/Elastos.ELA/zzverif/nd"

var intrinsics = map[string]intrinsic{}

func init() {
	reg := func(name string, f intrinsic) { intrinsics[name] = f }
	// ---- nd ----
	for _, w := range []struct {
		n string
		w int
	}{{"U8", 8}, {"U16", 16}, {"U32", 32}, {"U64", 64}, {"I64", 64}, {"Int", 64}, {"I32", 32}} {
		w := w
		reg(ndPkg+"."+w.n, func(in *Interp, fn *ssa.Function, a []Value) Value {
			return in.draw(in.argStr(a[0]), strings.ToLower(w.n), w.w)
		})
	}
	reg(ndPkg+".Bool", func(in *Interp, fn *ssa.Function, a []Value) Value {
		name := in.argStr(a[0])
		v := in.st.Var(fmt.Sprintf("%s!%d", sanit(name), in.drawSeq), SBool)
		in.drawSeq++
		in.draws = append(in.draws, Draw{Name: name, Kind: "bool", Var: v.Name, vars: []*Term{v}})
		return v
	})
	reg(ndPkg+".Bytes", func(in *Interp, fn *ssa.Function, a []Value) Value {
		name := in.argStr(a[0])
		n := in.argInt(a[1])
		et := fn.Signature.Results().At(0).Type().Underlying().(*types.Slice).Elem()
		arr := in.newArrayLoc(et, n)
		d := Draw{Name: name, Kind: "bytes", N: n}
		for i := 0; i < n; i++ {
			v := in.st.Var(fmt.Sprintf("%s!%d_%d", sanit(name), in.drawSeq, i), BV(8))
			arr.Kids[i].V = v
			d.vars = append(d.vars, v)
		}
		in.drawSeq++
		in.draws = append(in.draws, d)
		return SliceV{Arr: arr, Len: n, Cap: n}
	})
	reg(ndPkg+".Choose", func(in *Interp, fn *ssa.Function, a []Value) Value {
		name := in.argStr(a[0])
		k := in.argInt(a[1])
		c := in.chooseFree(k)
		in.draws = append(in.draws, Draw{Name: name, Kind: "choose", N: k, Val: fmt.Sprint(c)})
		return in.st.Const(64, uint64(c))
	})
	reg(ndPkg+".Assume", func(in *Interp, fn *ssa.Function, a []Value) Value {
		in.assume(a[0].(*Term))
		return nil
	})
	reg(ndPkg+".Assert", func(in *Interp, fn *ssa.Function, a []Value) Value {
		id := in.argStr(a[1])
		in.ex.noteAssert(in.harness + "/" + id)
		if !in.fork2(a[0].(*Term)) {
			site := ""
			if in.curFrame != nil && in.curFrame.curInstr != nil {
				site = in.posOf(in.curFrame.curInstr)
			}
			in.violationAt("assert:"+id, "assertion "+id+" can fail", site)
		}
		return nil
	})
	reg(ndPkg+".Reach", func(in *Interp, fn *ssa.Function, a []Value) Value {
		id := in.argStr(a[0])
		in.reached[id] = true
		in.ex.noteReach(in, in.harness+"/"+id)
		return nil
	})
	reg(ndPkg+".NoPanic", func(in *Interp, fn *ssa.Function, a []Value) Value {
		id := in.argStr(a[0])
		in.ex.noteAssert(in.harness + "/nopanic:" + id)
		gp := in.catchPanic(a[1])
		if gp != nil {
			in.violationAtF("panic:"+id, gp.Msg, gp.Site, gp.Func)
		}
		return nil
	})
	reg(ndPkg+".Panics", func(in *Interp, fn *ssa.Function, a []Value) Value {
		gp := in.catchPanic(a[0])
		return in.st.Bool(gp != nil)
	})
	reg(ndPkg+".AllocLimit", func(in *Interp, fn *ssa.Function, a []Value) Value {
		in.allocLimit = int64(in.argInt(a[0]))
		return nil
	})
	reg(ndPkg+".Prefer", func(in *Interp, fn *ssa.Function, a []Value) Value {
		in.prefers = append(in.prefers, a[0].(*Term))
		return nil
	})
	reg(ndPkg+".MaxLen", func(in *Interp, fn *ssa.Function, a []Value) Value {
		in.maxSymLen = in.argInt(a[0])
		return nil
	})
	reg(ndPkg+".Unwind", func(in *Interp, fn *ssa.Function, a []Value) Value {
		in.unwind = in.argInt(a[0])
		return nil
	})
	reg(ndPkg+".Tier", func(in *Interp, fn *ssa.Function, a []Value) Value {
		return in.st.Const(64, uint64(in.ex.Tier))
	})
	reg(ndPkg+".Symbolic", func(in *Interp, fn *ssa.Function, a []Value) Value { return in.st.True })
	reg(ndPkg+".MapOrderNondet", func(in *Interp, fn *ssa.Function, a []Value) Value {
		in.mapOrderNondet = true
		return nil
	})
	reg(ndPkg+".AbstractArith", func(in *Interp, fn *ssa.Function, a []Value) Value {
		in.abstractArith = true
		in.ex.noteStub("abstract-arithmetic pre-pass: bvmul/div/rem as uninterpreted functions to prove unsat and to over-approximate branch feasibility; every sat verdict is re-decided with the exact bit-vector semantics")
		return nil
	})
	reg(ndPkg+".Note", func(in *Interp, fn *ssa.Function, a []Value) Value { return nil })
	reg(ndPkg+".IsConcrete64", func(in *Interp, fn *ssa.Function, a []Value) Value {
		return in.st.Bool(a[0].(*Term).IsConst())
	})
	// nd.FloatFromBits / arbitrary float
	reg(ndPkg+".F64", func(in *Interp, fn *ssa.Function, a []Value) Value {
		v := in.draw(in.argStr(a[0]), "f64", 64).(*Term)
		return in.st.FFromBits(v)
	})

	// ---- sync ----
	nop := func(in *Interp, fn *ssa.Function, a []Value) Value { return nil }
	for _, n := range []string{"(*sync.Mutex).Lock", "(*sync.Mutex).Unlock", "(*sync.RWMutex).Lock", "(*sync.RWMutex).Unlock",
		"(*sync.RWMutex).RLock", "(*sync.RWMutex).RUnlock", "(*sync.WaitGroup).Add", "(*sync.WaitGroup).Done", "(*sync.WaitGroup).Wait",
		"runtime.Gosched", "runtime.GC", "runtime.KeepAlive", "(*sync.Cond).Broadcast", "(*sync.Cond).Signal", "time.Sleep"} {
		reg(n, nop)
	}
	reg("(*sync.Mutex).TryLock", func(in *Interp, fn *ssa.Function, a []Value) Value { return in.st.True })
	reg("(*sync.Once).Do", func(in *Interp, fn *ssa.Function, a []Value) Value {
		p := a[0].(Ptr)
		l := p.L[0]
		// use the "done" field (first field: done atomic.Uint32 or uint32)
		if l.Tag == "once-done" {
			return nil
		}
		l.Tag = "once-done"
		in.callValue(a[1], nil)
		return nil
	})
	// atomics
	reg("sync/atomic.LoadInt32", atomicLoad)
	reg("sync/atomic.LoadInt64", atomicLoad)
	reg("sync/atomic.LoadUint32", atomicLoad)
	reg("sync/atomic.LoadUint64", atomicLoad)
	reg("sync/atomic.LoadPointer", atomicLoad)
	reg("sync/atomic.StoreInt32", atomicStore)
	reg("sync/atomic.StoreInt64", atomicStore)
	reg("sync/atomic.StoreUint32", atomicStore)
	reg("sync/atomic.StoreUint64", atomicStore)
	reg("sync/atomic.AddInt32", atomicAdd)
	reg("sync/atomic.AddInt64", atomicAdd)
	reg("sync/atomic.AddUint32", atomicAdd)
	reg("sync/atomic.AddUint64", atomicAdd)
	reg("sync/atomic.CompareAndSwapInt32", atomicCAS)
	reg("sync/atomic.CompareAndSwapInt64", atomicCAS)
	reg("sync/atomic.CompareAndSwapUint32", atomicCAS)
	reg("sync/atomic.CompareAndSwapUint64", atomicCAS)

	// ---- fmt / errors / log ----
	opaqueStr := func(in *Interp, fn *ssa.Function, a []Value) Value { return in.fmtString(fn, a) }
	reg("fmt.Sprintf", opaqueStr)
	reg("fmt.Sprint", opaqueStr)
	reg("fmt.Sprintln", opaqueStr)
	reg("fmt.Errorf", func(in *Interp, fn *ssa.Function, a []Value) Value {
		s := in.fmtString(fn, a).(StrV)
		return in.newError(s)
	})
	for _, n := range []string{"fmt.Println", "fmt.Printf", "fmt.Print", "fmt.Fprintf", "fmt.Fprintln", "fmt.Fprint"} {
		reg(n, func(in *Interp, fn *ssa.Function, a []Value) Value {
			return Tuple{in.st.Const(64, 0), IfaceV{}}
		})
	}
	reg("errors.Is", func(in *Interp, fn *ssa.Function, a []Value) Value {
		return in.valEq(a[0], a[1])
	})

	// ---- bytes / strings (asm-backed) ----
	reg("bytes.Compare", func(in *Interp, fn *ssa.Function, a []Value) Value {
		return in.bytesCompare(in.bytesOf(a[0]), in.bytesOf(a[1]))
	})
	reg("internal/bytealg.Compare", func(in *Interp, fn *ssa.Function, a []Value) Value {
		return in.bytesCompare(in.bytesOf(a[0]), in.bytesOf(a[1]))
	})
	reg("strings.Compare", func(in *Interp, fn *ssa.Function, a []Value) Value {
		return in.bytesCompare(in.bytesOf(a[0]), in.bytesOf(a[1]))
	})
	reg("bytes.Equal", func(in *Interp, fn *ssa.Function, a []Value) Value {
		x, y := in.bytesOf(a[0]), in.bytesOf(a[1])
		return in.bytesEq(x, y)
	})
	reg("internal/bytealg.Equal", func(in *Interp, fn *ssa.Function, a []Value) Value {
		return in.bytesEq(in.bytesOf(a[0]), in.bytesOf(a[1]))
	})
	idxByte := func(in *Interp, fn *ssa.Function, a []Value) Value {
		bs := in.bytesOf(a[0])
		c := a[1].(*Term)
		st := in.st
		res := st.Const(64, ^uint64(0))
		for i := len(bs) - 1; i >= 0; i-- {
			res = st.Ite(st.Eq(bs[i], c), st.Const(64, uint64(i)), res)
		}
		return res
	}
	reg("bytes.IndexByte", idxByte)
	reg("strings.IndexByte", idxByte)
	reg("internal/bytealg.IndexByte", idxByte)
	reg("internal/bytealg.IndexByteString", idxByte)
	reg("internal/bytealg.Count", func(in *Interp, fn *ssa.Function, a []Value) Value {
		bs := in.bytesOf(a[0])
		c := a[1].(*Term)
		st := in.st
		res := st.Const(64, 0)
		for _, b := range bs {
			res = st.Add(res, st.Ite(st.Eq(b, c), st.Const(64, 1), st.Const(64, 0)))
		}
		return res
	})
	reg("internal/bytealg.CountString", intrinsics["internal/bytealg.Count"])
	concreteStrFn := func(f func(s, sub string) int) intrinsic {
		return func(in *Interp, fn *ssa.Function, a []Value) Value {
			s, ok1 := in.concreteBytes(a[0])
			sub, ok2 := in.concreteBytes(a[1])
			if ok1 && ok2 {
				return in.st.Const(64, uint64(int64(f(s, sub))))
			}
			return in.symIndex(in.bytesOf(a[0]), in.bytesOf(a[1]))
		}
	}
	reg("strings.Index", concreteStrFn(strings.Index))
	reg("bytes.Index", concreteStrFn(strings.Index))
	reg("internal/bytealg.IndexString", concreteStrFn(strings.Index))
	reg("internal/bytealg.Index", concreteStrFn(strings.Index))
	reg("strings.Count", func(in *Interp, fn *ssa.Function, a []Value) Value {
		s, ok1 := in.concreteBytes(a[0])
		sub, ok2 := in.concreteBytes(a[1])
		if ok1 && ok2 {
			return in.st.Const(64, uint64(strings.Count(s, sub)))
		}
		return in.symCount(in.bytesOf(a[0]), in.bytesOf(a[1]))
	})
	reg("internal/bytealg.MakeNoZero", func(in *Interp, fn *ssa.Function, a []Value) Value {
		n := in.concretize(a[0].(*Term), in.maxSymLen*8+64, "MakeNoZero")
		arr := in.newArrayLoc(types.Typ[types.Uint8], n)
		return SliceV{Arr: arr, Len: n, Cap: n}
	})
	reg("internal/stringslite.Index", concreteStrFn(strings.Index))
	reg("internal/stringslite.IndexByte", idxByte)

	// ---- hashing ----
	reg("crypto/sha256.Sum256", func(in *Interp, fn *ssa.Function, a []Value) Value {
		out := in.hashBytes("sha256", in.bytesOf(a[0]), 32)
		return termsToAgg(out)
	})
	reg("github.com/elastos/Elastos.ELA/common.Sha256D", func(in *Interp, fn *ssa.Function, a []Value) Value {
		out := in.hashBytes("sha256d", in.bytesOf(a[0]), 32)
		return termsToAgg(out)
	})
	reg("hash/crc32.ChecksumIEEE", func(in *Interp, fn *ssa.Function, a []Value) Value {
		bs := in.bytesOf(a[0])
		if c, ok := in.allConcrete(bs); ok {
			return in.st.Const(32, uint64(crc32.ChecksumIEEE(c)))
		}
		out := in.hashBytes("crc32ieee", bs, 4)
		return in.st.Concat(in.st.Concat(out[3], out[2]), in.st.Concat(out[1], out[0]))
	})
	reg("hash/crc32.Checksum", func(in *Interp, fn *ssa.Function, a []Value) Value {
		bs := in.bytesOf(a[0])
		// table identity is ignored (Castagnoli is the only table used by ffldb)
		if c, ok := in.allConcrete(bs); ok {
			return in.st.Const(32, uint64(crc32.Checksum(c, crc32.MakeTable(crc32.Castagnoli))))
		}
		out := in.hashBytes("crc32c", bs, 4)
		return in.st.Concat(in.st.Concat(out[3], out[2]), in.st.Concat(out[1], out[0]))
	})
	reg("hash/crc32.MakeTable", func(in *Interp, fn *ssa.Function, a []Value) Value { return Ptr{} })

	// ---- math ----
	reg("math.Floor", func(in *Interp, fn *ssa.Function, a []Value) Value { return in.st.FFloor(a[0].(*Term)) })
	reg("math.Ceil", func(in *Interp, fn *ssa.Function, a []Value) Value { return in.st.FCeil(a[0].(*Term)) })
	reg("math.floor", intrinsics["math.Floor"])
	reg("math.ceil", intrinsics["math.Ceil"])
	reg("math.Sqrt", func(in *Interp, fn *ssa.Function, a []Value) Value { return in.st.FSqrt(a[0].(*Term)) })
	reg("math.sqrt", intrinsics["math.Sqrt"])
	reg("math.Abs", func(in *Interp, fn *ssa.Function, a []Value) Value {
		x := a[0].(*Term)
		return in.st.FFromBits(in.st.BAnd(in.st.FToBits(x), in.st.Const(64, 0x7fffffffffffffff)))
	})
	reg("math.IsNaN", func(in *Interp, fn *ssa.Function, a []Value) Value { return in.st.FIsNaN(a[0].(*Term)) })
	reg("math.Float64bits", func(in *Interp, fn *ssa.Function, a []Value) Value { return in.st.FToBits(a[0].(*Term)) })
	reg("math.Float64frombits", func(in *Interp, fn *ssa.Function, a []Value) Value { return in.st.FFromBits(a[0].(*Term)) })
	reg("math.Pow", mathPow)
	reg("math.Log", concreteF1(math.Log))
	reg("math.Log2", concreteF1(math.Log2))
	reg("math.Log10", concreteF1(math.Log10))
	reg("math.log10", concreteF1(math.Log10))
	reg("math.Exp", concreteF1(math.Exp))
	reg("math.Trunc", func(in *Interp, fn *ssa.Function, a []Value) Value {
		x := a[0].(*Term)
		if x.IsConst() {
			return in.st.FPConst(math.Trunc(math.Float64frombits(x.C)))
		}
		neg := in.st.FLt(x, in.st.FPConst(0))
		return in.st.Ite(neg, in.st.FCeil(x), in.st.FFloor(x))
	})
	reg("math/bits.Mul64", func(in *Interp, fn *ssa.Function, a []Value) Value {
		x, y := a[0].(*Term), a[1].(*Term)
		if x.IsConst() && y.IsConst() {
			p := new(big.Int).Mul(new(big.Int).SetUint64(x.C), new(big.Int).SetUint64(y.C))
			lo := new(big.Int).And(p, new(big.Int).SetUint64(^uint64(0))).Uint64()
			hi := new(big.Int).Rsh(p, 64).Uint64()
			return Tuple{in.st.Const(64, hi), in.st.Const(64, lo)}
		}
		in.unsupported("symbolic bits.Mul64")
		return nil
	})

	registerBig(reg)
	registerNet(reg)
	registerTime(reg)
	registerMisc(reg)
	registerBinary(reg)
	registerRand(reg)
	registerCRC(reg)
	registerLocalRand(reg)
	registerTaint(reg)
	registerCryptoModel(reg)
	registerCodeHash(reg)
	registerECDSA(reg)
}

func concreteF1(f func(float64) float64) intrinsic {
	return func(in *Interp, fn *ssa.Function, a []Value) Value {
		x := a[0].(*Term)
		if !x.IsConst() {
			in.unsupported("symbolic " + fn.String())
		}
		return in.st.FPConst(f(math.Float64frombits(x.C)))
	}
}

// mathPow: exact for constant arguments and for Pow(2,k) / Pow(c,k) with a
// small symbolic integer-valued k given as float(from int).
func mathPow(in *Interp, fn *ssa.Function, a []Value) Value {
	st := in.st
	x, y := a[0].(*Term), a[1].(*Term)
	if x.IsConst() && y.IsConst() {
		return st.FPConst(math.Pow(math.Float64frombits(x.C), math.Float64frombits(y.C)))
	}
	if x.IsConst() && (y.Op == OFFromSBV || y.Op == OFFromUBV) {
		// y = float(k), k integer term. Build table over feasible small k.
		k := y.Args[0]
		base := math.Float64frombits(x.C)
		w := k.S.W
		// table for k in [0, 1100] is exact via math.Pow on concrete values;
		// beyond: +Inf (base>1) — only sound when base >= 2; checked.
		if base < 2 {
			in.unsupported("math.Pow with symbolic exponent and base < 2")
		}
		limit := 1100
		// negative k (signed) → handle as 1/pow; rarely needed: fork it away
		if y.Op == OFFromSBV {
			neg := st.SLt(k, st.Const(w, 0))
			if in.fork2(neg) {
				in.unsupported("math.Pow with negative symbolic exponent")
			}
		}
		if base == 2 {
			// Pow(2, k) for 0 <= k: exactly representable for k <= 1023 (biased
			// exponent k+1023, zero mantissa), +Inf above (math.Pow special case)
			k64 := k
			if w < 64 {
				k64 = st.ZExt(k, 64)
			} else if w > 64 {
				in.unsupported("math.Pow exponent wider than 64 bits")
			}
			bits := st.Shl(st.Add(k64, st.Const(64, 1023)), st.Const(64, 52))
			in.ex.noteStub("math.Pow(2, float(k)) = float with biased exponent k+1023 for k<=1023, +Inf above (exact)")
			return st.Ite(st.ULe(k64, st.Const(64, 1023)), st.FFromBits(bits), st.FPConst(math.Inf(1)))
		}
		// find first exponent that overflows to +Inf
		res := st.FPConst(math.Inf(1))
		top := 0
		for top = 0; top < limit; top++ {
			if math.IsInf(math.Pow(base, float64(top)), 1) {
				break
			}
		}
		if top > 80 {
			// large table: use concretisation via ite chain anyway (top ≤ 1024 for base 2)
		}
		for i := top - 1; i >= 0; i-- {
			res = st.Ite(st.Eq(k, st.Const(w, uint64(i))), st.FPConst(math.Pow(base, float64(i))), res)
		}
		in.ex.noteStub("math.Pow(const, float(k)) as exact table up to overflow")
		return res
	}
	in.unsupported("symbolic math.Pow")
	return nil
}

func sanit(s string) string {
	var b strings.Builder
	for _, c := range s {
		if (c >= 'a' && c <= 'z') || (c >= 'A' && c <= 'Z') || (c >= '0' && c <= '9') || c == '_' {
			b.WriteRune(c)
		} else {
			b.WriteByte('_')
		}
	}
	if b.Len() == 0 {
		return "v"
	}
	return b.String()
}

func (in *Interp) draw(name, kind string, w int) Value {
	v := in.st.Var(fmt.Sprintf("%s!%d", sanit(name), in.drawSeq), BV(w))
	in.drawSeq++
	in.draws = append(in.draws, Draw{Name: name, Kind: kind, Var: v.Name, W: w, vars: []*Term{v}})
	return v
}

func (in *Interp) argStr(v Value) string {
	s, ok := v.(StrV)
	if !ok {
		in.unsupported("expected string arg")
	}
	c, ok := in.strConcrete(s)
	if !ok {
		in.unsupported("expected concrete string arg")
	}
	return c
}

func (in *Interp) argInt(v Value) int {
	t, ok := v.(*Term)
	if !ok || !t.IsConst() {
		in.unsupported("expected concrete int arg")
	}
	return int(sext64(t.C, t.S.W))
}

func (in *Interp) catchPanic(f Value) (gp *goPanicV) {
	saved := in.curFrame
	savedDepth := in.depth
	defer func() {
		if r := recover(); r != nil {
			if g, ok := r.(*goPanicV); ok {
				gp = g
				in.curFrame = saved
				in.depth = savedDepth
				return
			}
			panic(r)
		}
	}()
	in.callValue(f, nil)
	return nil
}

func (in *Interp) lookupIntrinsic(fn *ssa.Function) intrinsic {
	if len(in.stubbed) > 0 {
		n := fn.String()
		if in.stubbed[n] || in.stubbed[strings.ReplaceAll(n, "github.com/elastos/Elastos.ELA/", "")] {
			return zeroReturn
		}
	}
	if len(in.stubRet) > 0 {
		n := fn.String()
		v, ok := in.stubRet[n]
		if !ok {
			v, ok = in.stubRet[strings.ReplaceAll(n, "github.com/elastos/Elastos.ELA/", "")]
		}
		if ok {
			return func(in *Interp, fn *ssa.Function, a []Value) Value {
				z := in.zeroResults(fn)
				if fn.Signature.Results().Len() == 1 {
					return v
				}
				if tp, isT := z.(Tuple); isT && len(tp) > 0 {
					e := append(Tuple{}, tp...)
					e[0] = v
					return e
				}
				if ag, isAgg := z.(*Agg); isAgg && len(ag.E) > 0 {
					e := append([]Value{}, ag.E...)
					e[0] = v
					return &Agg{E: e}
				}
				in.unsupported("StubReturn: unexpected result shape")
				return nil
			}
		}
	}
	if i, ok := in.funcCache[fn]; ok {
		return i
	}
	name := fn.String()
	if o := fn.Origin(); o != nil {
		name = o.String()
	}
	i := intrinsics[name]
	if i == nil && fn.Pkg != nil {
		path := fn.Pkg.Pkg.Path()
		if strings.HasSuffix(path, "/utils/elalog") || strings.HasSuffix(path, "Elastos.ELA/common/log") {
			i = zeroReturn
		}
	}
	if i == nil {
		// methods of elalog types invoked through interface wrappers
		if r := fn.Signature.Recv(); r != nil {
			rt := r.Type().String()
			if strings.Contains(rt, "/utils/elalog.") || strings.Contains(rt, "Elastos.ELA/common/log.") {
				i = zeroReturn
			}
		}
	}
	in.funcCache[fn] = i
	return i
}

func zeroReturn(in *Interp, fn *ssa.Function, a []Value) Value {
	return in.zeroResults(fn)
}

func atomicLoad(in *Interp, fn *ssa.Function, a []Value) Value { return in.load(a[0].(Ptr)) }
func atomicStore(in *Interp, fn *ssa.Function, a []Value) Value {
	in.store(a[0].(Ptr), a[1])
	return nil
}
func atomicAdd(in *Interp, fn *ssa.Function, a []Value) Value {
	p := a[0].(Ptr)
	v := in.st.Add(in.load(p).(*Term), a[1].(*Term))
	in.store(p, v)
	return v
}
func atomicCAS(in *Interp, fn *ssa.Function, a []Value) Value {
	p := a[0].(Ptr)
	old := in.load(p).(*Term)
	eq := in.st.Eq(old, a[1].(*Term))
	in.store(p, in.st.Ite(eq, a[2].(*Term), old))
	return eq
}

// ---- strings & errors ----

func (in *Interp) fmtString(fn *ssa.Function, a []Value) Value {
	// Best effort: format when everything is concrete and simple; otherwise a placeholder.
	format := ""
	var rest Value
	if fn.Name() == "Sprintf" || fn.Name() == "Errorf" {
		if s, ok := a[0].(StrV); ok {
			format, _ = in.strConcrete(s)
		}
		rest = a[1]
	} else {
		rest = a[0]
	}
	sl, _ := rest.(SliceV)
	var goArgs []interface{}
	allConc := true
	for _, l := range in.sliceElems(sl) {
		iv, ok := in.loadLoc(l).(IfaceV)
		if !ok {
			allConc = false
			break
		}
		switch x := iv.V.(type) {
		case *Term:
			if !x.IsConst() {
				allConc = false
			} else if x.S.K == KBV {
				if iv.T != nil && isSigned(iv.T) {
					goArgs = append(goArgs, sext64(x.C, x.S.W))
				} else {
					goArgs = append(goArgs, x.C)
				}
			} else if x.S.K == KBool {
				goArgs = append(goArgs, x.C == 1)
			} else {
				allConc = false
			}
		case StrV:
			c, ok := in.strConcrete(x)
			if !ok {
				allConc = false
			}
			goArgs = append(goArgs, c)
		default:
			allConc = false
		}
	}
	if allConc {
		switch fn.Name() {
		case "Sprintf", "Errorf":
			if !strings.Contains(format, "%w") && !strings.Contains(format, "%T") {
				return StrV{S: fmt.Sprintf(format, goArgs...)}
			}
		case "Sprint":
			return StrV{S: fmt.Sprint(goArgs...)}
		case "Sprintln":
			return StrV{S: fmt.Sprintln(goArgs...)}
		}
	}
	in.ex.noteStub("fmt formatting with symbolic/complex operands returns a placeholder string")
	return StrV{S: "<fmt:" + format + ">"}
}

func (in *Interp) newError(msg StrV) Value {
	pkg := in.prog.ImportedPackage("errors")
	if pkg == nil {
		in.unsupported("errors package not loaded")
	}
	t := pkg.Type("errorString")
	if t == nil {
		in.unsupported("errors.errorString not found")
	}
	named := t.Type()
	l := in.newLoc(named, &Agg{E: []Value{msg}})
	return IfaceV{T: types.NewPointer(named), V: Ptr{L: []*Loc{l}}}
}

func (in *Interp) bytesOf(v Value) []*Term {
	switch x := v.(type) {
	case SliceV:
		r := make([]*Term, 0, x.Len)
		for _, l := range in.sliceElems(x) {
			t, ok := in.loadLoc(l).(*Term)
			if !ok {
				in.unsupported("bytesOf: non-scalar element")
			}
			r = append(r, t)
		}
		return r
	case StrV:
		r := make([]*Term, x.Len())
		for i := range r {
			r[i] = in.strByte(x, i)
		}
		return r
	case *Agg:
		r := make([]*Term, len(x.E))
		for i := range r {
			r[i] = x.E[i].(*Term)
		}
		return r
	}
	in.unsupported(fmt.Sprintf("bytesOf %T", v))
	return nil
}

func (in *Interp) allConcrete(bs []*Term) ([]byte, bool) {
	r := make([]byte, len(bs))
	for i, t := range bs {
		if !t.IsConst() {
			return nil, false
		}
		r[i] = byte(t.C)
	}
	return r, true
}

func (in *Interp) concreteBytes(v Value) (string, bool) {
	b, ok := in.allConcrete(in.bytesOf(v))
	return string(b), ok
}

func (in *Interp) bytesEq(x, y []*Term) *Term {
	st := in.st
	if len(x) != len(y) {
		return st.False
	}
	r := st.True
	for i := range x {
		r = st.And(r, st.Eq(x[i], y[i]))
	}
	return r
}

func (in *Interp) bytesCompare(x, y []*Term) Value {
	st := in.st
	n := len(x)
	if len(y) < n {
		n = len(y)
	}
	var res *Term
	switch {
	case len(x) < len(y):
		res = st.Const(64, ^uint64(0))
	case len(x) > len(y):
		res = st.Const(64, 1)
	default:
		res = st.Const(64, 0)
	}
	for i := n - 1; i >= 0; i-- {
		res = st.Ite(st.Eq(x[i], y[i]), res, st.Ite(st.ULt(x[i], y[i]), st.Const(64, ^uint64(0)), st.Const(64, 1)))
	}
	return res
}

// symIndex: first index of sub in s (symbolic), -1 if none.
func (in *Interp) symIndex(s, sub []*Term) Value {
	st := in.st
	res := st.Const(64, ^uint64(0))
	for i := len(s) - len(sub); i >= 0; i-- {
		res = st.Ite(in.bytesEq(s[i:i+len(sub)], sub), st.Const(64, uint64(i)), res)
	}
	return res
}

// symCount: number of non-overlapping occurrences of sub in s. Exact only
// when occurrences cannot overlap ambiguously; we follow strings.Count's
// greedy left-to-right scan.
func (in *Interp) symCount(s, sub []*Term) Value {
	st := in.st
	if len(sub) == 0 {
		in.unsupported("Count with empty separator")
	}
	n := len(s) - len(sub) + 1
	if n <= 0 {
		return st.Const(64, 0)
	}
	// skip[i] = remaining positions to skip (symbolic): emulate with blocked flags
	cnt := st.Const(64, 0)
	// blockedUntil as term: position index up to which matching is disabled
	blocked := st.Const(64, 0)
	for i := 0; i < n; i++ {
		m := st.And(in.bytesEq(s[i:i+len(sub)], sub), st.ULe(blocked, st.Const(64, uint64(i))))
		cnt = st.Add(cnt, st.Ite(m, st.Const(64, 1), st.Const(64, 0)))
		blocked = st.Ite(m, st.Const(64, uint64(i+len(sub))), blocked)
	}
	return cnt
}

func termsToAgg(ts []*Term) *Agg {
	a := &Agg{E: make([]Value, len(ts))}
	for i, t := range ts {
		a.E[i] = t
	}
	return a
}

// hashBytes models a hash function: concrete inputs are computed natively,
// symbolic ones become uninterpreted functions with pairwise injectivity
// (collision-resistance) axioms over the applications on this path.
func (in *Interp) hashBytes(kind string, bs []*Term, outLen int) []*Term {
	st := in.st
	if c, ok := in.allConcrete(bs); ok {
		var out []byte
		switch kind {
		case "sha256":
			h := sha256.Sum256(c)
			out = h[:]
		case "sha256d":
			h := sha256.Sum256(c)
			h2 := sha256.Sum256(h[:])
			out = h2[:]
		case "ripemd160":
			h := ripemd160.New()
			h.Write(c)
			out = h.Sum(nil)
		case "crc32ieee":
			v := crc32.ChecksumIEEE(c)
			out = []byte{byte(v), byte(v >> 8), byte(v >> 16), byte(v >> 24)}
		case "crc32c":
			v := crc32.Checksum(c, crc32.MakeTable(crc32.Castagnoli))
			out = []byte{byte(v), byte(v >> 8), byte(v >> 16), byte(v >> 24)}
		default:
			in.unsupported("hash kind " + kind)
		}
		r := make([]*Term, len(out))
		for i, b := range out {
			r[i] = st.Const(8, uint64(b))
		}
		// natively computed applications take part in the collision-freedom
		// axioms of later symbolic applications (a symbolic input that hashes to
		// a value computed here must be that input)
		if !strings.HasPrefix(kind, "crc") && len(in.hashApps[kind]) < 256 {
			in.hashApps[kind] = append(in.hashApps[kind], hashApp{in: bs, out: r})
		}
		return r
	}
	in.ex.noteStub("hash " + kind + " on symbolic input = uninterpreted function + pairwise collision-freedom axioms")
	out := make([]*Term, 0, outLen)
	nw := (outLen + 7) / 8
	for j := 0; j < nw; j++ {
		wbits := 64
		rem := outLen - j*8
		if rem < 8 {
			wbits = rem * 8
		}
		u := st.UF(fmt.Sprintf("H_%s_%d_%d", kind, len(bs), j), BV(wbits), bs...)
		for k := 0; k < wbits/8; k++ {
			out = append(out, st.Extract(u, k*8+7, k*8))
		}
	}
	// axioms against earlier applications of the same kind
	if !strings.HasPrefix(kind, "crc") {
		key := kind
		for _, prev := range in.hashApps[key] {
			sameOut := in.bytesEq(prev.out, out)
			var sameIn *Term
			if len(prev.in) == len(bs) {
				sameIn = in.bytesEq(prev.in, bs)
			} else {
				sameIn = st.False
			}
			in.addPC(st.Implies(sameOut, sameIn))
		}
		in.hashApps[key] = append(in.hashApps[key], hashApp{in: bs, out: out})
	}
	return out
}
