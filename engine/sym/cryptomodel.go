package sym

import (
	"crypto/elliptic"
	"fmt"
	"go/types"
	"math/big"

	"golang.org/x/tools/go/ssa"
)

// Perfect-cryptography (Dolev-Yao) model of the node's signature primitives.
//
//   nd.Sig(name, pubkey, data, sign) registers "the holder of the key whose
//   compressed encoding is pubkey signed data" and returns 64 fresh bytes that
//   stand for that signature (natively: sign() computes a real one).
//   crypto.Verify / VerifyDigest / SchnorrVerify accept a signature iff its 64
//   byte terms ARE the terms of a registered signature (term identity, not
//   value equality: a signature cannot be guessed, only relayed), the key is the
//   registered key and the data / digest equals the registered data.
//   crypto.DecodePoint succeeds on well-formed encodings (length and prefix as
//   in the real function; a compressed point is on the curve iff the real
//   curve equation has a root for concrete x, and by an uninterpreted predicate
//   for symbolic x).
// What is therefore NOT decided: anything about ECDSA / Schnorr arithmetic.

type sigFact struct {
	sig  []*Term // 64 byte terms
	key  []*Term // 33 bytes compressed key
	data []*Term
	kind string // "ecdsa" (over data), "schnorr" (over 32-byte message)
}

const cryptoPkg = "github.com/elastos/Elastos.ELA/crypto"

func (in *Interp) newPublicKey(x, y *Term) Value {
	pkg := in.prog.ImportedPackage(cryptoPkg)
	if pkg == nil {
		in.unsupported("crypto package not loaded")
	}
	pt := pkg.Type("PublicKey").Type()
	bigT := in.prog.ImportedPackage("math/big").Type("Int").Type()
	l := in.newLoc(pt, nil)
	in.storeLoc(l.Kids[0], Ptr{L: []*Loc{in.newLoc(bigT, BigV{x})}})
	in.storeLoc(l.Kids[1], Ptr{L: []*Loc{in.newLoc(bigT, BigV{y})}})
	return Ptr{L: []*Loc{l}}
}

func (in *Interp) bytesToInt(bs []*Term) *Term {
	st := in.st
	acc := st.IntConst64(0)
	for _, b := range bs {
		acc = st.IAdd(st.IMul(acc, st.IntConst64(256)), st.BV2Nat(b))
	}
	return acc
}

func onCurveX(x []byte) bool {
	p := elliptic.P256().Params()
	X := new(big.Int).SetBytes(x)
	if X.Cmp(p.P) >= 0 {
		return false
	}
	x3 := new(big.Int).Mul(X, X)
	x3.Mul(x3, X)
	t := new(big.Int).Lsh(X, 1)
	t.Add(t, X)
	x3.Sub(x3, t)
	x3.Add(x3, p.B)
	x3.Mod(x3, p.P)
	return new(big.Int).ModSqrt(x3, p.P) != nil
}

// p256Y: the y coordinate with the given parity of the P-256 point with this x
func p256Y(x []byte, parity byte) *big.Int {
	p := elliptic.P256().Params()
	X := new(big.Int).SetBytes(x)
	if X.Cmp(p.P) >= 0 {
		return nil
	}
	x3 := new(big.Int).Mul(X, X)
	x3.Mul(x3, X)
	t := new(big.Int).Lsh(X, 1)
	t.Add(t, X)
	x3.Sub(x3, t)
	x3.Add(x3, p.B)
	x3.Mod(x3, p.P)
	y := new(big.Int).ModSqrt(x3, p.P)
	if y == nil {
		return nil
	}
	if byte(y.Bit(0)) != parity {
		y.Sub(p.P, y)
	}
	return y
}

func (in *Interp) pubKeyX(v Value) *Term {
	// PublicKey value (Agg{X *big.Int, Y *big.Int}) or pointer to it
	if p, ok := v.(Ptr); ok {
		v = in.load(p)
	}
	a, ok := v.(*Agg)
	if !ok || len(a.E) != 2 {
		in.unsupported(fmt.Sprintf("crypto model: public key value %T", v))
	}
	xp, ok := a.E[0].(Ptr)
	if !ok || xp.IsNil() {
		in.unsupported("crypto model: public key without X")
	}
	return in.bigVal(xp)
}

func registerCryptoModel(reg func(string, intrinsic)) {
	errVal := func(in *Interp, msg string) Value { return in.newError(StrV{S: msg}) }

	reg(ndPkg+".Sig", func(in *Interp, fn *ssa.Function, a []Value) Value {
		name := in.argStr(a[0])
		key := in.bytesOf(a[1])
		data := in.bytesOf(a[2])
		d := Draw{Name: name, Kind: "sig", N: 64}
		arr := in.newArrayLoc(types.Typ[types.Uint8], 64)
		var vars []*Term
		for i := 0; i < 64; i++ {
			v := in.st.Var(fmt.Sprintf("sig!%d_%d", in.drawSeq, i), BV(8))
			arr.Kids[i].V = v
			vars = append(vars, v)
		}
		in.drawSeq++
		in.draws = append(in.draws, d)
		kind := "ecdsa"
		if len(a) > 4 {
			if t, ok := a[4].(*Term); ok && t.IsTrue() {
				kind = "schnorr"
			}
		}
		in.sigFacts = append(in.sigFacts, sigFact{sig: vars, key: key, data: data, kind: kind})
		in.ex.noteStub("signatures: perfect-cryptography model (a signature verifies iff it is, term for term, one issued by nd.Sig for that key and data)")
		return SliceV{Arr: arr, Len: 64, Cap: 64}
	})

	// nd.KeyPair(priv, pub): the harness declares that the private scalar priv
	// (concrete bytes) belongs to the compressed public key pub. crypto.Sign with
	// that scalar then issues a signature of that key (below).
	reg(ndPkg+".KeyPair", func(in *Interp, fn *ssa.Function, a []Value) Value {
		priv, ok := in.allConcrete(in.bytesOf(a[0]))
		if !ok {
			in.unsupported("nd.KeyPair: private key must be concrete")
		}
		if in.keyPairs == nil {
			in.keyPairs = map[string][]*Term{}
		}
		in.keyPairs[string(priv)] = in.bytesOf(a[1])
		return nil
	})
	// crypto.Sign(priv, data): under the perfect-cryptography model the holder
	// of a declared key pair signs data: 64 fresh bytes registered as that
	// key's signature over exactly that data (no replay draw: natively the real
	// function signs).
	reg(cryptoPkg+".Sign", func(in *Interp, fn *ssa.Function, a []Value) Value {
		priv, ok := in.allConcrete(in.bytesOf(a[0]))
		if !ok {
			in.unsupported("crypto.Sign: symbolic private key")
		}
		pub, known := in.keyPairs[string(priv)]
		if !known {
			in.unsupported("crypto.Sign: private key not declared with nd.KeyPair")
		}
		data := in.bytesOf(a[1])
		arr := in.newArrayLoc(types.Typ[types.Uint8], 64)
		var vars []*Term
		for i := 0; i < 64; i++ {
			v := in.st.Var(fmt.Sprintf("wsig!%d_%d", in.drawSeq, i), BV(8))
			arr.Kids[i].V = v
			vars = append(vars, v)
		}
		in.drawSeq++
		in.sigFacts = append(in.sigFacts, sigFact{sig: vars, key: pub, data: data, kind: "ecdsa"})
		in.ex.noteStub("signatures: crypto.Sign with a key pair declared by nd.KeyPair issues a signature of that key over exactly the data (perfect-cryptography model)")
		return Tuple{SliceV{Arr: arr, Len: 64, Cap: 64}, IfaceV{}}
	})

	reg(cryptoPkg+".DecodePoint", func(in *Interp, fn *ssa.Function, a []Value) Value {
		bs := in.bytesOf(a[0])
		st := in.st
		fail := func(m string) Value { return Tuple{Ptr{}, errVal(in, m)} }
		if len(bs) == 0 {
			return fail("the encodeData cann't be nil")
		}
		compressed := st.Or(st.Eq(bs[0], st.Const(8, 2)), st.Eq(bs[0], st.Const(8, 3)))
		if in.fork2(compressed) {
			if len(bs) != 33 {
				return fail("the encodeData format is error")
			}
			x := bs[1:33]
			if c, ok := in.allConcrete(x); ok {
				if !onCurveX(c) {
					return fail("invalid point")
				}
			} else {
				on := st.UF("P256_has_point", SBool, x...)
				if !in.fork2(on) {
					return fail("invalid point")
				}
			}
			// a concrete compressed key: the real point (so that re-encoding it
			// gives back the same bytes, parity included)
			if call, ok := in.allConcrete(bs); ok {
				if yv := p256Y(call[1:33], call[0]&1); yv != nil {
					return Tuple{in.newPublicKey(in.bytesToInt(x), st.IntConst(yv)), IfaceV{}}
				}
			}
			y := st.UF("P256_y", SInt, bs...)
			return Tuple{in.newPublicKey(in.bytesToInt(x), y), IfaceV{}}
		}
		unc := st.Or(st.Eq(bs[0], st.Const(8, 4)), st.Or(st.Eq(bs[0], st.Const(8, 6)), st.Eq(bs[0], st.Const(8, 7))))
		if in.fork2(unc) {
			if len(bs) != 65 {
				return fail("the encodeData format is error")
			}
			return Tuple{in.newPublicKey(in.bytesToInt(bs[1:33]), in.bytesToInt(bs[33:65])), IfaceV{}}
		}
		return fail("the encodeData format is error")
	})

	verify := func(in *Interp, keyX *Term, key33 []*Term, data []*Term, sig []*Term, kind string) bool {
		st := in.st
		for _, f := range in.sigFacts {
			if f.kind != kind || len(f.sig) != len(sig) {
				continue
			}
			same := true
			for i := range sig {
				if sig[i] != f.sig[i] {
					same = false
					break
				}
			}
			if !same {
				continue
			}
			var keyEq *Term
			if keyX != nil {
				keyEq = st.Eq(keyX, in.bytesToInt(f.key[1:33]))
			} else {
				keyEq = in.bytesEq(key33, f.key)
			}
			if in.fork2(st.And(keyEq, in.bytesEq(data, f.data))) {
				return true
			}
		}
		return false
	}

	ecdsaVerify := func(in *Interp, fn *ssa.Function, a []Value) Value {
		sig := in.bytesOf(a[2])
		if len(sig) != 64 {
			return errVal(in, "Unknown signature length")
		}
		if verify(in, in.pubKeyX(a[0]), nil, in.bytesOf(a[1]), sig, "ecdsa") {
			return IfaceV{}
		}
		return errVal(in, "[Validation], Verify failed.")
	}
	reg(cryptoPkg+".Verify", ecdsaVerify)

	reg(cryptoPkg+".SchnorrVerify", func(in *Interp, fn *ssa.Function, a []Value) Value {
		key := in.bytesOf(a[0])
		msg := in.bytesOf(a[1])
		sig := in.bytesOf(a[2])
		if verify(in, nil, key, msg, sig, "schnorr") {
			return Tuple{in.st.True, IfaceV{}}
		}
		return Tuple{in.st.False, errVal(in, "signature verification failed")}
	})
}

// common.ToCodeHash / ToProgramHash = RIPEMD-160(SHA-256(code)) (with a prefix
// byte): computed natively on concrete code, otherwise an uninterpreted
// function of the code with the collision-freedom axioms of hashBytes.
func registerCodeHash(reg func(string, intrinsic)) {
	hash160 := func(in *Interp, code []*Term) []*Term {
		inner := in.hashBytes("sha256", code, 32)
		return in.hashBytes("ripemd160", inner, 20)
	}
	mk := func(in *Interp, pkgPath, typ string, bs []*Term) Value {
		pkg := in.prog.ImportedPackage(pkgPath)
		t := pkg.Type(typ).Type()
		l := in.newLoc(t, termsToAgg(bs))
		return Ptr{L: []*Loc{l}}
	}
	const commonPkg = "github.com/elastos/Elastos.ELA/common"
	reg(commonPkg+".ToCodeHash", func(in *Interp, fn *ssa.Function, a []Value) Value {
		return mk(in, commonPkg, "Uint160", hash160(in, in.bytesOf(a[0])))
	})
	reg(commonPkg+".ToProgramHash", func(in *Interp, fn *ssa.Function, a []Value) Value {
		h := hash160(in, in.bytesOf(a[1]))
		return mk(in, commonPkg, "Uint168", append([]*Term{a[0].(*Term)}, h...))
	})
}
