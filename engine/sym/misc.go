package sym

import (
	"fmt"
	"go/types"
	"net"
	"strconv"

	"golang.org/x/tools/go/ssa"
)

func registerMisc(reg func(string, intrinsic)) {
	sortSlice := func(in *Interp, fn *ssa.Function, a []Value) Value {
		iv, ok := a[0].(IfaceV)
		if !ok {
			in.unsupported("sort.Slice arg")
		}
		s, ok := iv.V.(SliceV)
		if !ok {
			in.unsupported("sort.Slice on non-slice")
		}
		less := a[1]
		el := in.sliceElems(s)
		n := len(el)
		swap := func(i, j int) {
			vi, vj := in.loadLoc(el[i]), in.loadLoc(el[j])
			in.storeLoc(el[i], vj)
			in.storeLoc(el[j], vi)
		}
		for i := 1; i < n; i++ {
			for j := i; j > 0; j-- {
				r := in.callValue(less, []Value{in.st.Const(64, uint64(j)), in.st.Const(64, uint64(j-1))}).(*Term)
				if !in.fork2(r) {
					break
				}
				swap(j, j-1)
			}
		}
		in.ex.noteStub("sort.Slice = insertion sort driving the real less closure")
		return nil
	}
	reg("sort.Slice", sortSlice)
	reg("sort.SliceStable", sortSlice)

	// strings.ToLower / ToUpper: ASCII case mapping byte by byte; inputs that can
	// contain bytes >= 0x80 (multi-byte UTF-8 folding) are outside the model.
	caseMap := func(lower bool) intrinsic {
		return func(in *Interp, fn *ssa.Function, a []Value) Value {
			bs := in.bytesOf(a[0])
			st := in.st
			out := make([]*Term, len(bs))
			for i, b := range bs {
				if b.IsConst() {
					if b.C >= 0x80 {
						in.unsupported("strings case mapping on non-ASCII byte")
					}
				} else if in.fork2(st.ULe(st.Const(8, 0x80), b)) {
					in.unsupported("strings case mapping on non-ASCII byte")
				}
				if lower {
					isU := st.And(st.ULe(st.Const(8, 'A'), b), st.ULe(b, st.Const(8, 'Z')))
					out[i] = st.Ite(isU, st.Add(b, st.Const(8, 32)), b)
				} else {
					isL := st.And(st.ULe(st.Const(8, 'a'), b), st.ULe(b, st.Const(8, 'z')))
					out[i] = st.Ite(isL, st.Sub(b, st.Const(8, 32)), b)
				}
			}
			in.ex.noteStub("strings.ToLower/ToUpper = byte-wise ASCII mapping (non-ASCII input is unsupported, not assumed away)")
			return in.mkStr(out)
		}
	}
	reg("strings.ToLower", caseMap(true))
	reg("strings.ToUpper", caseMap(false))
	reg("(*strings.Builder).copyCheck", func(in *Interp, fn *ssa.Function, a []Value) Value { return nil })
	reg("(*strings.Builder).String", func(in *Interp, fn *ssa.Function, a []Value) Value {
		p := a[0].(Ptr)
		agg, ok := in.load(p).(*Agg)
		if !ok || len(agg.E) < 2 {
			in.unsupported("strings.Builder layout")
		}
		sl, _ := agg.E[1].(SliceV)
		return in.mkStr(in.bytesOf(sl))
	})

	// strconv formatting of numbers: exact for concrete operands, an opaque
	// placeholder string otherwise (message text is never the subject of a property)
	numFmt := func(signed bool) intrinsic {
		return func(in *Interp, fn *ssa.Function, a []Value) Value {
			x := a[0].(*Term)
			base := 10
			if len(a) > 1 {
				if b, ok := a[1].(*Term); ok && b.IsConst() {
					base = int(b.C)
				}
			}
			if x.IsConst() && base >= 2 && base <= 36 {
				if signed {
					return StrV{S: strconv.FormatInt(sext64(x.C, x.S.W), base)}
				}
				return StrV{S: strconv.FormatUint(x.C, base)}
			}
			in.ex.noteStub("strconv number formatting with a symbolic operand returns a placeholder string")
			return StrV{S: "<num>"}
		}
	}
	reg("strconv.FormatUint", numFmt(false))
	reg("strconv.FormatInt", numFmt(true))
	reg("strconv.Itoa", numFmt(true))

	reg("runtime.SetFinalizer", func(in *Interp, fn *ssa.Function, a []Value) Value { return nil })
	reg("os.Exit", func(in *Interp, fn *ssa.Function, a []Value) Value {
		in.goPanic("os.Exit called")
		return nil
	})
	reg("runtime/debug.PrintStack", func(in *Interp, fn *ssa.Function, a []Value) Value { return nil })
	reg("runtime/debug.Stack", func(in *Interp, fn *ssa.Function, a []Value) Value { return SliceV{} })
}

var _ = fmt.Sprint

// ---- net: address parsing on concrete strings is computed natively ----
//
// net.SplitHostPort / net.ParseIP / IP.IsLoopback / IP.String / IP.To4 /
// IP.Equal are pure functions of their (here always concrete) arguments; the
// standard library's implementation (netip, unique handles, unsafe) is not
// interpreted.

func (in *Interp) concreteBytesOf(v Value, what string) []byte {
	sl, ok := v.(SliceV)
	if !ok {
		in.unsupported(what + ": expected a byte slice")
	}
	if sl.Arr == nil {
		return nil
	}
	c, ok := in.allConcrete(in.bytesOf(v))
	if !ok {
		in.unsupported(what + ": symbolic bytes")
	}
	return c
}

func (in *Interp) rawBytesToSlice(b []byte) Value {
	if b == nil {
		return SliceV{}
	}
	arr := in.newArrayLoc(types.Typ[types.Uint8], len(b))
	for i, x := range b {
		arr.Kids[i].V = in.st.Const(8, uint64(x))
	}
	return SliceV{Arr: arr, Len: len(b), Cap: len(b)}
}

func registerNet(reg func(string, intrinsic)) {
	note := func(in *Interp) {
		in.ex.noteStub("net.SplitHostPort / ParseIP / IP methods on concrete arguments are computed natively")
	}
	reg("net.SplitHostPort", func(in *Interp, fn *ssa.Function, a []Value) Value {
		note(in)
		h, p, err := net.SplitHostPort(in.argStr(a[0]))
		var e Value = IfaceV{}
		if err != nil {
			e = in.newError(StrV{S: err.Error()})
		}
		return Tuple{StrV{S: h}, StrV{S: p}, e}
	})
	reg("net.ParseIP", func(in *Interp, fn *ssa.Function, a []Value) Value {
		note(in)
		return in.rawBytesToSlice(net.ParseIP(in.argStr(a[0])))
	})
	reg("(net.IP).IsLoopback", func(in *Interp, fn *ssa.Function, a []Value) Value {
		return in.st.Bool(net.IP(in.concreteBytesOf(a[0], "IP.IsLoopback")).IsLoopback())
	})
	reg("(net.IP).String", func(in *Interp, fn *ssa.Function, a []Value) Value {
		return StrV{S: net.IP(in.concreteBytesOf(a[0], "IP.String")).String()}
	})
	reg("(net.IP).To4", func(in *Interp, fn *ssa.Function, a []Value) Value {
		return in.rawBytesToSlice(net.IP(in.concreteBytesOf(a[0], "IP.To4")).To4())
	})
	reg("(net.IP).Equal", func(in *Interp, fn *ssa.Function, a []Value) Value {
		return in.st.Bool(net.IP(in.concreteBytesOf(a[0], "IP.Equal")).Equal(net.IP(in.concreteBytesOf(a[1], "IP.Equal"))))
	})
}
