package sym

import (
	"fmt"
	"strconv"

	"golang.org/x/tools/go/ssa"
)

func registerMisc(reg func(string, intrinsic)) {
	sortSlice := func(in *Interp, fn *ssa.Function, a []Value) Value {
		iv, ok := a[0].(IfaceV)
		if !ok {
			in.unsupported("sort.Slice arg")
		}
		s, ok := iv.V.(SliceV)
		if !ok {
			in.unsupported("sort.Slice on non-slice")
		}
		less := a[1]
		el := in.sliceElems(s)
		n := len(el)
		swap := func(i, j int) {
			vi, vj := in.loadLoc(el[i]), in.loadLoc(el[j])
			in.storeLoc(el[i], vj)
			in.storeLoc(el[j], vi)
		}
		for i := 1; i < n; i++ {
			for j := i; j > 0; j-- {
				r := in.callValue(less, []Value{in.st.Const(64, uint64(j)), in.st.Const(64, uint64(j-1))}).(*Term)
				if !in.fork2(r) {
					break
				}
				swap(j, j-1)
			}
		}
		in.ex.noteStub("sort.Slice = insertion sort driving the real less closure")
		return nil
	}
	reg("sort.Slice", sortSlice)
	reg("sort.SliceStable", sortSlice)

	// strings.ToLower / ToUpper: ASCII case mapping byte by byte; inputs that can
	// contain bytes >= 0x80 (multi-byte UTF-8 folding) are outside the model.
	caseMap := func(lower bool) intrinsic {
		return func(in *Interp, fn *ssa.Function, a []Value) Value {
			bs := in.bytesOf(a[0])
			st := in.st
			out := make([]*Term, len(bs))
			for i, b := range bs {
				if b.IsConst() {
					if b.C >= 0x80 {
						in.unsupported("strings case mapping on non-ASCII byte")
					}
				} else if in.fork2(st.ULe(st.Const(8, 0x80), b)) {
					in.unsupported("strings case mapping on non-ASCII byte")
				}
				if lower {
					isU := st.And(st.ULe(st.Const(8, 'A'), b), st.ULe(b, st.Const(8, 'Z')))
					out[i] = st.Ite(isU, st.Add(b, st.Const(8, 32)), b)
				} else {
					isL := st.And(st.ULe(st.Const(8, 'a'), b), st.ULe(b, st.Const(8, 'z')))
					out[i] = st.Ite(isL, st.Sub(b, st.Const(8, 32)), b)
				}
			}
			in.ex.noteStub("strings.ToLower/ToUpper = byte-wise ASCII mapping (non-ASCII input is unsupported, not assumed away)")
			return in.mkStr(out)
		}
	}
	reg("strings.ToLower", caseMap(true))
	reg("strings.ToUpper", caseMap(false))
	reg("(*strings.Builder).copyCheck", func(in *Interp, fn *ssa.Function, a []Value) Value { return nil })
	reg("(*strings.Builder).String", func(in *Interp, fn *ssa.Function, a []Value) Value {
		p := a[0].(Ptr)
		agg, ok := in.load(p).(*Agg)
		if !ok || len(agg.E) < 2 {
			in.unsupported("strings.Builder layout")
		}
		sl, _ := agg.E[1].(SliceV)
		return in.mkStr(in.bytesOf(sl))
	})

	// strconv formatting of numbers: exact for concrete operands, an opaque
	// placeholder string otherwise (message text is never the subject of a property)
	numFmt := func(signed bool) intrinsic {
		return func(in *Interp, fn *ssa.Function, a []Value) Value {
			x := a[0].(*Term)
			base := 10
			if len(a) > 1 {
				if b, ok := a[1].(*Term); ok && b.IsConst() {
					base = int(b.C)
				}
			}
			if x.IsConst() && base >= 2 && base <= 36 {
				if signed {
					return StrV{S: strconv.FormatInt(sext64(x.C, x.S.W), base)}
				}
				return StrV{S: strconv.FormatUint(x.C, base)}
			}
			in.ex.noteStub("strconv number formatting with a symbolic operand returns a placeholder string")
			return StrV{S: "<num>"}
		}
	}
	reg("strconv.FormatUint", numFmt(false))
	reg("strconv.FormatInt", numFmt(true))
	reg("strconv.Itoa", numFmt(true))

	reg("runtime.SetFinalizer", func(in *Interp, fn *ssa.Function, a []Value) Value { return nil })
	reg("os.Exit", func(in *Interp, fn *ssa.Function, a []Value) Value {
		in.goPanic("os.Exit called")
		return nil
	})
	reg("runtime/debug.PrintStack", func(in *Interp, fn *ssa.Function, a []Value) Value { return nil })
	reg("runtime/debug.Stack", func(in *Interp, fn *ssa.Function, a []Value) Value { return SliceV{} })
}

var _ = fmt.Sprint
