package sym

import (
	"fmt"

	"golang.org/x/tools/go/ssa"
)

func registerMisc(reg func(string, intrinsic)) {
	sortSlice := func(in *Interp, fn *ssa.Function, a []Value) Value {
		iv, ok := a[0].(IfaceV)
		if !ok {
			in.unsupported("sort.Slice arg")
		}
		s, ok := iv.V.(SliceV)
		if !ok {
			in.unsupported("sort.Slice on non-slice")
		}
		less := a[1]
		el := in.sliceElems(s)
		n := len(el)
		swap := func(i, j int) {
			vi, vj := in.loadLoc(el[i]), in.loadLoc(el[j])
			in.storeLoc(el[i], vj)
			in.storeLoc(el[j], vi)
		}
		for i := 1; i < n; i++ {
			for j := i; j > 0; j-- {
				r := in.callValue(less, []Value{in.st.Const(64, uint64(j)), in.st.Const(64, uint64(j-1))}).(*Term)
				if !in.fork2(r) {
					break
				}
				swap(j, j-1)
			}
		}
		in.ex.noteStub("sort.Slice = insertion sort driving the real less closure")
		return nil
	}
	reg("sort.Slice", sortSlice)
	reg("sort.SliceStable", sortSlice)

	reg("runtime.SetFinalizer", func(in *Interp, fn *ssa.Function, a []Value) Value { return nil })
	reg("os.Exit", func(in *Interp, fn *ssa.Function, a []Value) Value {
		in.goPanic("os.Exit called")
		return nil
	})
	reg("runtime/debug.PrintStack", func(in *Interp, fn *ssa.Function, a []Value) Value { return nil })
	reg("runtime/debug.Stack", func(in *Interp, fn *ssa.Function, a []Value) Value { return SliceV{} })
}

var _ = fmt.Sprint
