package sym

import (
	"math/big"
	"math/rand"
	"fmt"
	"go/constant"
	"os"
	"path/filepath"
	"sort"
	"strings"
	"sync"
	"time"

	"golang.org/x/tools/go/packages"
	"golang.org/x/tools/go/ssa"
	"golang.org/x/tools/go/ssa/ssautil"
)

type Explorer struct {
	Prog *ssa.Program
	Pkgs []*ssa.Package
	cfg  Config

	mu      sync.Mutex
	cond    *sync.Cond
	queue   [][]int
	active  int
	stopped bool

	Violations        []*Violation
	vioSeen           map[string]bool
	vioCount          map[string]int
	Status            map[string]int
	Reached           map[string]bool
	Asserts           map[string]bool
	Unknowns          int
	Disagree          int
	Unwinds           map[string]int
	Bounds            map[string]int
	Stubs             map[string]bool
	Unsupported       map[string]int
	Inconclusive      []string
	Paths             int64
	Instrs            int64
	Queries           int
	SolverTime        time.Duration
	NSat, NUnsat      int
	Encoded           map[string]bool
	Samples           []string
	MaxPaths          int64
	Deadline          time.Time
	Workers           int
	SolverName        string
	TimeoutMs         int
	xcheck            string
	reachBusy            map[string]bool
	PerHarness           map[string]string // harness -> "paths=N wall=Ts"
	AbsQueries, AbsUnsat int
	AbsTime              time.Duration
	PathLimitHit      bool
	Tier              int
	Verbose           bool
	curHarness        string
	MaxViol           int
	Fallbacks         []string
	FallbackTimeoutMs int
	FallbackUsed      map[string]int
}

func Load(repo string, overlay map[string][]byte, patterns []string, tags string) (*ssa.Program, []*ssa.Package, []*packages.Package, error) {
	cfg := &packages.Config{
		Mode:       packages.LoadAllSyntax,
		Dir:        repo,
		Overlay:    overlay,
		BuildFlags: []string{"-tags=" + tags, "-mod=mod"},
		Env:        append(os.Environ(), "GOFLAGS=-mod=mod", "GOPROXY=off", "GOSUMDB=off", "GOTOOLCHAIN=local"),
	}
	pkgs, err := packages.Load(cfg, patterns...)
	if err != nil {
		return nil, nil, nil, err
	}
	var errs []string
	packages.Visit(pkgs, nil, func(p *packages.Package) {
		for _, e := range p.Errors {
			errs = append(errs, e.Error())
		}
	})
	if len(errs) > 0 {
		if len(errs) > 20 {
			errs = errs[:20]
		}
		return nil, nil, nil, fmt.Errorf("package errors:\n%s", strings.Join(errs, "\n"))
	}
	prog, spkgs := ssautil.AllPackages(pkgs, ssa.InstantiateGenerics)
	prog.Build()
	return prog, spkgs, pkgs, nil
}

func NewExplorer(prog *ssa.Program, cfg Config) *Explorer {
	ex := &Explorer{Prog: prog, cfg: cfg}
	ex.cond = sync.NewCond(&ex.mu)
	ex.vioSeen = map[string]bool{}
	ex.vioCount = map[string]int{}
	ex.Status = map[string]int{}
	ex.Reached = map[string]bool{}
	ex.reachBusy = map[string]bool{}
	ex.Asserts = map[string]bool{}
	ex.Unwinds = map[string]int{}
	ex.Bounds = map[string]int{}
	ex.Stubs = map[string]bool{}
	ex.Unsupported = map[string]int{}
	ex.Encoded = map[string]bool{}
	ex.Workers = 16
	ex.SolverName = "z3"
	ex.TimeoutMs = 8000
	ex.MaxPaths = 200000
	ex.MaxViol = 64
	ex.Fallbacks = []string{"cvc5-iand", "cvc5", "z3-new"}
	ex.FallbackTimeoutMs = 60000
	ex.FallbackUsed = map[string]int{}
	return ex
}

func (ex *Explorer) SetXCheck(s string) { ex.xcheck = s }

func (ex *Explorer) push(p []int) {
	ex.mu.Lock()
	ex.queue = append(ex.queue, p)
	ex.mu.Unlock()
	ex.cond.Signal()
}

func (ex *Explorer) pop() ([]int, bool) {
	ex.mu.Lock()
	defer ex.mu.Unlock()
	for {
		if ex.stopped {
			return nil, false
		}
		if n := len(ex.queue); n > 0 {
			p := ex.queue[n-1]
			ex.queue = ex.queue[:n-1]
			ex.active++
			return p, true
		}
		if ex.active == 0 {
			ex.cond.Broadcast()
			return nil, false
		}
		ex.cond.Wait()
	}
}

func (ex *Explorer) done() {
	ex.mu.Lock()
	ex.active--
	if ex.active == 0 && len(ex.queue) == 0 {
		ex.cond.Broadcast()
	}
	ex.mu.Unlock()
}

func (ex *Explorer) noteFallback(n string) { ex.mu.Lock(); ex.FallbackUsed[n]++; ex.mu.Unlock() }
func (ex *Explorer) noteUnknown()          { ex.mu.Lock(); ex.Unknowns++; ex.mu.Unlock() }
func (ex *Explorer) noteDisagree()         { ex.mu.Lock(); ex.Disagree++; ex.mu.Unlock() }
func (ex *Explorer) noteUnwind(s string)   { ex.mu.Lock(); ex.Unwinds[s]++; ex.mu.Unlock() }
func (ex *Explorer) noteBound(s string)    { ex.mu.Lock(); ex.Bounds[s]++; ex.mu.Unlock() }
func (ex *Explorer) noteStub(s string)     { ex.mu.Lock(); ex.Stubs[s] = true; ex.mu.Unlock() }
func (ex *Explorer) noteAssert(s string)   { ex.mu.Lock(); ex.Asserts[s] = true; ex.mu.Unlock() }
func (ex *Explorer) noteInconclusive(s string) {
	ex.mu.Lock()
	ex.Inconclusive = append(ex.Inconclusive, s)
	ex.mu.Unlock()
}

// noteReach records a reachability witness. The marker counts only if the
// path condition is satisfiable (checked here, once per marker).
func (ex *Explorer) noteReach(in *Interp, id string) {
	ex.mu.Lock()
	seen := ex.Reached[id]
	if seen || ex.reachBusy[id] {
		ex.mu.Unlock()
		return
	}
	// single flight: one worker decides a marker at a time (the query can be
	// expensive); a failed attempt is retried by a later path
	ex.reachBusy[id] = true
	ex.mu.Unlock()
	defer func() { ex.mu.Lock(); delete(ex.reachBusy, id); ex.mu.Unlock() }()
	r := Unknown
	if in.randomWitness(24) {
		r = Sat
	} else {
		r, _ = in.check(nil, false)
	}
	if r == Sat {
		ex.mu.Lock()
		ex.Reached[id] = true
		ex.mu.Unlock()
	}
}

// randomWitness tries a few concrete assignments of all variables against the
// path condition (exact evaluation, no solver): a hit is a proof of "sat".
func (in *Interp) randomWitness(tries int) bool {
	for _, c := range in.pc {
		if c.hasUF {
			return false
		}
	}
	rng := rand.New(rand.NewSource(int64(len(in.pc))*7919 + 1))
	for k := 0; k < tries; k++ {
		m := Model{}
		for _, v := range in.st.Vars {
			var x *big.Int
			switch {
			case k == 0:
				x = new(big.Int)
			case v.S.K == KBool:
				x = big.NewInt(int64(rng.Intn(2)))
			case v.S.K == KBV:
				u := rng.Uint64()
				if k%3 == 1 {
					u &= 0xff // small values are the common satisfying ones
				}
				x = new(big.Int).SetUint64(u & mask(v.S.W))
			default:
				x = big.NewInt(int64(rng.Intn(1000)))
			}
			m[v.Name] = x
		}
		cache := map[int32]evalRes{}
		ok := true
		for _, c := range in.pc {
			r, good := in.st.Eval(c, m, cache)
			if !good || r.u != 1 {
				ok = false
				break
			}
		}
		if ok {
			return true
		}
	}
	return false
}

func (ex *Explorer) addViolation(v *Violation) {
	ex.mu.Lock()
	defer ex.mu.Unlock()
	base := v.Harness + "|" + v.ID + "|" + v.Site
	var cs strings.Builder
	for _, d := range v.Draws {
		if d.Kind == "choose" {
			cs.WriteString(d.Val)
			cs.WriteByte(',')
		}
	}
	sig := base + "|" + cs.String()
	if ex.vioSeen[sig] || ex.vioCount[base] >= 4 {
		return
	}
	ex.vioSeen[sig] = true
	ex.vioCount[base]++
	ex.Violations = append(ex.Violations, v)
	if len(ex.Violations) >= ex.MaxViol {
		ex.stopped = true
		ex.cond.Broadcast()
	}
}

func (ex *Explorer) crossCheck(in *Interp, conds []*Term) SatResult {
	if in.ex == nil {
		return Unknown
	}
	w := in.xsolver()
	if w == nil {
		return Unknown
	}
	r, _ := w.Check(conds, false, nil)
	return r
}

type worker struct {
	in *Interp
	x  *Solver
}

var xsolvers sync.Map // *Interp -> *Solver

func (in *Interp) xsolver() *Solver {
	if s, ok := xsolvers.Load(in); ok {
		return s.(*Solver)
	}
	s, err := NewSolver(in.ex.xcheck, in.st, in.ex.TimeoutMs)
	if err != nil {
		return nil
	}
	xsolvers.Store(in, s)
	return s
}

// RunHarness explores all paths of harness function h.
func (ex *Explorer) RunHarness(h *ssa.Function, name string) {
	ex.mu.Lock()
	ex.queue = [][]int{{}}
	ex.active = 0
	ex.stopped = false
	ex.curHarness = name
	ex.mu.Unlock()
	var wg sync.WaitGroup
	var pathsThis int64
	tStart := time.Now()
	defer func() {
		ex.mu.Lock()
		if ex.PerHarness == nil {
			ex.PerHarness = map[string]string{}
		}
		ex.PerHarness[name] = fmt.Sprintf("paths=%d wall=%.1fs", pathsThis, time.Since(tStart).Seconds())
		ex.mu.Unlock()
	}()
	for i := 0; i < ex.Workers; i++ {
		wg.Add(1)
		go func(wid int) {
			defer wg.Done()
			in := NewInterp(ex.Prog, ex.cfg, ex)
			in.harness = name
			solverName := ex.SolverName
			if strings.Contains(name, "_fp_") || strings.Contains(name, "_cvc5_") {
				solverName = "cvc5" // floating-point harness: cvc5 decides IEEE-754 queries that stall z3
			}
			s, err := NewSolver(solverName, in.st, ex.TimeoutMs)
			if err != nil {
				ex.noteInconclusive("cannot start solver: " + err.Error())
				return
			}
			in.solver = s
			if d := os.Getenv("SYMGO_DUMP"); d != "" {
				os.MkdirAll(d, 0o755)
				if f, err := os.Create(filepath.Join(d, fmt.Sprintf("%s-w%d.smt2", name, wid))); err == nil {
					s.Log = f
					defer f.Close()
				}
			}
			defer func() {
				s.Close()
				if in.absSolver != nil {
					ex.mu.Lock()
					ex.Queries += in.absSolver.Queries
					ex.AbsQueries += in.absSolver.Queries
					ex.AbsTime += in.absSolver.Time
					ex.AbsUnsat += in.absSolver.NUnsat
					ex.SolverTime += in.absSolver.Time
					ex.NSat += in.absSolver.NSat
					ex.NUnsat += in.absSolver.NUnsat
					ex.mu.Unlock()
					in.absSolver.Close()
				}
				in.closeFallbacks()
				if x, ok := xsolvers.Load(in); ok {
					x.(*Solver).Close()
					xsolvers.Delete(in)
				}
				ex.mu.Lock()
				ex.Queries += s.Queries
				ex.SolverTime += s.Time
				ex.NSat += s.NSat
				ex.NUnsat += s.NUnsat
				ex.Instrs += in.Instrs
				for k := range in.encoded {
					ex.Encoded[k] = true
				}
				ex.mu.Unlock()
			}()
			for {
				p, ok := ex.pop()
				if !ok {
					return
				}
				status, msg := ex.runPath(in, h, p)
				ex.mu.Lock()
				ex.Status[status]++
				ex.Paths++
				pathsThis++
				if status == "unsupported" {
					ex.Unsupported[msg]++
				}
				if len(ex.Samples) < 6 && (status == "done" || status == "violation") {
					ex.Samples = append(ex.Samples, in.samplePath(status))
				}
				if ex.Verbose {
					fmt.Fprintf(os.Stderr, "[%s] path %d: %s %s (trace len %d)\n", name, ex.Paths, status, msg, len(in.trace))
				}
				if pathsThis > ex.MaxPaths || (!ex.Deadline.IsZero() && time.Now().After(ex.Deadline)) {
					if !ex.stopped {
						ex.PathLimitHit = true
						ex.stopped = true
						ex.cond.Broadcast()
					}
				}
				ex.mu.Unlock()
				ex.done()
				if s.dead {
					ex.noteInconclusive("solver process died")
					s2, err := NewSolver(ex.SolverName, in.st, ex.TimeoutMs)
					if err != nil {
						return
					}
					ex.mu.Lock()
					ex.Queries += s.Queries
					ex.SolverTime += s.Time
					ex.mu.Unlock()
					s = s2
					in.solver = s2
				}
			}
		}(i)
	}
	wg.Wait()
}

func (in *Interp) samplePath(status string) string {
	var b strings.Builder
	fmt.Fprintf(&b, "%s: %s; decisions=%d; pc(", in.harness, status, len(in.trace))
	for i, c := range in.pc {
		if i >= 4 {
			fmt.Fprintf(&b, " …+%d", len(in.pc)-4)
			break
		}
		if i > 0 {
			b.WriteString(" ∧ ")
		}
		s := c.String()
		if len(s) > 120 {
			s = s[:120] + "…"
		}
		b.WriteString(s)
	}
	b.WriteString(")")
	return b.String()
}

func (ex *Explorer) runPath(in *Interp, h *ssa.Function, prefix []int) (status, msg string) {
	in.resetPath(prefix)
	in.curFrame = nil
	defer func() {
		if r := recover(); r != nil {
			switch e := r.(type) {
			case *pathEnd:
				status, msg = e.Status, e.Msg
				if in.abstractArith && (status == "unsupported" || status == "unwound" || status == "bound") {
					in.abstractArith = false
					if r, _ := in.check(nil, false); r == Unsat {
						status, msg = "assume", "path infeasible under exact arithmetic"
					}
				}
			case *goPanicV:
				// a Go panic escaped the harness: report as a violation (needs a model)
				func() {
					defer func() {
						if r2 := recover(); r2 != nil {
							if pe, ok := r2.(*pathEnd); ok {
								status, msg = pe.Status, pe.Msg
								return
							}
							panic(r2)
						}
					}()
					in.violationAtF("panic:uncaught", e.Msg, e.Site, e.Func)
				}()
			default:
				// engine bug: report as unsupported with message
				status, msg = "unsupported", fmt.Sprintf("engine panic: %v", r)
				if os.Getenv("SYMGO_DEBUG") != "" {
					panic(r)
				}
			}
		}
	}()
	in.callFn(h, nil, nil)
	return "done", ""
}

// FindHarnesses lists functions named ZZ_<prop>_* in the given packages.
func FindHarnesses(pkgs []*ssa.Package, prop string) []*ssa.Function {
	var hs []*ssa.Function
	for _, p := range pkgs {
		if p == nil {
			continue
		}
		for name, m := range p.Members {
			f, ok := m.(*ssa.Function)
			if !ok {
				continue
			}
			if strings.HasPrefix(name, "ZZ_"+prop+"_") {
				hs = append(hs, f)
			}
		}
	}
	sort.Slice(hs, func(i, j int) bool { return hs[i].String() < hs[j].String() })
	return hs
}

// BuildOverlay maps harness sources under hdir into repo paths.
func BuildOverlay(hdir, repo string, filter func(rel string) bool) (map[string][]byte, []string, error) {
	ov := map[string][]byte{}
	dirs := map[string]bool{}
	err := filepath.Walk(hdir, func(p string, fi os.FileInfo, err error) error {
		if err != nil {
			return err
		}
		if fi.IsDir() || !strings.HasSuffix(p, ".go") {
			return nil
		}
		rel, _ := filepath.Rel(hdir, p)
		if !filter(rel) {
			return nil
		}
		b, err := os.ReadFile(p)
		if err != nil {
			return err
		}
		target := filepath.Join(repo, rel)
		if strings.HasPrefix(rel, "nd/") {
			target = filepath.Join(repo, "zzverif", rel)
		} else {
			dirs["./"+filepath.Dir(rel)] = true
		}
		ov[target] = b
		return nil
	})
	var ds []string
	for d := range dirs {
		ds = append(ds, d)
	}
	sort.Strings(ds)
	return ov, ds, err
}

// ReachMarkers lists the constant ids of nd.Reach calls in h and its closures.
func ReachMarkers(h *ssa.Function) []string {
	var out []string
	seen := map[*ssa.Function]bool{}
	var walk func(f *ssa.Function)
	walk = func(f *ssa.Function) {
		if seen[f] {
			return
		}
		seen[f] = true
		for _, b := range f.Blocks {
			for _, ins := range b.Instrs {
				if c, ok := ins.(*ssa.Call); ok {
					if callee := c.Call.StaticCallee(); callee != nil && callee.String() == ndPkg+".Reach" {
						if k, ok := c.Call.Args[0].(*ssa.Const); ok && k.Value != nil {
							out = append(out, constant.StringVal(k.Value))
						}
					}
				}
			}
		}
		for _, a := range f.AnonFuncs {
			walk(a)
		}
	}
	walk(h)
	return out
}
