package sym

import (
	"fmt"
	"go/token"
	"go/types"
	"math"

	"golang.org/x/tools/go/ssa"
)

func (in *Interp) unop(fr *frame, x *ssa.UnOp) Value {
	st := in.st
	v := in.get(fr, x.X)
	switch x.Op {
	case token.MUL: // load
		p, ok := v.(Ptr)
		if !ok {
			if po, isP := v.(Poison); isP {
				in.unsupported("load through poisoned pointer: " + po.Why)
			}
			in.unsupported(fmt.Sprintf("load through %T", v))
		}
		return in.load(p)
	case token.NOT:
		return st.Not(v.(*Term))
	case token.SUB:
		t := v.(*Term)
		if t.S.K == KFP {
			return st.FNeg(t)
		}
		return st.Neg(t)
	case token.XOR:
		return st.BNot(v.(*Term))
	case token.ARROW:
		in.unsupported("channel receive")
	}
	in.unsupported("unop " + x.Op.String())
	return nil
}

func (in *Interp) binop(op token.Token, a, b Value, ta, tb types.Type) Value {
	st := in.st
	switch op {
	case token.EQL:
		return in.valEq(a, b)
	case token.NEQ:
		return st.Not(in.valEq(a, b))
	}
	// strings
	if sa, ok := a.(StrV); ok {
		sb := b.(StrV)
		switch op {
		case token.ADD:
			if sa.Sym == nil && sb.Sym == nil {
				return StrV{S: sa.S + sb.S}
			}
			r := make([]*Term, 0, sa.Len()+sb.Len())
			for i := 0; i < sa.Len(); i++ {
				r = append(r, in.strByte(sa, i))
			}
			for i := 0; i < sb.Len(); i++ {
				r = append(r, in.strByte(sb, i))
			}
			return in.mkStr(r)
		case token.LSS, token.LEQ, token.GTR, token.GEQ:
			ca, ok1 := in.strConcrete(sa)
			cb, ok2 := in.strConcrete(sb)
			if ok1 && ok2 {
				switch op {
				case token.LSS:
					return st.Bool(ca < cb)
				case token.LEQ:
					return st.Bool(ca <= cb)
				case token.GTR:
					return st.Bool(ca > cb)
				case token.GEQ:
					return st.Bool(ca >= cb)
				}
			}
			// symbolic lexicographic compare
			lt := in.lexLess(sa, sb)
			eq := in.valEq(sa, sb)
			switch op {
			case token.LSS:
				return lt
			case token.LEQ:
				return st.Or(lt, eq)
			case token.GTR:
				return st.Not(st.Or(lt, eq))
			case token.GEQ:
				return st.Not(lt)
			}
		}
		in.unsupported("string op " + op.String())
	}
	x, ok1 := a.(*Term)
	y, ok2 := b.(*Term)
	if !ok1 || !ok2 {
		if p, ok := a.(Poison); ok {
			in.unsupported("binop on poison: " + p.Why)
		}
		if p, ok := b.(Poison); ok {
			in.unsupported("binop on poison: " + p.Why)
		}
		in.unsupported(fmt.Sprintf("binop %s on %T,%T", op, a, b))
	}
	if x.S.K == KBool {
		switch op {
		case token.AND, token.LAND:
			return st.And(x, y)
		case token.OR, token.LOR:
			return st.Or(x, y)
		case token.XOR:
			return st.Not(st.Eq(x, y))
		}
		in.unsupported("bool op " + op.String())
	}
	if x.S.K == KFP {
		f32 := false
		if bt, ok := ta.Underlying().(*types.Basic); ok && bt.Kind() == types.Float32 {
			f32 = true
		}
		if f32 && !(x.IsConst() && y.IsConst()) {
			in.unsupported("symbolic float32 arithmetic")
		}
		var r Value
		switch op {
		case token.ADD:
			r = st.FAdd(x, y)
		case token.SUB:
			r = st.FSub(x, y)
		case token.MUL:
			r = st.FMul(x, y)
		case token.QUO:
			r = st.FDiv(x, y)
		case token.LSS:
			return st.FLt(x, y)
		case token.LEQ:
			return st.FLe(x, y)
		case token.GTR:
			return st.FLt(y, x)
		case token.GEQ:
			return st.FLe(y, x)
		default:
			in.unsupported("float op " + op.String())
		}
		if f32 {
			t := r.(*Term)
			r = st.FPConst(float64(float32(math.Float64frombits(t.C))))
		}
		return r
	}
	signed := isSigned(ta)
	w := x.S.W
	switch op {
	case token.SHL, token.SHR:
		// shift count: unsigned (or signed with negative => panic)
		cnt := y
		if isSigned(tb) {
			neg := st.SLt(cnt, st.Const(cnt.S.W, 0))
			if !in.fork2(st.Not(neg)) {
				in.goPanic("negative shift amount")
			}
		}
		// bring count to width w, saturating
		var c *Term
		if cnt.S.W > w {
			big := st.Not(st.ULt(cnt, st.Const(cnt.S.W, uint64(w))))
			c = st.Ite(big, st.Const(w, uint64(w)), st.Extract(cnt, w-1, 0))
		} else {
			c = st.ZExt(cnt, w)
		}
		if op == token.SHL {
			return st.Shl(x, c)
		}
		if signed {
			return st.AShr(x, c)
		}
		return st.LShr(x, c)
	}
	if x.S != y.S {
		in.unsupported(fmt.Sprintf("binop %s width mismatch %v %v", op, x.S, y.S))
	}
	switch op {
	case token.ADD:
		return st.Add(x, y)
	case token.SUB:
		return st.Sub(x, y)
	case token.MUL:
		return st.Mul(x, y)
	case token.QUO, token.REM:
		nz := st.Not(st.Eq(y, st.Const(w, 0)))
		if !in.fork2(nz) {
			in.goPanic("integer divide by zero")
		}
		if signed {
			if op == token.QUO {
				return st.SDiv(x, y)
			}
			return st.SRem(x, y)
		}
		if op == token.QUO {
			return st.UDiv(x, y)
		}
		return st.URem(x, y)
	case token.AND:
		return st.BAnd(x, y)
	case token.OR:
		return st.BOr(x, y)
	case token.XOR:
		return st.BXor(x, y)
	case token.AND_NOT:
		return st.BAnd(x, st.BNot(y))
	case token.LSS:
		if signed {
			return st.SLt(x, y)
		}
		return st.ULt(x, y)
	case token.LEQ:
		if signed {
			return st.SLe(x, y)
		}
		return st.ULe(x, y)
	case token.GTR:
		if signed {
			return st.SLt(y, x)
		}
		return st.ULt(y, x)
	case token.GEQ:
		if signed {
			return st.SLe(y, x)
		}
		return st.ULe(y, x)
	}
	in.unsupported("binop " + op.String())
	return nil
}

func (in *Interp) lexLess(a, b StrV) *Term {
	st := in.st
	n := a.Len()
	if b.Len() < n {
		n = b.Len()
	}
	// a<b iff exists i: prefix equal and a[i]<b[i], or prefix(n) equal and len(a)<len(b)
	res := st.Bool(a.Len() < b.Len())
	for i := n - 1; i >= 0; i-- {
		x, y := in.strByte(a, i), in.strByte(b, i)
		res = st.Ite(st.Eq(x, y), res, st.ULt(x, y))
	}
	return res
}

func (in *Interp) convert(v Value, from, to types.Type) Value {
	st := in.st
	fu, tu := from.Underlying(), to.Underlying()
	// pointer / unsafe
	if _, ok := tu.(*types.Pointer); ok {
		return v
	}
	if tb, ok := tu.(*types.Basic); ok && tb.Kind() == types.UnsafePointer {
		return v
	}
	if fb, ok := fu.(*types.Basic); ok && fb.Kind() == types.UnsafePointer {
		return v
	}
	// string conversions
	if isString(to) {
		switch x := v.(type) {
		case StrV:
			return x
		case SliceV:
			// []byte or []rune -> string
			et := fu.(*types.Slice).Elem().Underlying().(*types.Basic)
			if et.Kind() == types.Uint8 {
				bs := make([]*Term, 0, x.Len)
				for _, l := range in.sliceElems(x) {
					bs = append(bs, in.loadLoc(l).(*Term))
				}
				return in.mkStr(bs)
			}
			// runes
			rs := make([]rune, 0, x.Len)
			for _, l := range in.sliceElems(x) {
				t := in.loadLoc(l).(*Term)
				if !t.IsConst() {
					in.unsupported("symbolic []rune to string")
				}
				rs = append(rs, rune(int32(t.C)))
			}
			return StrV{S: string(rs)}
		case *Term:
			if !x.IsConst() {
				in.unsupported("symbolic int to string")
			}
			return StrV{S: string(rune(sext64(x.C, x.S.W)))}
		}
	}
	if isString(from) {
		s := v.(StrV)
		sl, ok := tu.(*types.Slice)
		if !ok {
			in.unsupported("string conversion to " + to.String())
		}
		et := sl.Elem().Underlying().(*types.Basic)
		if et.Kind() == types.Uint8 {
			n := s.Len()
			arr := in.newArrayLoc(sl.Elem(), n)
			for i := 0; i < n; i++ {
				arr.Kids[i].V = in.strByte(s, i)
			}
			return SliceV{Arr: arr, Len: n, Cap: n}
		}
		cs, ok := in.strConcrete(s)
		if !ok {
			in.unsupported("symbolic string to []rune")
		}
		rs := []rune(cs)
		arr := in.newArrayLoc(sl.Elem(), len(rs))
		for i, r := range rs {
			arr.Kids[i].V = st.Const(32, uint64(r))
		}
		return SliceV{Arr: arr, Len: len(rs), Cap: len(rs)}
	}
	x, ok := v.(*Term)
	if !ok {
		// same-representation conversions (slices, structs, funcs)
		return v
	}
	tb, ok := tu.(*types.Basic)
	if !ok {
		in.unsupported("convert to " + to.String())
	}
	ts, ok := in.sortOfBasic(tb)
	if !ok {
		in.unsupported("convert to basic " + tb.String())
	}
	switch {
	case x.S.K == KBV && ts.K == KBV:
		if ts.W <= x.S.W {
			return st.Extract(x, ts.W-1, 0)
		}
		if isSigned(from) {
			return st.SExt(x, ts.W)
		}
		return st.ZExt(x, ts.W)
	case x.S.K == KBV && ts.K == KFP:
		var r *Term
		if isSigned(from) {
			r = st.FFromSBV(x)
		} else {
			r = st.FFromUBV(x)
		}
		if tb.Kind() == types.Float32 {
			if !r.IsConst() {
				in.unsupported("symbolic int to float32")
			}
			r = st.FPConst(float64(float32(math.Float64frombits(r.C))))
		}
		return r
	case x.S.K == KFP && ts.K == KFP:
		if tb.Kind() == types.Float32 {
			if !x.IsConst() {
				in.unsupported("symbolic float64 to float32")
			}
			return st.FPConst(float64(float32(math.Float64frombits(x.C))))
		}
		return x
	case x.S.K == KFP && ts.K == KBV:
		return in.floatToInt(x, ts.W, isSigned(to))
	case x.S.K == KBool && ts.K == KBool:
		return x
	}
	in.unsupported(fmt.Sprintf("convert %v -> %v", from, to))
	return nil
}

// floatToInt implements Go/amd64 float64 -> integer conversion.
// In range: truncation toward zero. Out of range / NaN (amd64):
//
//	signed 64/32/16/8 via CVTTSD2SQ: 0x8000000000000000 then truncated to width
//	unsigned 64: values >= 2^63 handled by subtracting 2^63; otherwise as signed
func (in *Interp) floatToInt(x *Term, w int, signed bool) Value {
	st := in.st
	if x.IsConst() {
		f := math.Float64frombits(x.C)
		var r uint64
		if signed || w < 64 {
			r = uint64(cvttsd2sq(f))
		} else {
			r = goF2U64(f)
		}
		return st.Const(w, r)
	}
	if x.Op == OIte {
		// push the conversion into ite trees (tables of constants)
		memo := map[int32]*Term{}
		var rec func(t *Term) *Term
		rec = func(t *Term) *Term {
			if r, ok := memo[t.ID]; ok {
				return r
			}
			var r *Term
			if t.Op == OIte {
				r = st.Ite(t.Args[0], rec(t.Args[1]), rec(t.Args[2]))
			} else {
				r = in.floatToInt(t, w, signed).(*Term)
			}
			memo[t.ID] = r
			return r
		}
		return rec(x)
	}
	two63 := st.FPConst(9223372036854775808.0)
	inRange := st.And(st.FLt(st.FPConst(-9223372036854777856.0), x), st.FLt(x, two63)) // (-2^63-2048.. , 2^63): trunc fits int64
	// precise: x >= -2^63 (exactly representable) and x < 2^63
	inRange = st.And(st.FLe(st.FPConst(-9223372036854775808.0), x), st.FLt(x, two63))
	s64 := st.Ite(inRange, st.FToSBVRaw(x, 64), st.Const(64, 0x8000000000000000))
	if signed || w < 64 {
		return st.Extract(s64, w-1, 0)
	}
	// uint64: if x < 2^63 → as signed; else → signed(x - 2^63) ^ 0x8000...
	y := st.FSub(x, two63)
	yIn := st.And(st.FLe(st.FPConst(-9223372036854775808.0), y), st.FLt(y, two63))
	hi := st.BXor(st.Ite(yIn, st.FToSBVRaw(y, 64), st.Const(64, 0x8000000000000000)), st.Const(64, 0x8000000000000000))
	return st.Ite(st.Not(st.FLe(two63, x)), s64, hi)
}

func cvttsd2sq(f float64) int64 {
	if f != f || f >= 9223372036854775808.0 || f < -9223372036854775808.0 {
		return math.MinInt64
	}
	return int64(f)
}

func goF2U64(f float64) uint64 {
	if !(f >= 9223372036854775808.0) {
		return uint64(cvttsd2sq(f))
	}
	return uint64(cvttsd2sq(f-9223372036854775808.0)) ^ 0x8000000000000000
}
