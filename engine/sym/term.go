// Package sym is the symgo engine: a symbolic interpreter for go/ssa whose
// scalar values are SMT terms.
package sym

import (
	"fmt"
	"math"
	"math/big"
	"math/bits"
	"strings"
)

type Kind uint8

const (
	KBool Kind = iota
	KBV
	KInt
	KFP // float64 only (float32 is widened; see ops)
)

type Sort struct {
	K Kind
	W int
}

var (
	SBool = Sort{KBool, 0}
	SInt  = Sort{KInt, 0}
	SFP   = Sort{KFP, 64}
)

func BV(w int) Sort { return Sort{KBV, w} }

func (s Sort) SMT() string {
	switch s.K {
	case KBool:
		return "Bool"
	case KBV:
		return fmt.Sprintf("(_ BitVec %d)", s.W)
	case KInt:
		return "Int"
	case KFP:
		return "(_ FloatingPoint 11 53)"
	}
	return "?"
}

type Op uint8

const (
	OConst Op = iota
	OVar
	ONot
	OAnd
	OOr
	OIte
	OEq
	OAdd
	OSub
	OMul
	OUDiv
	OURem
	OSDiv
	OSRem
	OBAnd
	OBOr
	OBXor
	OShl
	OLShr
	OAShr
	ONeg
	OBNot
	OULt
	OULe
	OSLt
	OSLe
	OConcat
	OExtract // a=hi b=lo
	OZExt    // a=extra bits
	OSExt
	// Int
	OIAdd
	OISub
	OIMul
	OIDiv // floor-ish: SMT div (euclidean); engine only applies with positive divisor or emits trunc form
	OIMod
	OINeg
	OILe
	OILt
	OInt2BV // a=width
	OBV2Nat
	// FP
	OFAdd
	OFSub
	OFMul
	OFDiv
	OFLt
	OFLe
	OFEq
	OFNeg
	OFFromSBV // signed bv -> fp
	OFFromUBV
	OFToSBV // a=width, RTZ
	OFToUBV
	OFFromBits
	OFToBits
	OFFloor
	OFCeil
	OFIsNaN
	OFIsInf
	OFSqrt
	OUF // name, args
)

type Term struct {
	ID    int32
	Op    Op
	S     Sort
	Args  []*Term
	C     uint64   // BV/Bool const (≤64 bits), FP const bits
	Big   *big.Int // Int const
	Name  string
	A, B  int
	hasUF bool
}

type Store struct {
	tab         map[string]*Term
	terms       []*Term
	Vars        []*Term // in creation order
	varByName   map[string]*Term
	ufDecl      map[string]string // name -> declaration line
	UFOrder     []string
	True, False *Term
}

func NewStore() *Store {
	s := &Store{tab: map[string]*Term{}, varByName: map[string]*Term{}, ufDecl: map[string]string{}}
	s.True = s.mk(&Term{Op: OConst, S: SBool, C: 1})
	s.False = s.mk(&Term{Op: OConst, S: SBool, C: 0})
	return s
}

func (st *Store) key(t *Term) string {
	var b strings.Builder
	fmt.Fprintf(&b, "%d|%d.%d|%d|%d|%d|%s|", t.Op, t.S.K, t.S.W, t.C, t.A, t.B, t.Name)
	if t.Big != nil {
		b.WriteString(t.Big.String())
	}
	for _, a := range t.Args {
		fmt.Fprintf(&b, ",%d", a.ID)
	}
	return b.String()
}

func (st *Store) mk(t *Term) *Term {
	k := st.key(t)
	if x, ok := st.tab[k]; ok {
		return x
	}
	t.ID = int32(len(st.terms))
	for _, a := range t.Args {
		if a.hasUF {
			t.hasUF = true
		}
	}
	if t.Op == OUF || t.S.K == KFP || (t.Op >= OFAdd && t.Op <= OFSqrt) {
		t.hasUF = true // "not evaluable by the cheap evaluator"
	}
	st.terms = append(st.terms, t)
	st.tab[k] = t
	return t
}

func mask(w int) uint64 {
	if w >= 64 {
		return ^uint64(0)
	}
	return (uint64(1) << uint(w)) - 1
}

func (st *Store) Const(w int, v uint64) *Term {
	return st.mk(&Term{Op: OConst, S: BV(w), C: v & mask(w)})
}
func (st *Store) Bool(b bool) *Term {
	if b {
		return st.True
	}
	return st.False
}
func (st *Store) IntConst(v *big.Int) *Term {
	return st.mk(&Term{Op: OConst, S: SInt, Big: new(big.Int).Set(v)})
}
func (st *Store) IntConst64(v int64) *Term { return st.IntConst(big.NewInt(v)) }
func (st *Store) FPConst(f float64) *Term {
	return st.mk(&Term{Op: OConst, S: SFP, C: math.Float64bits(f)})
}

func (st *Store) Var(name string, s Sort) *Term {
	if v, ok := st.varByName[name]; ok {
		if v.S != s {
			panic("var sort clash " + name)
		}
		return v
	}
	v := st.mk(&Term{Op: OVar, S: s, Name: name})
	st.varByName[name] = v
	st.Vars = append(st.Vars, v)
	return v
}

func (t *Term) IsConst() bool { return t.Op == OConst }
func (t *Term) IsTrue() bool  { return t.Op == OConst && t.S.K == KBool && t.C == 1 }
func (t *Term) IsFalse() bool { return t.Op == OConst && t.S.K == KBool && t.C == 0 }

func sext64(v uint64, w int) int64 {
	if w >= 64 {
		return int64(v)
	}
	sh := uint(64 - w)
	return int64(v<<sh) >> sh
}

// ---- boolean ----

func (st *Store) Not(a *Term) *Term {
	if a.IsConst() {
		return st.Bool(a.C == 0)
	}
	if a.Op == ONot {
		return a.Args[0]
	}
	return st.mk(&Term{Op: ONot, S: SBool, Args: []*Term{a}})
}

func (st *Store) And(a, b *Term) *Term {
	if a.IsFalse() || b.IsFalse() {
		return st.False
	}
	if a.IsTrue() {
		return b
	}
	if b.IsTrue() {
		return a
	}
	if a == b {
		return a
	}
	if st.Not(a) == b {
		return st.False
	}
	return st.mk(&Term{Op: OAnd, S: SBool, Args: []*Term{a, b}})
}

func (st *Store) Or(a, b *Term) *Term {
	if a.IsTrue() || b.IsTrue() {
		return st.True
	}
	if a.IsFalse() {
		return b
	}
	if b.IsFalse() {
		return a
	}
	if a == b {
		return a
	}
	if st.Not(a) == b {
		return st.True
	}
	return st.mk(&Term{Op: OOr, S: SBool, Args: []*Term{a, b}})
}

func (st *Store) Implies(a, b *Term) *Term { return st.Or(st.Not(a), b) }

func (st *Store) Ite(c, a, b *Term) *Term {
	if c.IsTrue() {
		return a
	}
	if c.IsFalse() {
		return b
	}
	if a == b {
		return a
	}
	if a.S != b.S {
		panic(fmt.Sprintf("ite sort mismatch %v %v", a.S, b.S))
	}
	if a.S.K == KBool {
		if a.IsTrue() && b.IsFalse() {
			return c
		}
		if a.IsFalse() && b.IsTrue() {
			return st.Not(c)
		}
	}
	return st.mk(&Term{Op: OIte, S: a.S, Args: []*Term{c, a, b}})
}

func (st *Store) Eq(a, b *Term) *Term {
	if a == b {
		if a.S.K != KFP {
			return st.True
		}
	}
	if a.S != b.S {
		panic(fmt.Sprintf("eq sort mismatch %v %v (%s vs %s)", a.S, b.S, a.String(), b.String()))
	}
	if a.IsConst() && b.IsConst() {
		switch a.S.K {
		case KInt:
			return st.Bool(a.Big.Cmp(b.Big) == 0)
		case KFP:
			// structural equality here (used for bit-identity); Go == uses FEq
			return st.Bool(a.C == b.C)
		default:
			return st.Bool(a.C == b.C)
		}
	}
	if a.S.K == KBool {
		if b.IsConst() {
			a, b = b, a
		}
		if a.IsTrue() {
			return b
		}
		if a.IsFalse() {
			return st.Not(b)
		}
	}
	// ite(c, k1, k2) == k : fold
	if b.IsConst() && a.Op == OIte && a.Args[1].IsConst() && a.Args[2].IsConst() && a.S.K == KBV {
		e1 := a.Args[1].C == b.C
		e2 := a.Args[2].C == b.C
		switch {
		case e1 && e2:
			return st.True
		case e1:
			return a.Args[0]
		case e2:
			return st.Not(a.Args[0])
		default:
			return st.False
		}
	}
	if a.ID > b.ID {
		a, b = b, a
	}
	return st.mk(&Term{Op: OEq, S: SBool, Args: []*Term{a, b}})
}

// ---- bit-vectors ----

func (st *Store) bin(op Op, a, b *Term) *Term {
	if a.S != b.S || a.S.K != KBV {
		panic(fmt.Sprintf("bv op %d sort mismatch %v %v", op, a.S, b.S))
	}
	w := a.S.W
	if a.IsConst() && b.IsConst() && w <= 64 {
		x, y := a.C, b.C
		var r uint64
		ok := true
		switch op {
		case OAdd:
			r = x + y
		case OSub:
			r = x - y
		case OMul:
			r = x * y
		case OUDiv:
			if y == 0 {
				r = mask(w)
			} else {
				r = x / y
			}
		case OURem:
			if y == 0 {
				r = x
			} else {
				r = x % y
			}
		case OSDiv:
			sx, sy := sext64(x, w), sext64(y, w)
			if sy == 0 {
				if sx < 0 {
					r = 1
				} else {
					r = mask(w)
				}
			} else if sy == -1 {
				r = uint64(-sx)
			} else {
				r = uint64(sx / sy)
			}
		case OSRem:
			sx, sy := sext64(x, w), sext64(y, w)
			if sy == 0 {
				r = x
			} else if sy == -1 {
				r = 0
			} else {
				r = uint64(sx % sy)
			}
		case OBAnd:
			r = x & y
		case OBOr:
			r = x | y
		case OBXor:
			r = x ^ y
		case OShl:
			if y >= uint64(w) {
				r = 0
			} else {
				r = x << y
			}
		case OLShr:
			if y >= uint64(w) {
				r = 0
			} else {
				r = x >> y
			}
		case OAShr:
			sx := sext64(x, w)
			if y >= uint64(w) {
				if sx < 0 {
					r = mask(w)
				} else {
					r = 0
				}
			} else {
				r = uint64(sx >> y)
			}
		default:
			ok = false
		}
		if ok {
			return st.Const(w, r)
		}
	}
	// light algebraic simplifications
	switch op {
	case OAdd:
		if a.IsConst() && a.C == 0 {
			return b
		}
		if b.IsConst() && b.C == 0 {
			return a
		}
		if a.IsConst() { // constants to the right
			a, b = b, a
		}
		if b.IsConst() && a.Op == OAdd && a.Args[1].IsConst() {
			return st.bin(OAdd, a.Args[0], st.Const(w, a.Args[1].C+b.C))
		}
	case OSub:
		if b.IsConst() && b.C == 0 {
			return a
		}
		if a == b {
			return st.Const(w, 0)
		}
		if b.IsConst() {
			return st.bin(OAdd, a, st.Const(w, -b.C))
		}
	case OMul:
		if a.IsConst() {
			a, b = b, a
		}
		if b.IsConst() {
			if b.C == 0 {
				return b
			}
			if b.C == 1 {
				return a
			}
		}
	case OBAnd:
		if a.IsConst() {
			a, b = b, a
		}
		if b.IsConst() {
			if b.C == 0 {
				return b
			}
			if b.C == mask(w) {
				return a
			}
		}
		if a == b {
			return a
		}
	case OBOr, OBXor:
		if a.IsConst() {
			a, b = b, a
		}
		if b.IsConst() && b.C == 0 {
			return a
		}
		if a == b {
			if op == OBOr {
				return a
			}
			return st.Const(w, 0)
		}
	case OShl, OLShr, OAShr:
		if b.IsConst() && b.C == 0 {
			return a
		}
		if b.IsConst() && b.C >= uint64(w) && op != OAShr {
			return st.Const(w, 0)
		}
	case OUDiv:
		if b.IsConst() && b.C == 1 {
			return a
		}
	}
	return st.mk(&Term{Op: op, S: a.S, Args: []*Term{a, b}})
}

func (st *Store) Add(a, b *Term) *Term  { return st.bin(OAdd, a, b) }
func (st *Store) Sub(a, b *Term) *Term  { return st.bin(OSub, a, b) }
func (st *Store) Mul(a, b *Term) *Term  { return st.bin(OMul, a, b) }
func (st *Store) UDiv(a, b *Term) *Term { return st.bin(OUDiv, a, b) }
func (st *Store) URem(a, b *Term) *Term { return st.bin(OURem, a, b) }
func (st *Store) SDiv(a, b *Term) *Term { return st.bin(OSDiv, a, b) }
func (st *Store) SRem(a, b *Term) *Term { return st.bin(OSRem, a, b) }
func (st *Store) BAnd(a, b *Term) *Term { return st.bin(OBAnd, a, b) }
func (st *Store) BOr(a, b *Term) *Term  { return st.bin(OBOr, a, b) }
func (st *Store) BXor(a, b *Term) *Term { return st.bin(OBXor, a, b) }
func (st *Store) Shl(a, b *Term) *Term  { return st.bin(OShl, a, b) }
func (st *Store) LShr(a, b *Term) *Term { return st.bin(OLShr, a, b) }
func (st *Store) AShr(a, b *Term) *Term { return st.bin(OAShr, a, b) }

func (st *Store) Neg(a *Term) *Term {
	if a.IsConst() {
		return st.Const(a.S.W, -a.C)
	}
	return st.mk(&Term{Op: ONeg, S: a.S, Args: []*Term{a}})
}
func (st *Store) BNot(a *Term) *Term {
	if a.IsConst() {
		return st.Const(a.S.W, ^a.C)
	}
	if a.Op == OBNot {
		return a.Args[0]
	}
	return st.mk(&Term{Op: OBNot, S: a.S, Args: []*Term{a}})
}

func (st *Store) cmp(op Op, a, b *Term) *Term {
	if a.S != b.S || a.S.K != KBV {
		panic(fmt.Sprintf("bv cmp sort mismatch %v %v", a.S, b.S))
	}
	w := a.S.W
	if a.IsConst() && b.IsConst() {
		switch op {
		case OULt:
			return st.Bool(a.C < b.C)
		case OULe:
			return st.Bool(a.C <= b.C)
		case OSLt:
			return st.Bool(sext64(a.C, w) < sext64(b.C, w))
		case OSLe:
			return st.Bool(sext64(a.C, w) <= sext64(b.C, w))
		}
	}
	if a == b {
		return st.Bool(op == OULe || op == OSLe)
	}
	// zext(x) <u const where const exceeds the range of x
	if op == OULt && b.IsConst() && a.Op == OZExt {
		iw := a.Args[0].S.W
		if iw < 64 && b.C > mask(iw) {
			return st.True
		}
	}
	if op == OULt && b.IsConst() && b.C == 0 {
		return st.False
	}
	if op == OULe && a.IsConst() && a.C == 0 {
		return st.True
	}
	return st.mk(&Term{Op: op, S: SBool, Args: []*Term{a, b}})
}
func (st *Store) ULt(a, b *Term) *Term { return st.cmp(OULt, a, b) }
func (st *Store) ULe(a, b *Term) *Term { return st.cmp(OULe, a, b) }
func (st *Store) SLt(a, b *Term) *Term { return st.cmp(OSLt, a, b) }
func (st *Store) SLe(a, b *Term) *Term { return st.cmp(OSLe, a, b) }

func (st *Store) Concat(hi, lo *Term) *Term {
	w := hi.S.W + lo.S.W
	if hi.IsConst() && lo.IsConst() && w <= 64 {
		return st.Const(w, hi.C<<uint(lo.S.W)|lo.C)
	}
	// concat(extract(x,h,m+1), extract(x,m,l)) = extract(x,h,l)
	if hi.Op == OExtract && lo.Op == OExtract && hi.Args[0] == lo.Args[0] && hi.B == lo.A+1 {
		return st.Extract(hi.Args[0], hi.A, lo.B)
	}
	if hi.IsConst() && hi.C == 0 {
		return st.ZExt(lo, w)
	}
	return st.mk(&Term{Op: OConcat, S: BV(w), Args: []*Term{hi, lo}})
}

func (st *Store) Extract(a *Term, hi, lo int) *Term {
	if lo == 0 && hi == a.S.W-1 {
		return a
	}
	w := hi - lo + 1
	if a.IsConst() {
		return st.Const(w, a.C>>uint(lo))
	}
	switch a.Op {
	case OExtract:
		return st.Extract(a.Args[0], a.B+hi, a.B+lo)
	case OZExt:
		iw := a.Args[0].S.W
		if hi < iw {
			return st.Extract(a.Args[0], hi, lo)
		}
		if lo >= iw {
			return st.Const(w, 0)
		}
	case OSExt:
		iw := a.Args[0].S.W
		if hi < iw {
			return st.Extract(a.Args[0], hi, lo)
		}
	case OConcat:
		lw := a.Args[1].S.W
		if hi < lw {
			return st.Extract(a.Args[1], hi, lo)
		}
		if lo >= lw {
			return st.Extract(a.Args[0], hi-lw, lo-lw)
		}
	case OBAnd, OBOr, OBXor:
		if lo == 0 || true {
			return st.bin(a.Op, st.Extract(a.Args[0], hi, lo), st.Extract(a.Args[1], hi, lo))
		}
	case OAdd, OSub, OMul:
		if lo == 0 {
			return st.bin(a.Op, st.Extract(a.Args[0], hi, 0), st.Extract(a.Args[1], hi, 0))
		}
	case OShl:
		// (x << k)[hi:lo] with const k multiple
		if a.Args[1].IsConst() {
			k := int(a.Args[1].C)
			if lo >= k {
				return st.Extract(a.Args[0], hi-k, lo-k)
			}
			if hi < k {
				return st.Const(w, 0)
			}
		}
	case OLShr:
		if a.Args[1].IsConst() {
			k := int(a.Args[1].C)
			if hi+k < a.S.W {
				return st.Extract(a.Args[0], hi+k, lo+k)
			}
			if lo+k >= a.S.W {
				return st.Const(w, 0)
			}
		}
	case OIte:
		if a.Args[1].IsConst() || a.Args[2].IsConst() {
			return st.Ite(a.Args[0], st.Extract(a.Args[1], hi, lo), st.Extract(a.Args[2], hi, lo))
		}
	}
	return st.mk(&Term{Op: OExtract, S: BV(w), Args: []*Term{a}, A: hi, B: lo})
}

func (st *Store) ZExt(a *Term, w int) *Term {
	if w == a.S.W {
		return a
	}
	if w < a.S.W {
		return st.Extract(a, w-1, 0)
	}
	if a.IsConst() {
		return st.Const(w, a.C)
	}
	if a.Op == OZExt {
		return st.ZExt(a.Args[0], w)
	}
	return st.mk(&Term{Op: OZExt, S: BV(w), Args: []*Term{a}, A: w - a.S.W})
}

func (st *Store) SExt(a *Term, w int) *Term {
	if w == a.S.W {
		return a
	}
	if w < a.S.W {
		return st.Extract(a, w-1, 0)
	}
	if a.IsConst() {
		return st.Const(w, uint64(sext64(a.C, a.S.W)))
	}
	if a.Op == OZExt { // zero-extended value is non-negative
		return st.ZExt(a.Args[0], w)
	}
	return st.mk(&Term{Op: OSExt, S: BV(w), Args: []*Term{a}, A: w - a.S.W})
}

// ---- Int ----

func (st *Store) ibin(op Op, a, b *Term) *Term {
	if a.S.K != KInt || b.S.K != KInt {
		panic("int op on non-int")
	}
	if a.IsConst() && b.IsConst() {
		r := new(big.Int)
		switch op {
		case OIAdd:
			return st.IntConst(r.Add(a.Big, b.Big))
		case OISub:
			return st.IntConst(r.Sub(a.Big, b.Big))
		case OIMul:
			return st.IntConst(r.Mul(a.Big, b.Big))
		case OIDiv:
			if b.Big.Sign() != 0 {
				m := new(big.Int)
				r.DivMod(a.Big, b.Big, m) // Euclidean, same as SMT-LIB
				return st.IntConst(r)
			}
		case OIMod:
			if b.Big.Sign() != 0 {
				m := new(big.Int)
				r.DivMod(a.Big, b.Big, m)
				return st.IntConst(m)
			}
		case OILe:
			return st.Bool(a.Big.Cmp(b.Big) <= 0)
		case OILt:
			return st.Bool(a.Big.Cmp(b.Big) < 0)
		}
	}
	s := SInt
	if op == OILe || op == OILt {
		s = SBool
	}
	if op == OIAdd {
		if a.IsConst() && a.Big.Sign() == 0 {
			return b
		}
		if b.IsConst() && b.Big.Sign() == 0 {
			return a
		}
	}
	if op == OIMul {
		if a.IsConst() && a.Big.Cmp(big.NewInt(1)) == 0 {
			return b
		}
		if b.IsConst() && b.Big.Cmp(big.NewInt(1)) == 0 {
			return a
		}
	}
	return st.mk(&Term{Op: op, S: s, Args: []*Term{a, b}})
}
func (st *Store) IAdd(a, b *Term) *Term { return st.ibin(OIAdd, a, b) }
func (st *Store) ISub(a, b *Term) *Term { return st.ibin(OISub, a, b) }
func (st *Store) IMul(a, b *Term) *Term { return st.ibin(OIMul, a, b) }
func (st *Store) IDiv(a, b *Term) *Term { return st.ibin(OIDiv, a, b) }
func (st *Store) IMod(a, b *Term) *Term { return st.ibin(OIMod, a, b) }
func (st *Store) ILe(a, b *Term) *Term  { return st.ibin(OILe, a, b) }
func (st *Store) ILt(a, b *Term) *Term  { return st.ibin(OILt, a, b) }
func (st *Store) INeg(a *Term) *Term {
	if a.IsConst() {
		return st.IntConst(new(big.Int).Neg(a.Big))
	}
	return st.mk(&Term{Op: OINeg, S: SInt, Args: []*Term{a}})
}

// BV2Nat: unsigned value of a bit-vector as Int.
func (st *Store) BV2Nat(a *Term) *Term {
	if a.IsConst() {
		return st.IntConst(new(big.Int).SetUint64(a.C))
	}
	return st.mk(&Term{Op: OBV2Nat, S: SInt, Args: []*Term{a}})
}

// BV2Int: signed value.
func (st *Store) BV2Int(a *Term) *Term {
	if a.IsConst() {
		return st.IntConst(big.NewInt(sext64(a.C, a.S.W)))
	}
	w := a.S.W
	n := st.BV2Nat(a)
	two := new(big.Int).Lsh(big.NewInt(1), uint(w))
	neg := st.SLt(a, st.Const(w, 0))
	return st.Ite(neg, st.ISub(n, st.IntConst(two)), n)
}

func (st *Store) Int2BV(a *Term, w int) *Term {
	if a.IsConst() {
		m := new(big.Int).Lsh(big.NewInt(1), uint(w))
		r := new(big.Int).Mod(a.Big, m) // Go Mod is Euclidean: non-negative
		return st.Const(w, r.Uint64())
	}
	if a.Op == OBV2Nat && a.Args[0].S.W == w {
		return a.Args[0]
	}
	return st.mk(&Term{Op: OInt2BV, S: BV(w), Args: []*Term{a}, A: w})
}

// ---- FP (float64) ----

func (st *Store) fbin(op Op, a, b *Term) *Term {
	if a.IsConst() && b.IsConst() {
		x, y := math.Float64frombits(a.C), math.Float64frombits(b.C)
		switch op {
		case OFAdd:
			return st.FPConst(x + y)
		case OFSub:
			return st.FPConst(x - y)
		case OFMul:
			return st.FPConst(x * y)
		case OFDiv:
			return st.FPConst(x / y)
		case OFLt:
			return st.Bool(x < y)
		case OFLe:
			return st.Bool(x <= y)
		case OFEq:
			return st.Bool(x == y)
		}
	}
	s := SFP
	if op == OFLt || op == OFLe || op == OFEq {
		s = SBool
	}
	return st.mk(&Term{Op: op, S: s, Args: []*Term{a, b}})
}
func (st *Store) FAdd(a, b *Term) *Term { return st.fbin(OFAdd, a, b) }
func (st *Store) FSub(a, b *Term) *Term { return st.fbin(OFSub, a, b) }
func (st *Store) FMul(a, b *Term) *Term { return st.fbin(OFMul, a, b) }
func (st *Store) FDiv(a, b *Term) *Term { return st.fbin(OFDiv, a, b) }
func (st *Store) FLt(a, b *Term) *Term  { return st.fbin(OFLt, a, b) }
func (st *Store) FLe(a, b *Term) *Term  { return st.fbin(OFLe, a, b) }
func (st *Store) FEq(a, b *Term) *Term  { return st.fbin(OFEq, a, b) }
func (st *Store) funop(op Op, a *Term, s Sort, w int) *Term {
	if a.IsConst() {
		switch op {
		case OFNeg:
			return st.FPConst(-math.Float64frombits(a.C))
		case OFFloor:
			return st.FPConst(math.Floor(math.Float64frombits(a.C)))
		case OFCeil:
			return st.FPConst(math.Ceil(math.Float64frombits(a.C)))
		case OFIsNaN:
			return st.Bool(math.IsNaN(math.Float64frombits(a.C)))
		case OFIsInf:
			return st.Bool(math.IsInf(math.Float64frombits(a.C), 0))
		case OFSqrt:
			return st.FPConst(math.Sqrt(math.Float64frombits(a.C)))
		case OFFromSBV:
			return st.FPConst(float64(sext64(a.C, a.S.W)))
		case OFFromUBV:
			return st.FPConst(float64(a.C))
		case OFFromBits:
			return st.mk(&Term{Op: OConst, S: SFP, C: a.C})
		case OFToBits:
			return st.Const(64, a.C)
		}
	}
	return st.mk(&Term{Op: op, S: s, Args: []*Term{a}, A: w})
}
func (st *Store) FNeg(a *Term) *Term      { return st.funop(OFNeg, a, SFP, 0) }
func (st *Store) FFloor(a *Term) *Term    { return st.funop(OFFloor, a, SFP, 0) }
func (st *Store) FCeil(a *Term) *Term     { return st.funop(OFCeil, a, SFP, 0) }
func (st *Store) FSqrt(a *Term) *Term     { return st.funop(OFSqrt, a, SFP, 0) }
func (st *Store) FIsNaN(a *Term) *Term    { return st.funop(OFIsNaN, a, SBool, 0) }
func (st *Store) FIsInf(a *Term) *Term    { return st.funop(OFIsInf, a, SBool, 0) }
func (st *Store) FFromSBV(a *Term) *Term  { return st.funop(OFFromSBV, a, SFP, 0) }
func (st *Store) FFromUBV(a *Term) *Term  { return st.funop(OFFromUBV, a, SFP, 0) }
func (st *Store) FFromBits(a *Term) *Term { return st.funop(OFFromBits, a, SFP, 0) }
func (st *Store) FToBits(a *Term) *Term   { return st.funop(OFToBits, a, BV(64), 0) }

// FToSBV converts with truncation toward zero; out-of-range/NaN behaviour is
// added by the caller (Go/amd64 semantics) because SMT leaves it unspecified.
func (st *Store) FToSBVRaw(a *Term, w int) *Term {
	return st.mk(&Term{Op: OFToSBV, S: BV(w), Args: []*Term{a}, A: w})
}
func (st *Store) FToUBVRaw(a *Term, w int) *Term {
	return st.mk(&Term{Op: OFToUBV, S: BV(w), Args: []*Term{a}, A: w})
}

// ---- UF ----

func (st *Store) UF(name string, ret Sort, args ...*Term) *Term {
	if _, ok := st.ufDecl[name]; !ok {
		var b strings.Builder
		fmt.Fprintf(&b, "(declare-fun %s (", name)
		for i, a := range args {
			if i > 0 {
				b.WriteByte(' ')
			}
			b.WriteString(a.S.SMT())
		}
		fmt.Fprintf(&b, ") %s)", ret.SMT())
		st.ufDecl[name] = b.String()
		st.UFOrder = append(st.UFOrder, name)
	}
	return st.mk(&Term{Op: OUF, S: ret, Args: append([]*Term(nil), args...), Name: name})
}

// ---- printing ----

var opName = map[Op]string{
	ONot: "not", OAnd: "and", OOr: "or", OIte: "ite", OEq: "=",
	OAdd: "bvadd", OSub: "bvsub", OMul: "bvmul", OUDiv: "bvudiv", OURem: "bvurem", OSDiv: "bvsdiv", OSRem: "bvsrem",
	OBAnd: "bvand", OBOr: "bvor", OBXor: "bvxor", OShl: "bvshl", OLShr: "bvlshr", OAShr: "bvashr", ONeg: "bvneg", OBNot: "bvnot",
	OULt: "bvult", OULe: "bvule", OSLt: "bvslt", OSLe: "bvsle", OConcat: "concat",
	OIAdd: "+", OISub: "-", OIMul: "*", OIDiv: "div", OIMod: "mod", OINeg: "-", OILe: "<=", OILt: "<",
	OBV2Nat: "bv2nat",
	OFLt:    "fp.lt", OFLe: "fp.leq", OFEq: "fp.eq", OFNeg: "fp.neg", OFIsNaN: "fp.isNaN", OFIsInf: "fp.isInfinite",
}

func (t *Term) ref() string {
	switch t.Op {
	case OConst:
		return t.constSMT()
	case OVar:
		return t.Name
	}
	return fmt.Sprintf("t%d", t.ID)
}

func (t *Term) constSMT() string {
	switch t.S.K {
	case KBool:
		if t.C == 1 {
			return "true"
		}
		return "false"
	case KBV:
		if t.S.W%4 == 0 {
			return fmt.Sprintf("#x%0*x", t.S.W/4, t.C)
		}
		return fmt.Sprintf("#b%0*b", t.S.W, t.C)
	case KInt:
		if t.Big.Sign() < 0 {
			return "(- " + new(big.Int).Neg(t.Big).String() + ")"
		}
		return t.Big.String()
	case KFP:
		return fmt.Sprintf("((_ to_fp 11 53) #x%016x)", t.C)
	}
	return "?"
}

// body renders the defining expression of a non-leaf term using refs for args.
func (t *Term) body() string {
	a := func(i int) string { return t.Args[i].ref() }
	switch t.Op {
	case OExtract:
		return fmt.Sprintf("((_ extract %d %d) %s)", t.A, t.B, a(0))
	case OZExt:
		return fmt.Sprintf("((_ zero_extend %d) %s)", t.A, a(0))
	case OSExt:
		return fmt.Sprintf("((_ sign_extend %d) %s)", t.A, a(0))
	case OInt2BV:
		return fmt.Sprintf("((_ int2bv %d) %s)", t.A, a(0))
	case OFAdd, OFSub, OFMul, OFDiv:
		n := map[Op]string{OFAdd: "fp.add", OFSub: "fp.sub", OFMul: "fp.mul", OFDiv: "fp.div"}[t.Op]
		return fmt.Sprintf("(%s RNE %s %s)", n, a(0), a(1))
	case OFSqrt:
		return fmt.Sprintf("(fp.sqrt RNE %s)", a(0))
	case OFFromSBV:
		return fmt.Sprintf("((_ to_fp 11 53) RNE %s)", a(0))
	case OFFromUBV:
		return fmt.Sprintf("((_ to_fp_unsigned 11 53) RNE %s)", a(0))
	case OFToSBV:
		return fmt.Sprintf("((_ fp.to_sbv %d) RTZ %s)", t.A, a(0))
	case OFToUBV:
		return fmt.Sprintf("((_ fp.to_ubv %d) RTZ %s)", t.A, a(0))
	case OFFromBits:
		return fmt.Sprintf("((_ to_fp 11 53) %s)", a(0))
	case OFToBits:
		// no direct operator in SMT-LIB; handled by the solver layer with an
		// auxiliary variable. Placeholder name resolved there.
		return fmt.Sprintf("fpbits_%d", t.ID)
	case OFFloor:
		return fmt.Sprintf("(fp.roundToIntegral RTN %s)", a(0))
	case OFCeil:
		return fmt.Sprintf("(fp.roundToIntegral RTP %s)", a(0))
	case OUF:
		if len(t.Args) == 0 {
			return t.Name
		}
		var b strings.Builder
		b.WriteString("(" + t.Name)
		for i := range t.Args {
			b.WriteString(" " + a(i))
		}
		b.WriteString(")")
		return b.String()
	}
	n, ok := opName[t.Op]
	if !ok {
		panic(fmt.Sprintf("no smt name for op %d", t.Op))
	}
	var b strings.Builder
	b.WriteString("(" + n)
	for i := range t.Args {
		b.WriteString(" " + a(i))
	}
	b.WriteString(")")
	return b.String()
}

// String renders a term fully (for samples / debugging); capped.
func (t *Term) String() string {
	var b strings.Builder
	t.str(&b, 0)
	s := b.String()
	if len(s) > 400 {
		s = s[:400] + "…"
	}
	return s
}
func (t *Term) str(b *strings.Builder, d int) {
	if b.Len() > 400 {
		return
	}
	switch t.Op {
	case OConst, OVar:
		b.WriteString(t.ref())
		return
	}
	if d > 12 {
		b.WriteString(t.ref())
		return
	}
	switch t.Op {
	case OExtract:
		fmt.Fprintf(b, "(extract[%d:%d] ", t.A, t.B)
	case OZExt:
		fmt.Fprintf(b, "(zext%d ", t.S.W)
	case OSExt:
		fmt.Fprintf(b, "(sext%d ", t.S.W)
	case OUF:
		b.WriteString("(" + t.Name + " ")
	default:
		if n, ok := opName[t.Op]; ok {
			b.WriteString("(" + n + " ")
		} else {
			fmt.Fprintf(b, "(op%d ", t.Op)
		}
	}
	for i, a := range t.Args {
		if i > 0 {
			b.WriteByte(' ')
		}
		a.str(b, d+1)
	}
	b.WriteByte(')')
}

// ---- evaluation under a model (BV/Bool/Int without UF/FP) ----

type Model map[string]*big.Int // var name -> value (unsigned for BV, 0/1 Bool)

type evalRes struct {
	u   uint64
	big *big.Int
}

// Eval evaluates t under m. ok=false if t contains UF/FP or unassigned vars
// are defaulted to zero (allowed: unconstrained).
func (st *Store) Eval(t *Term, m Model, cache map[int32]evalRes) (evalRes, bool) {
	if t.hasUF {
		return evalRes{}, false
	}
	if r, ok := cache[t.ID]; ok {
		return r, true
	}
	var r evalRes
	w := t.S.W
	bad := false
	arg := func(i int) evalRes {
		x, ok := st.Eval(t.Args[i], m, cache)
		if !ok {
			bad = true
			if t.Args[i].S.K == KInt {
				x.big = new(big.Int)
			}
		}
		return x
	}
	bo := func(b bool) evalRes {
		if b {
			return evalRes{u: 1}
		}
		return evalRes{}
	}
	switch t.Op {
	case OConst:
		if t.S.K == KInt {
			r = evalRes{big: t.Big}
		} else {
			r = evalRes{u: t.C}
		}
	case OVar:
		v := m[t.Name]
		if t.S.K == KInt {
			if v == nil {
				v = new(big.Int)
			}
			r = evalRes{big: v}
		} else if v != nil {
			r = evalRes{u: v.Uint64() & maskB(t.S)}
		}
	case ONot:
		r = bo(arg(0).u == 0)
	case OAnd:
		r = bo(arg(0).u != 0 && arg(1).u != 0)
	case OOr:
		r = bo(arg(0).u != 0 || arg(1).u != 0)
	case OIte:
		if arg(0).u != 0 {
			r = arg(1)
		} else {
			r = arg(2)
		}
	case OEq:
		if t.Args[0].S.K == KInt {
			r = bo(arg(0).big.Cmp(arg(1).big) == 0)
		} else {
			r = bo(arg(0).u == arg(1).u)
		}
	case OAdd, OSub, OMul, OUDiv, OURem, OSDiv, OSRem, OBAnd, OBOr, OBXor, OShl, OLShr, OAShr:
		tmp := NewStore()
		c := tmp.bin(t.Op, tmp.Const(w, arg(0).u), tmp.Const(w, arg(1).u))
		r = evalRes{u: c.C}
	case ONeg:
		r = evalRes{u: (-arg(0).u) & mask(w)}
	case OBNot:
		r = evalRes{u: (^arg(0).u) & mask(w)}
	case OULt:
		r = bo(arg(0).u < arg(1).u)
	case OULe:
		r = bo(arg(0).u <= arg(1).u)
	case OSLt:
		r = bo(sext64(arg(0).u, t.Args[0].S.W) < sext64(arg(1).u, t.Args[0].S.W))
	case OSLe:
		r = bo(sext64(arg(0).u, t.Args[0].S.W) <= sext64(arg(1).u, t.Args[0].S.W))
	case OConcat:
		if w > 64 {
			return evalRes{}, false
		}
		r = evalRes{u: arg(0).u<<uint(t.Args[1].S.W) | arg(1).u}
	case OExtract:
		if t.Args[0].S.W > 64 {
			return evalRes{}, false
		}
		r = evalRes{u: (arg(0).u >> uint(t.B)) & mask(w)}
	case OZExt:
		r = arg(0)
	case OSExt:
		r = evalRes{u: uint64(sext64(arg(0).u, t.Args[0].S.W)) & mask(w)}
	case OIAdd:
		r = evalRes{big: new(big.Int).Add(arg(0).big, arg(1).big)}
	case OISub:
		r = evalRes{big: new(big.Int).Sub(arg(0).big, arg(1).big)}
	case OIMul:
		r = evalRes{big: new(big.Int).Mul(arg(0).big, arg(1).big)}
	case OIDiv, OIMod:
		d := arg(1).big
		if d.Sign() == 0 {
			return evalRes{}, false
		}
		q, mm := new(big.Int), new(big.Int)
		q.DivMod(arg(0).big, d, mm)
		if t.Op == OIDiv {
			r = evalRes{big: q}
		} else {
			r = evalRes{big: mm}
		}
	case OINeg:
		r = evalRes{big: new(big.Int).Neg(arg(0).big)}
	case OILe:
		r = bo(arg(0).big.Cmp(arg(1).big) <= 0)
	case OILt:
		r = bo(arg(0).big.Cmp(arg(1).big) < 0)
	case OBV2Nat:
		r = evalRes{big: new(big.Int).SetUint64(arg(0).u)}
	case OInt2BV:
		mm := new(big.Int).Lsh(big.NewInt(1), uint(w))
		r = evalRes{u: new(big.Int).Mod(arg(0).big, mm).Uint64()}
	default:
		return evalRes{}, false
	}
	if bad || (t.S.K == KBV && w > 64) {
		return evalRes{}, false
	}
	cache[t.ID] = r
	return r, true
}

func maskB(s Sort) uint64 {
	if s.K == KBool {
		return 1
	}
	return mask(s.W)
}

var _ = bits.Len
