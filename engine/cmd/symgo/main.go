package main

import (
	"bytes"
	"encoding/json"
	"flag"
	"fmt"
	"os"
	"os/exec"
	"path/filepath"
	"runtime/pprof"
	"sort"
	"strconv"
	"strings"
	"time"

	"symgo/sym"

	"golang.org/x/tools/go/ssa"
)

type ssaFunc = ssa.Function

var timeLimitSec int

const (
	verifDir = "/verif"
	modPath  = "github.com/elastos/Elastos.ELA"
)

// repoDir is /repo for every registered command. SYMGO_REPO points the engine
// at a scratch worktree instead (used only to try seeded changes without
// touching /repo); SYMGO_OUT then receives the evidence and replay vectors so
// that /verif/evidence is never written from a run against another tree.
var (
	repoDir = "/repo"
	outDir  = verifDir
)

func init() {
	if r := os.Getenv("SYMGO_REPO"); r != "" {
		repoDir = r
		outDir = os.Getenv("SYMGO_OUT")
		if outDir == "" {
			outDir = filepath.Join(os.TempDir(), "symgo-out")
		}
	}
}

func main() {
	if len(os.Args) < 2 {
		usage()
	}
	switch os.Args[1] {
	case "check":
		os.Exit(cmdCheck(os.Args[2:]))
	case "replay":
		os.Exit(cmdReplay(os.Args[2:]))
	default:
		usage()
	}
}

func usage() {
	fmt.Fprintln(os.Stderr, "usage: symgo check <PROP> [--tier quick|thorough] [--harness NAME] [-v]\n       symgo replay <PROP> <vector.json>")
	os.Exit(2)
}

type knownFinding struct {
	Property string `json:"property"`
	Harness  string `json:"harness,omitempty"`
	ID       string `json:"id"`
	Func     string `json:"func"`
	What     string `json:"what"`
}

type knownFile struct {
	Findings []knownFinding `json:"findings"`
	Fixed    []string       `json:"fixed"`
}

func loadKnown() knownFile {
	var k knownFile
	b, err := os.ReadFile(filepath.Join(verifDir, "known_findings.json"))
	if err == nil {
		json.Unmarshal(b, &k)
	}
	return k
}

func cmdCheck(args []string) int {
	fs := flag.NewFlagSet("check", flag.ExitOnError)
	tier := fs.String("tier", "", "quick|thorough")
	only := fs.String("harness", "", "run only harnesses containing this substring")
	verbose := fs.Bool("v", false, "verbose")
	workers := fs.Int("workers", 16, "workers")
	noReplay := fs.Bool("no-replay", false, "skip native replay (debug)")
	solver := fs.String("solver", "z3", "z3|z3-new|cvc5")
	fs.IntVar(&timeLimitSec, "time-limit", 0, "stop exploring each harness after this many seconds (inconclusive)")
	var prop string
	if len(args) > 0 && !strings.HasPrefix(args[0], "-") {
		prop = args[0]
		args = args[1:]
	}
	fs.Parse(args)
	if prop == "" {
		usage()
	}
	if *tier == "" {
		*tier = os.Getenv("VERIF_TIER")
	}
	if *tier != "thorough" {
		*tier = "quick"
	}
	seed := 0
	if s := os.Getenv("VERIF_SEED"); s != "" {
		seed, _ = strconv.Atoi(s)
	}
	if pf := os.Getenv("SYMGO_PROF"); pf != "" {
		f, _ := os.Create(pf)
		pprof.StartCPUProfile(f)
		defer pprof.StopCPUProfile()
	}
	t0 := time.Now()
	res := runCheck(prop, *tier, seed, *only, *verbose, *workers, *noReplay, *solver)
	res.Wall = time.Since(t0).Seconds()
	writeEvidence(prop, *tier, seed, res)
	for _, l := range res.Lines {
		fmt.Println(l)
	}
	if res.AbsQueries > 0 {
		fmt.Printf("symgo: abstract-arithmetic pre-pass: %d queries (%d unsat) %.1fs\n", res.AbsQueries, res.AbsUnsat, res.AbsTime)
	}
	fmt.Printf("symgo: property=%s tier=%s harnesses=%d paths=%d queries=%d (sat %d, unsat %d, unknown %d) solver=%.1fs wall=%.1fs verdict=%s\n",
		prop, *tier, res.Harnesses, res.Paths, res.Queries, res.NSat, res.NUnsat, res.Unknowns, res.SolverTime, res.Wall, res.Verdict)
	switch res.Verdict {
	case "holds", "known-findings-only":
		return 0
	case "violation":
		return 1
	}
	return 3
}

type checkResult struct {
	Verdict      string
	Lines        []string
	Harnesses    int
	HarnessNames []string
	Paths        int64
	Instrs       int64
	Queries      int
	NSat, NUnsat int
	Unknowns     int
	SolverTime   float64
	Wall         float64
	Status       map[string]int
	Encoded      []string
	Stubs        []string
	Bounds       map[string]int
	Unwinds      map[string]int
	Unsupported  map[string]int
	Reached      []string
	NotReached   []string
	Asserts      []string
	Samples      []string
	Inconclusive []string
	Violations   []vioReport
	Known        int
	Fallback     map[string]int
	Validated    int
	LoadSecs     float64
	PerHarness   map[string]string
	AbsQueries   int
	AbsUnsat     int
	AbsTime      float64
}

type vioReport struct {
	Harness string `json:"harness"`
	ID      string `json:"id"`
	Site    string `json:"site"`
	Func    string `json:"func"`
	Msg     string `json:"msg"`
	Replay  string `json:"replay"`
	Outcome string `json:"outcome"`
	Known   bool   `json:"known"`
}

func harnessFilter(prop string) func(string) bool {
	return func(rel string) bool {
		base := filepath.Base(rel)
		if strings.HasPrefix(rel, "nd/") {
			return true
		}
		return strings.HasPrefix(base, "zz_verif_"+prop+"_") || strings.HasPrefix(base, "zz_verif_"+prop+".") || strings.HasPrefix(base, "zz_verif_common") || strings.HasPrefix(base, "zz_verif_export")
	}
}

func runCheck(prop, tier string, seed int, only string, verbose bool, workers int, noReplay bool, solver string) *checkResult {
	res := &checkResult{Status: map[string]int{}}
	tl := time.Now()
	ov, dirs, err := sym.BuildOverlay(filepath.Join(verifDir, "harness"), repoDir, harnessFilter(prop))
	if err != nil {
		res.Verdict = "inconclusive"
		res.Inconclusive = append(res.Inconclusive, "overlay: "+err.Error())
		return res
	}
	// only dirs that contain a file for this property (not merely common files)
	var pats []string
	for _, d := range dirs {
		has := false
		for p := range ov {
			if filepath.Dir(p) == filepath.Join(repoDir, d) && strings.Contains(filepath.Base(p), "zz_verif_"+prop) {
				has = true
			}
		}
		if has {
			pats = append(pats, d)
		} else {
			for p := range ov {
				// zz_verif_export_* (tag-guarded constructors for unexported fields used by
				// harnesses of other packages) stay in the overlay of every check
				if filepath.Dir(p) == filepath.Join(repoDir, d) && !strings.HasPrefix(filepath.Base(p), "zz_verif_export") {
					delete(ov, p)
				}
			}
		}
	}
	if len(pats) == 0 {
		res.Verdict = "inconclusive"
		res.Inconclusive = append(res.Inconclusive, "no harness files for "+prop)
		return res
	}
	prog, spkgs, _, err := sym.Load(repoDir, ov, pats, "verif")
	if err != nil {
		res.Verdict = "inconclusive"
		res.Inconclusive = append(res.Inconclusive, "load: "+err.Error())
		res.Lines = append(res.Lines, "LOAD ERROR: "+err.Error())
		return res
	}
	res.LoadSecs = time.Since(tl).Seconds()
	hs := sym.FindHarnesses(spkgs, prop)
	cfg := sym.Config{MaxSymLen: 16, Unwind: 4096, MaxSteps: 20_000_000, MaxDepth: 300, ModulePath: modPath, RepoDir: repoDir}
	ex := sym.NewExplorer(prog, cfg)
	ex.Workers = workers
	ex.Verbose = verbose
	ex.SolverName = solver
	if tier == "thorough" {
		ex.Tier = 1
		ex.TimeoutMs = 30000
		ex.FallbackTimeoutMs = 600000
		ex.MaxPaths = 2_000_000
		ex.SetXCheck("z3-new")
	}
	required := map[string]bool{}
	for _, h := range hs {
		name := h.Name()
		if only != "" && !strings.Contains(name, only) {
			continue
		}
		// harnesses whose bounds did not run clean within a session's budget are
		// kept in the tree but are not part of any registered command
		if strings.Contains(name, "_slow_") && os.Getenv("SYMGO_SLOW") == "" {
			continue
		}
		res.Harnesses++
		res.HarnessNames = append(res.HarnessNames, name)
		for _, r := range sym.ReachMarkers(h) {
			required[name+"/"+r] = true
		}
		if timeLimitSec > 0 {
			ex.Deadline = time.Now().Add(time.Duration(timeLimitSec) * time.Second)
		}
		ex.RunHarness(h, name)
		if ex.PathLimitHit {
			res.Inconclusive = append(res.Inconclusive, "path/time limit hit in "+name)
			ex.PathLimitHit = false
		}
	}
	res.Paths = ex.Paths
	res.Instrs = ex.Instrs
	res.Queries = ex.Queries
	res.NSat, res.NUnsat = ex.NSat, ex.NUnsat
	res.Unknowns = ex.Unknowns
	res.SolverTime = ex.SolverTime.Seconds()
	res.Status = ex.Status
	res.PerHarness = ex.PerHarness
	res.AbsQueries, res.AbsUnsat, res.AbsTime = ex.AbsQueries, ex.AbsUnsat, ex.AbsTime.Seconds()
	for k := range ex.Encoded {
		if strings.Contains(k, modPath) && !strings.Contains(k, "zzverif") && !strings.Contains(k, "ZZ_") && !strings.Contains(k, "zz") {
			res.Encoded = append(res.Encoded, strings.ReplaceAll(k, modPath+"/", ""))
		}
	}
	sort.Strings(res.Encoded)
	for k := range ex.Stubs {
		res.Stubs = append(res.Stubs, k)
	}
	sort.Strings(res.Stubs)
	res.Bounds = ex.Bounds
	res.Unwinds = ex.Unwinds
	res.Unsupported = ex.Unsupported
	for k := range ex.Asserts {
		res.Asserts = append(res.Asserts, k)
	}
	sort.Strings(res.Asserts)
	for k := range required {
		if ex.Reached[k] {
			res.Reached = append(res.Reached, k)
		} else {
			res.NotReached = append(res.NotReached, k)
		}
	}
	sort.Strings(res.Reached)
	sort.Strings(res.NotReached)
	res.Samples = ex.Samples
	res.Fallback = ex.FallbackUsed
	res.Inconclusive = append(res.Inconclusive, ex.Inconclusive...)
	if ex.Disagree > 0 {
		res.Inconclusive = append(res.Inconclusive, fmt.Sprintf("%d solver disagreements (primary unsat, cross-check sat)", ex.Disagree))
	}

	known := loadKnown()
	violated := false
	os.MkdirAll(filepath.Join(outDir, "replay", prop), 0o755)
	// several scenarios may be recorded per assertion: once one of them has
	// reproduced natively the others are not replayed, and a scenario that did
	// not reproduce only makes the run inconclusive if none did
	reproducedBase := map[string]bool{}
	type pendingMsg struct{ base, inconclusive, line string }
	var unreproduced []pendingMsg
	for i, v := range ex.Violations {
		vr := vioReport{Harness: v.Harness, ID: v.ID, Site: v.Site, Func: v.Func, Msg: v.Msg}
		base := v.Harness + "|" + v.ID + "|" + v.Site
		path := filepath.Join(outDir, "replay", prop, fmt.Sprintf("%s-%d.json", v.Harness, i))
		writeVector(path, prop, v, ex.Tier, pkgOfHarness(hs, v.Harness))
		vr.Replay = path
		if reproducedBase[base] {
			vr.Outcome = "not replayed (another scenario of the same assertion already reproduced)"
			res.Violations = append(res.Violations, vr)
			continue
		}
		if noReplay {
			vr.Outcome = "replay skipped"
		} else {
			vr.Outcome = nativeReplay(prop, path)
		}
		for _, k := range known.Findings {
			if k.Property == prop && k.ID == classOf(v.ID) && k.Func == v.Func && (k.Harness == "" || k.Harness == v.Harness) {
				vr.Known = true
			}
		}
		res.Violations = append(res.Violations, vr)
		repro := outcomeMatches(v.ID, vr.Outcome)
		switch {
		case repro && vr.Known:
			reproducedBase[base] = true
			res.Known++
			res.Lines = append(res.Lines, fmt.Sprintf("KNOWN-FINDING: property=%s %s in %s (%s) at %s", prop, v.ID, v.Func, v.Msg, v.Site))
		case repro:
			reproducedBase[base] = true
			violated = true
			res.Lines = append(res.Lines, fmt.Sprintf("VIOLATION property=%s replay=%s", prop, path))
			res.Lines = append(res.Lines, fmt.Sprintf("  harness=%s id=%s func=%s site=%s msg=%s outcome=%s", v.Harness, v.ID, v.Func, v.Site, v.Msg, vr.Outcome))
		case noReplay:
			res.Inconclusive = append(res.Inconclusive, fmt.Sprintf("model for %s/%s at %s not replayed", v.Harness, v.ID, v.Site))
			res.Lines = append(res.Lines, fmt.Sprintf("MODEL (not replayed) harness=%s id=%s func=%s site=%s msg=%s vector=%s", v.Harness, v.ID, v.Func, v.Site, v.Msg, path))
		default:
			unreproduced = append(unreproduced, pendingMsg{base,
				fmt.Sprintf("model for %s/%s at %s did not reproduce natively (%s): encoding or stub is wrong", v.Harness, v.ID, v.Site, vr.Outcome),
				fmt.Sprintf("UNREPRODUCED harness=%s id=%s func=%s site=%s msg=%s outcome=%s vector=%s", v.Harness, v.ID, v.Func, v.Site, v.Msg, vr.Outcome, path)})
		}
	}
	for _, u := range unreproduced {
		if reproducedBase[u.base] {
			continue
		}
		res.Inconclusive = append(res.Inconclusive, u.inconclusive)
		res.Lines = append(res.Lines, u.line)
	}
	if n := ex.Status["unsupported"]; n > 0 {
		res.Inconclusive = append(res.Inconclusive, fmt.Sprintf("%d paths ended in unsupported constructs", n))
		for k, c := range ex.Unsupported {
			res.Lines = append(res.Lines, fmt.Sprintf("UNSUPPORTED x%d: %s", c, k))
		}
	}
	if n := ex.Status["unwound"]; n > 0 {
		res.Inconclusive = append(res.Inconclusive, fmt.Sprintf("%d paths hit the unwinding bound (unwinding assertion failed)", n))
		for k, c := range ex.Unwinds {
			res.Lines = append(res.Lines, fmt.Sprintf("UNWOUND x%d: %s", c, k))
		}
	}
	if ex.Unknowns > 0 {
		res.Inconclusive = append(res.Inconclusive, fmt.Sprintf("%d solver answers were unknown/timeout", ex.Unknowns))
	}
	if n := ex.Status["unknown"]; n > 0 {
		res.Inconclusive = append(res.Inconclusive, fmt.Sprintf("%d failure paths could not be decided", n))
	}
	for _, k := range res.NotReached {
		res.Inconclusive = append(res.Inconclusive, "vacuity: reach marker never satisfiable: "+k)
		res.Lines = append(res.Lines, "VACUOUS: "+k)
	}
	if res.Harnesses == 0 {
		res.Inconclusive = append(res.Inconclusive, "no harness matched")
	}
	switch {
	case violated:
		res.Verdict = "violation"
	case len(res.Inconclusive) > 0:
		res.Verdict = "inconclusive"
		for _, s := range res.Inconclusive {
			res.Lines = append(res.Lines, "INCONCLUSIVE: "+s)
		}
	case res.Known > 0:
		res.Verdict = "known-findings-only"
	default:
		res.Verdict = "holds"
	}
	return res
}

// outcomeMatches: the native run must fail in the same way the model says
// (same assertion id / same NoPanic region), not merely fail somehow.
func outcomeMatches(id, outcome string) bool {
	if !strings.HasPrefix(outcome, "reproduced: ") {
		return false
	}
	o := strings.TrimPrefix(outcome, "reproduced: ")
	if strings.HasPrefix(o, "crash") {
		return strings.HasPrefix(id, "panic:") || strings.HasPrefix(id, "alloc")
	}
	for _, f := range strings.Split(o, " ;; ") {
		switch {
		case strings.HasPrefix(id, "assert:"):
			if f == id {
				return true
			}
		case strings.HasPrefix(id, "panic:"):
			if strings.HasPrefix(f, id+" ") || f == id {
				return true
			}
		case strings.HasPrefix(id, "alloc"):
			if strings.HasPrefix(f, "alloc") {
				return true
			}
		default:
			return true
		}
	}
	return false
}

func classOf(id string) string {
	return id
}

func pkgOfHarness(hs []*ssaFunc, name string) string {
	for _, h := range hs {
		if h.Name() == name && h.Pkg != nil {
			return strings.TrimPrefix(strings.TrimPrefix(h.Pkg.Pkg.Path(), modPath), "/")
		}
	}
	return ""
}

func writeVector(path, prop string, v *sym.Violation, tier int, pkg string) {
	type d struct {
		Name string `json:"name"`
		Kind string `json:"kind"`
		W    int    `json:"w"`
		N    int    `json:"n"`
		Val  string `json:"val"`
	}
	out := struct {
		Property string `json:"property"`
		Harness  string `json:"harness"`
		Package  string `json:"package"`
		ID       string `json:"id"`
		Site     string `json:"site"`
		Func     string `json:"func"`
		Msg      string `json:"msg"`
		Tier     int    `json:"tier"`
		Draws    []d    `json:"draws"`
	}{Property: prop, Harness: v.Harness, Package: pkg, ID: v.ID, Site: v.Site, Func: v.Func, Msg: v.Msg, Tier: tier}
	for _, x := range v.Draws {
		out.Draws = append(out.Draws, d{x.Name, x.Kind, x.W, x.N, x.Val})
	}
	b, _ := json.MarshalIndent(out, "", " ")
	os.WriteFile(path, b, 0o644)
}

func cmdReplay(args []string) int {
	if len(args) < 2 {
		usage()
	}
	out := nativeReplay(args[0], args[1])
	fmt.Println("REPLAY-OUTCOME:", out)
	if strings.HasPrefix(out, "reproduced") {
		return 1
	}
	return 0
}

// nativeReplay compiles the harness with the real code (go test -overlay)
// and runs it with the vector.
func nativeReplay(prop, vecPath string) string {
	b, err := os.ReadFile(vecPath)
	if err != nil {
		return "error: " + err.Error()
	}
	var vec struct {
		Harness string `json:"harness"`
		Package string `json:"package"`
	}
	if err := json.Unmarshal(b, &vec); err != nil {
		return "error: " + err.Error()
	}
	ov, _, err := sym.BuildOverlay(filepath.Join(verifDir, "harness"), repoDir, harnessFilter(prop))
	if err != nil {
		return "error: " + err.Error()
	}
	work, err := os.MkdirTemp("", "symgo-replay-")
	if err != nil {
		return "error: " + err.Error()
	}
	defer os.RemoveAll(work)
	pkgDir := filepath.Join(repoDir, vec.Package)
	pkgName := packageName(pkgDir)
	if pkgName == "" {
		return "error: cannot determine package name of " + pkgDir
	}
	repl := map[string]string{}
	i := 0
	for target, content := range ov {
		// keep only files in the harness's package dir and nd
		if filepath.Dir(target) != pkgDir && !strings.Contains(target, "/zzverif/") && !strings.HasPrefix(filepath.Base(target), "zz_verif_export") {
			continue
		}
		f := filepath.Join(work, fmt.Sprintf("f%d.go", i))
		i++
		os.WriteFile(f, content, 0o644)
		repl[target] = f
	}
	testSrc := fmt.Sprintf(`//go:build verif

package %s

import (
	"fmt"
	"os"
	"testing"

	nd "%s/zzverif/nd"
)

func TestZZReplay(t *testing.T) {
	if err := nd.Load(os.Getenv("SYMGO_REPLAY")); err != nil {
		t.Fatal(err)
	}
	fmt.Println("REPLAY-OUTCOME:", nd.Run(%s))
}
`, pkgName, modPath, vec.Harness)
	tf := filepath.Join(work, "replay_test.go")
	os.WriteFile(tf, []byte(testSrc), 0o644)
	repl[filepath.Join(pkgDir, "zz_verif_replay_test.go")] = tf
	ovj, _ := json.Marshal(map[string]interface{}{"Replace": repl})
	ovf := filepath.Join(work, "overlay.json")
	os.WriteFile(ovf, ovj, 0o644)
	cmd := exec.Command("go", "test", "-tags", "verif", "-vet=off", "-count=1", "-v", "-overlay", ovf, "-run", "^TestZZReplay$", "-timeout", "300s", "./"+vec.Package)
	cmd.Dir = repoDir
	cmd.Env = append(os.Environ(), "GOFLAGS=-mod=mod", "GOPROXY=off", "GOSUMDB=off", "GOTOOLCHAIN=local", "SYMGO_REPLAY="+vecPath, "GOMEMLIMIT=8GiB")
	var outb bytes.Buffer
	cmd.Stdout = &outb
	cmd.Stderr = &outb
	err = cmd.Run()
	out := outb.String()
	for _, line := range strings.Split(out, "\n") {
		if strings.HasPrefix(line, "REPLAY-OUTCOME: ") {
			return strings.TrimPrefix(line, "REPLAY-OUTCOME: ")
		}
	}
	if strings.Contains(out, "out of memory") || strings.Contains(out, "cannot allocate memory") {
		return "reproduced: crash (out of memory)"
	}
	if strings.Contains(out, "panic:") || strings.Contains(out, "fatal error:") {
		first := ""
		for _, line := range strings.Split(out, "\n") {
			if strings.HasPrefix(line, "panic:") || strings.HasPrefix(line, "fatal error:") {
				first = line
				break
			}
		}
		return "reproduced: crash (" + first + ")"
	}
	tail := out
	if len(tail) > 600 {
		tail = tail[len(tail)-600:]
	}
	return fmt.Sprintf("error: replay build/run failed (%v): %s", err, strings.ReplaceAll(tail, "\n", " | "))
}

func packageName(dir string) string {
	ents, err := os.ReadDir(dir)
	if err != nil {
		return ""
	}
	for _, e := range ents {
		if !strings.HasSuffix(e.Name(), ".go") || strings.HasSuffix(e.Name(), "_test.go") {
			continue
		}
		b, err := os.ReadFile(filepath.Join(dir, e.Name()))
		if err != nil {
			continue
		}
		for _, line := range strings.Split(string(b), "\n") {
			line = strings.TrimSpace(line)
			if strings.HasPrefix(line, "package ") {
				f := strings.Fields(line)
				if len(f) >= 2 {
					return f[1]
				}
			}
		}
	}
	return ""
}

func writeEvidence(prop, tier string, seed int, r *checkResult) {
	obl := len(r.Asserts)
	discharged := obl
	failedObl := map[string]bool{}
	for _, v := range r.Violations {
		failedObl[v.Harness+"/"+v.ID] = true
	}
	if len(failedObl) < discharged {
		discharged -= len(failedObl)
	} else {
		discharged = 0
	}
	if r.Verdict == "inconclusive" {
		discharged = 0
	}
	samples := []interface{}{}
	for _, s := range r.Samples {
		samples = append(samples, s)
	}
	if len(samples) == 0 {
		samples = append(samples, "no completed path (see inconclusive)")
	}
	states := r.Paths
	if states < 1 {
		states = 1
	}
	trans := r.Instrs
	if trans < 1 {
		trans = 1
	}
	cov := map[string]interface{}{
		"states":                        states,
		"transitions":                   trans,
		"traces_validated_against_impl": r.Validated,
		"samples":                       samples,
		"obligations":                   obl,
		"discharged":                    discharged,
		"assertion_ids":                 r.Asserts,
		"harnesses":                     r.HarnessNames,
		"per_harness":                   r.PerHarness,
		"functions_encoded":             r.Encoded,
		"functions_encoded_count":       len(r.Encoded),
		"path_status":                   r.Status,
		"solver_queries":                r.Queries,
		"solver_sat":                    r.NSat,
		"solver_unsat":                  r.NUnsat,
		"solver_unknown":                r.Unknowns,
		"solver_fallback_decided":       r.Fallback,
		"solver_time_s":                 r.SolverTime,
		"abstract_prepass_queries":      r.AbsQueries,
		"abstract_prepass_unsat":        r.AbsUnsat,
		"abstract_prepass_time_s":       r.AbsTime,
		"load_and_ssa_build_s":          r.LoadSecs,
		"bounds_cut_paths":              r.Bounds,
		"unwinding_incomplete":          r.Unwinds,
		"unsupported":                   r.Unsupported,
		"vacuity_witnesses_reached":     r.Reached,
		"vacuity_witnesses_missing":     r.NotReached,
		"stubs":                         r.Stubs,
		"verdict":                       r.Verdict,
		"inconclusive_reasons":          r.Inconclusive,
		"violations_detail":             r.Violations,
		"known_findings_matched":        r.Known,
		"exhaustive":                    false,
		"rule":                          "states = symbolic paths completed (each a set of concrete executions decided by the solver); transitions = SSA instructions interpreted; encoding regenerated from /repo's SSA on this run",
	}
	ev := map[string]interface{}{
		"property_id": prop,
		"tier":        tier,
		"seed":        seed,
		"level":       "model_checking",
		"coverage":    cov,
		"assumptions": append([]string{
			"bounded: see harness sources under /verif/harness for nd.Assume bounds; paths cut at bounds are counted in bounds_cut_paths and are outside the claim",
			"solver verdicts (z3 4.8.12; thorough tier cross-checks every unsat with z3 5.1.0)",
			"engine semantics of go/ssa (validated by native replay of every counterexample)",
		}, r.Stubs...),
		"wall_s":     r.Wall,
		"violations": len(r.Violations) - r.Known,
	}
	os.MkdirAll(filepath.Join(outDir, "evidence"), 0o755)
	b, _ := json.MarshalIndent(ev, "", " ")
	os.WriteFile(filepath.Join(outDir, "evidence", prop+".json"), b, 0o644)
}
